#!/venv/bin/python
"""Regenerates the detection table of DESIGN.md section 8.4 from seeded/CATCHES.json (between the CATCH-TABLE markers)."""
import json, os
V = os.path.dirname(os.path.dirname(os.path.abspath(__file__)))
p = os.path.join(V, "DESIGN.md")
s = open(p).read()
a = s.index("<!-- CATCH-TABLE-BEGIN")
a2 = s.index("-->", a) + 4
b = s.index("<!-- CATCH-TABLE-END -->")
c = json.load(open(os.path.join(V, "seeded", "CATCHES.json")))
rows = ["| seed | first run | caught by | strengthening made |", "|------|-----------|-----------|--------------------|"]
for k in sorted(c):
    e = c[k]
    rows.append(f"| {k} | {e['first_run']} | {e['caught_by']} | {e.get('strengthening', '')} |")
open(p, "w").write(s[:a2] + "\n".join(rows) + "\n" + s[b:])
print(len(rows) - 2, "rows")
