#!/bin/bash
# usage: tools/run_mutants.sh <PID> [tier] [glob]  : runs ./check PID against every mutants/<pid>_*.diff
PID="$1"; TIER="${2:-quick}"; GL="${3:-$(echo "$PID" | tr A-Z a-z)_*.diff}"
cd "$(dirname "$0")/.."
for m in mutants/$GL; do
  out=$(tools/with_patch.sh "$m" ./check "$PID" --tier "$TIER" 2>&1); rc=$?
  nv=$(echo "$out" | grep -c '^VIOLATION')
  first=$(echo "$out" | grep -m1 -A1 '^VIOLATION' | tail -1 | cut -c1-160)
  echo "$(basename "$m"): rc=$rc violations=$nv ${first}"
done
