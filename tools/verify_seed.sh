#!/bin/bash
# usage: tools/verify_seed.sh <dir with patch.diff demo.py meta.json> [--no-baseline]
# Confirms a seeded change independently: (1) patch applies to /repo HEAD in a scratch worktree,
# (2) demo.py exits 0 on the unchanged tree and non-zero on the patched tree,
# (3) the repository's own suite (sharded over scratch copies) still passes all 75 baseline tests with the patch.
set -u
D="$(readlink -f "$1")"; NOBL="${2:-}"
W=$(mktemp -d /tmp/vs_XXXXXX)
git -C /repo worktree add --detach -f "$W" HEAD >/dev/null 2>&1 || { echo "worktree failed"; exit 3; }
cleanup(){ git -C /repo worktree remove --force "$W" >/dev/null 2>&1; rm -rf "$W"; }
trap cleanup EXIT
S=$(mktemp -d /tmp/vsd_XXXXXX)
( cd "$S" && PYTHONPATH="$W" timeout 600 /venv/bin/python -B "$D/demo.py" >"$S/un.out" 2>&1 ); rc0=$?
git -C "$W" apply "$D/patch.diff" || { echo "APPLY-FAILED"; rm -rf "$S"; exit 3; }
/venv/bin/python -B -c "import sys; sys.path.insert(0,'$W'); import PyMatterSim" >/dev/null 2>&1 || { echo "IMPORT-FAILED"; }
( cd "$S" && PYTHONPATH="$W" timeout 600 /venv/bin/python -B "$D/demo.py" >"$S/pa.out" 2>&1 ); rc1=$?
echo "demo: unchanged rc=$rc0  patched rc=$rc1 :: $(tail -1 "$S/pa.out" | cut -c1-200)"
rm -rf "$S"
ok=0
[ "$rc0" = 0 ] && [ "$rc1" != 0 ] || ok=1
if [ "$NOBL" != "--no-baseline" ]; then
  # only test files whose import closure contains a touched module can change their outcome
  export BL_ONLY="$("$(dirname "$0")/affected_tests.py" "$W" "$D/patch.diff")"
  BLOUT=$(mktemp /tmp/vsb_XXXXXX)
  "$(dirname "$0")/baseline_sharded.sh" "$W" > "$BLOUT" 2>&1; bl=$?
  head -8 "$BLOUT"; grep MISSING "$BLOUT"; rm -f "$BLOUT"
  [ "$bl" = 0 ] || ok=1
fi
echo "verify_seed $(basename "$D"): $([ $ok = 0 ] && echo CONFIRMED || echo REJECTED)"
exit $ok
