#!/venv/bin/python
"""usage: tools/reg.py PID 'level text' 'level note' 'technique'  -> updates tools/manifest_table.json and MANIFEST.json"""
import json, os, subprocess, sys
HERE = os.path.dirname(os.path.dirname(os.path.abspath(__file__)))
tp = os.path.join(HERE, "tools", "manifest_table.json")
T = json.load(open(tp))
pid, text, note, tech = sys.argv[1:5]
T["checks"][pid] = {"text": text, "note": note, "technique": tech}
T["not_applicable"] = [x for x in T["not_applicable"] if x["property_id"] != pid]
json.dump(T, open(tp, "w"), indent=1)
subprocess.run([os.path.join(HERE, "tools", "gen_manifest.py")], check=True)
