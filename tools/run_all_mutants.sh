#!/bin/bash
# usage: tools/run_all_mutants.sh [tier] [out.tsv] [jobs] : every mutants/*.diff against its property's check (scratch worktrees only),
# `jobs` mutants at a time with 16/jobs workers each.  One line per mutant: <mutant> <rc> <number of VIOLATION lines> <first violating sub-check>
TIER="${1:-quick}"; OUT="${2:-mutants/RESULTS.tsv}"; JOBS="${3:-4}"
cd "$(dirname "$0")/.."
W=$((16 / JOBS)); [ "$W" -lt 1 ] && W=1
one() {
  m="$1"; b=$(basename "$m" .diff); pid=$(echo "${b%%_*}" | tr a-z A-Z)
  out=$(tools/with_patch.sh "$m" ./check "$pid" --tier "$TIER" --workers "$W" 2>&1); rc=$?
  nv=$(echo "$out" | grep -c '^VIOLATION')
  sub=$(echo "$out" | grep -m1 -A1 '^VIOLATION' | tail -1 | sed -E 's/.*sub=([^ ]+).*/\1/' | cut -c1-60)
  printf '%s\t%s\t%s\t%s\n' "$b" "$rc" "$nv" "$sub"
}
export -f one; export TIER W
ls mutants/c*.diff | xargs -P "$JOBS" -I{} bash -c 'one {}' | sort > "$OUT"
awk -F'\t' '$2!=1{bad++; print "NOT CAUGHT: "$0} END{print NR" mutants, "bad+0" not caught"}' "$OUT"
