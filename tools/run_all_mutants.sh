#!/bin/bash
# usage: tools/run_all_mutants.sh [tier] [out.tsv]  : every mutants/*.diff against its property's check (scratch worktrees only)
# one line per mutant: <mutant> <rc> <number of VIOLATION lines> <first violating sub-check>
TIER="${1:-quick}"; OUT="${2:-mutants/RESULTS.tsv}"
cd "$(dirname "$0")/.."
: > "$OUT"
for m in mutants/c*.diff; do
  b=$(basename "$m" .diff); pid=$(echo "${b%%_*}" | tr a-z A-Z)
  out=$(tools/with_patch.sh "$m" ./check "$pid" --tier "$TIER" 2>&1); rc=$?
  nv=$(echo "$out" | grep -c '^VIOLATION')
  sub=$(echo "$out" | grep -m1 -A1 '^VIOLATION' | tail -1 | sed -E 's/.*sub=([^ ]+).*/\1/' | cut -c1-60)
  printf '%s\t%s\t%s\t%s\n' "$b" "$rc" "$nv" "$sub" >> "$OUT"
done
awk -F'\t' '$2!=1{bad++} END{print NR" mutants, "bad+0" not caught"}' "$OUT"
