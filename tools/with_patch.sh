#!/bin/bash
# usage: tools/with_patch.sh <patch.diff|-R:commit> <command...>
# Runs <command> with VERIF_REPO pointing at a scratch worktree of /repo's HEAD (+ uncommitted
# tracked changes are NOT included) with the patch applied; outputs go to a scratch VERIF_OUT.
set -u
PATCH="$1"; shift
W=$(mktemp -d /tmp/mw_XXXXXX)
git -C /repo worktree add --detach -f "$W" HEAD >/dev/null 2>&1 || { echo "worktree failed"; exit 3; }
cleanup(){ git -C /repo worktree remove --force "$W" >/dev/null 2>&1; rm -rf "$W" "$W.out"; }
trap cleanup EXIT
case "$PATCH" in
  -R:*) git -C /repo show "${PATCH#-R:}" | git -C "$W" apply -R || { echo "reverse apply failed"; exit 3; } ;;
  none) ;;
  *) git -C "$W" apply "$(readlink -f "$PATCH")" || { echo "apply failed"; exit 3; } ;;
esac
mkdir -p "$W.out"
VERIF_REPO="$W" VERIF_OUT="$W.out" "$@"
rc=$?
exit $rc
