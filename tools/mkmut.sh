#!/bin/bash
# usage: tools/mkmut.sh <name> <repo-relative file> <sed expression>   -> /verif/mutants/<name>.diff
set -e
NAME="$1"; F="$2"; EXPR="$3"
T=$(mktemp -d /tmp/mm_XXXXXX); trap 'rm -rf "$T"' EXIT
mkdir -p "$T/a/$(dirname "$F")" "$T/b/$(dirname "$F")"
git -C /repo show HEAD:"$F" > "$T/a/$F"
sed -E "$EXPR" "$T/a/$F" > "$T/b/$F"
if cmp -s "$T/a/$F" "$T/b/$F"; then echo "mkmut: no change for $NAME"; exit 1; fi
(cd "$T" && diff -u "a/$F" "b/$F" > "$T/p.diff" || true)
cp "$T/p.diff" "$(dirname "$0")/../mutants/$NAME.diff"
/venv/bin/python -c "import ast,sys; ast.parse(open('$T/b/$F').read())" || { echo "mutant does not parse"; exit 1; }
echo "mutants/$NAME.diff: $(grep -c '^[+-][^+-]' "$T/p.diff") changed lines"
