#!/venv/bin/python
"""usage: affected_tests.py <repo dir> <patch.diff>  -> prints the test files (relative) whose transitive
import closure inside the PyMatterSim package contains a module touched by the patch (a test that never imports a
touched module cannot change its outcome).  Non-python / non-package files touched -> all tests."""
import ast, os, re, sys
repo, patch = sys.argv[1], sys.argv[2]
touched = set(re.findall(r"^\+\+\+ b/(\S+)", open(patch).read(), re.M))
pkg = "PyMatterSim"
def modname(path):
    p = path[:-3].replace("/", ".")
    return p[:-9] if p.endswith(".__init__") else p
mods = {}
for root, _, files in os.walk(os.path.join(repo, pkg)):
    for f in files:
        if f.endswith(".py"):
            rel = os.path.relpath(os.path.join(root, f), repo)
            mods[modname(rel)] = rel
def imports_of(path, me):
    out = set()
    try:
        tree = ast.parse(open(os.path.join(repo, path)).read())
    except Exception:
        return None
    is_pkg = path.endswith("__init__.py")
    for n in ast.walk(tree):
        if isinstance(n, ast.Import):
            for a in n.names:
                out.add(a.name)
        elif isinstance(n, ast.ImportFrom):
            base = n.module or ""
            if n.level:
                parts = me.split(".")
                if not is_pkg:
                    parts = parts[:-1]
                parts = parts[: len(parts) - (n.level - 1)] if n.level > 1 else parts
                base = ".".join(parts + ([n.module] if n.module else []))
            out.add(base)
            for a in n.names:
                out.add(base + "." + a.name)
    res = set()
    for o in out:
        # a module and all its parent packages get imported
        parts = o.split(".")
        for i in range(1, len(parts) + 1):
            m = ".".join(parts[:i])
            if m in mods:
                res.add(m)
    return res
graph = {m: imports_of(p, m) for m, p in mods.items()}
def closure(start):
    seen, st = set(), list(start)
    while st:
        m = st.pop()
        if m in seen:
            continue
        seen.add(m)
        st.extend(graph.get(m) or ())
    return seen
bad = [t for t in touched if not (t.startswith(pkg + "/") and t.endswith(".py"))]
tm = {modname(t) for t in touched if t not in bad}
tests = []
for root, _, files in os.walk(os.path.join(repo, "tests")):
    for f in sorted(files):
        if f.endswith("_test.py"):
            rel = os.path.relpath(os.path.join(root, f), repo)
            imp = imports_of(rel, modname(rel))
            if bad or imp is None or closure(imp) & tm:
                tests.append(rel)
print("\n".join(sorted(tests)))
