#!/bin/bash
# usage: tools/baseline_sharded.sh [<repo dir or worktree>]   (default /repo)
# Runs the repository's test suite, one scratch COPY of the tree per test file (the suite is not
# safe to parallelise in one directory), and compares the passed set with BASELINE.json stable_pass.
SRC="${1:-/repo}"
TOP=$(mktemp -d /tmp/bl_XXXXXX)
trap 'rm -rf "$TOP"' EXIT
cd "$SRC" || exit 3
FILES=$(find tests -name '*_test.py' | sort)
# BL_ONLY (newline separated test files): run only these; baseline entries of other files are not compared
if [ -n "${BL_ONLY:-}" ]; then FILES="$BL_ONLY"; fi
export BL_FILES="$FILES"
i=0
for f in $FILES; do
  i=$((i+1)); D="$TOP/c$i"; mkdir -p "$D"
  rsync -a --exclude .git --exclude build --exclude dist --exclude docs "$SRC"/ "$D"/
  ( cd "$D" && PYTHONPATH="$D" /venv/bin/python -m pytest -ra -q -p no:cacheprovider --timeout=900 --continue-on-collection-errors --junitxml="$TOP/r$i.xml" "$f" > "$TOP/o$i.txt" 2>&1 ) &
done
wait
/venv/bin/python - "$TOP" <<'PY'
import sys, glob, json, xml.etree.ElementTree as ET
top = sys.argv[1]
passed = set(); failed = set()
for x in glob.glob(top + "/r*.xml"):
    for tc in ET.parse(x).getroot().iter("testcase"):
        name = f"{tc.get('classname')}::{tc.get('name')}"
        bad = any(ch.tag in ("failure", "error", "skipped") for ch in tc)
        (failed if bad else passed).add(name)
import os
base = set(json.load(open("/root/.vp/BASELINE.json"))["stable_pass"])
pref = tuple(f[:-3].replace("/", ".") + "." for f in os.environ.get("BL_FILES", "").split())
full = len(base)
base = {b for b in base if b.startswith(pref)}
print(f"test files run: {len(pref)}; baseline tests in them: {len(base)} of {full}")
missing = sorted(base - passed)
print(f"passed={len(passed)} failed={len(failed)} baseline={len(base)} baseline_missing={len(missing)}")
for m in missing: print("  MISSING", m)
extra = sorted(passed - base)
print("newly passing:", len(extra))
for e in extra: print("  +", e)
sys.exit(1 if missing else 0)
PY
