#!/venv/bin/python
"""Regenerates /verif/MANIFEST.json from the table below (kept in one place so it stays valid)."""
import json, os
HERE = os.path.dirname(os.path.dirname(os.path.abspath(__file__)))
T = json.load(open(os.path.join(HERE, "tools", "manifest_table.json")))
checks = []
for pid, e in sorted(T["checks"].items()):
    checks.append({
        "property_id": pid,
        "quick_cmd": f"./check {pid} --tier quick",
        "thorough_cmd": f"./check {pid} --tier thorough",
        "evidence_file": f"/verif/evidence/{pid}.json",
        "replay_cmd_template": "./check --replay {path}",
        "engine": "mc-explorer",
        "level_claimed": {"category": "model_checking", "text": e["text"], "design_ref": e.get("design_ref", f"DESIGN.md section 3, {pid}")},
        "level_note": e["note"],
        "technique": e["technique"],
    })
man = {
    "version": 1,
    "setup_cmd": "./check --selftest",
    "hooks": {
        "guard": "PYMATTERSIM_VERIF",
        "enable": "no source hooks are needed: checks import the current working tree of /repo (VERIF_REPO overrides) and observe return values and files; ./check exports PYMATTERSIM_VERIF=1 for uniformity",
        "baseline_off_cmd": "cd /repo && /venv/bin/python -m pytest -ra -q -p no:cacheprovider --timeout=900 --continue-on-collection-errors",
        "source_commits": [],
        "add_only": True,
    },
    "engines": [{
        "name": "mc-explorer", "path": "/verif/mc",
        "serves_properties": sorted(T["checks"]),
        "kind_free_text": "hand-written bounded-exhaustive explorer for Python: E1 complete enumeration of finite input alphabets (deviation-bounded where stated), E2 explicit-state BFS over operation/frame histories on the real objects, E3 finite unisolvent grids; every explored trace is an implementation trace compared with a reference model",
    }],
    "checks": checks,
    "notes": T.get("notes", ""),
    "not_applicable": T.get("not_applicable", []),
}
json.dump(man, open(os.path.join(HERE, "MANIFEST.json"), "w"), indent=1)
print("wrote MANIFEST.json with", len(checks), "checks;", len(man["not_applicable"]), "not_applicable")
