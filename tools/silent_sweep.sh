#!/bin/bash
# usage: tools/silent_sweep.sh <tier> <seeds...> : every registered check on the unchanged tree; prints only summary / alarm lines
cd "$(dirname "$0")/.."
tier=$1; shift
for s in "$@"; do for i in $(seq -w 1 20); do
  VERIF_SEED=$s VERIF_OUT=/tmp/ss_out_$$ ./check C$i --tier $tier 2>&1 | grep -E "^\[C|VIOLATION|VACUOUS|NONDET|UNREPRO|Traceback" | cut -c1-220
done; done
rm -rf /tmp/ss_out_$$
