#!/usr/bin/env python3
"""usage: reg_add.py <PID> <text> <note> <technique> : register a check in manifest_table.json and regenerate MANIFEST.json"""
import json, os, subprocess, sys
HERE = os.path.dirname(os.path.dirname(os.path.abspath(__file__)))
pid, text, note, tech = sys.argv[1:5]
p = os.path.join(HERE, "tools", "manifest_table.json")
T = json.load(open(p))
T["checks"][pid] = {"text": text, "note": note, "technique": tech}
T["not_applicable"] = [x for x in T.get("not_applicable", []) if x["property_id"] != pid]
json.dump(T, open(p, "w"), indent=1)
subprocess.run(["/venv/bin/python", os.path.join(HERE, "tools", "gen_manifest.py")], check=True)
