#!/venv/bin/python
"""usage: tools/anchor_coverage.py <PID> [tier] : runs the property's check with line+branch coverage of /repo/PyMatterSim in every
worker (forked grandchildren excluded) and lists, for the files the property is anchored in, the lines and branches that NO enumerated
case reached.  Diagnostic for blind spots of the alphabets; not part of any registered check."""
import json, os, subprocess, sys, tempfile, shutil, glob
pid = sys.argv[1]; tier = sys.argv[2] if len(sys.argv) > 2 else "quick"
V = os.path.dirname(os.path.dirname(os.path.abspath(__file__)))
props = {json.loads(l)["id"]: json.loads(l) for l in open(os.path.join(V, "properties.jsonl"))}
files = props[pid]["anchors"]["files"]
d = tempfile.mkdtemp(prefix="vcov_")
env = dict(os.environ, VERIF_COVERAGE=d, VERIF_OUT=os.path.join(d, "out"))
r = subprocess.run([os.path.join(V, "check"), pid, "--tier", tier], env=env, capture_output=True, text=True)
print(r.stdout.strip().splitlines()[0] if r.stdout.strip() else r.stderr[-500:])
import coverage
c = coverage.Coverage(data_file=os.path.join(d, "combined"), branch=True)
c.combine(glob.glob(os.path.join(d, "cov.*")))
c.save()
repo = os.environ.get("VERIF_REPO", "/repo")
for f in files:
    fn = os.path.join(repo, f)
    try:
        a = c._analyze(fn)
    except Exception as e:
        print(f, "not measured", e); continue
    miss = sorted(a.missing)
    src = open(fn).read().splitlines()
    # drop lines that belong to module level (def/import executed before coverage started)
    miss = [m for m in miss if not src[m - 1].startswith(("def ", "class ", "import ", "from ", "@")) and src[m - 1][:1] in (" ", "\t")]
    br = a.missing_branch_arcs() if hasattr(a, "missing_branch_arcs") else {}
    print(f"== {f}: statements {len(a.statements)} missing {len(miss)}")
    # group consecutive
    runs = []
    for m in miss:
        if runs and m == runs[-1][1] + 1: runs[-1][1] = m
        else: runs.append([m, m])
    for a0, a1 in runs:
        print(f"   L{a0}-{a1}: {src[a0-1].strip()[:110]}")
    pb = {k: v for k, v in br.items() if k not in a.missing}
    for k, v in sorted(pb.items()):
        print(f"   branch L{k} -> {sorted(v)} never taken: {src[k-1].strip()[:100]}")
shutil.rmtree(d, ignore_errors=True)
