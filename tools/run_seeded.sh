#!/bin/bash
# usage: tools/run_seeded.sh [glob] [tier]  : runs the property's check against every /verif/seeded/<glob>/patch.diff
# (in a scratch worktree, never in /repo) and keeps the first counterexample as seeded/<id>/replay.json
GL="${1:-*}"; TIER="${2:-quick}"
cd "$(dirname "$0")/.."
for d in seeded/$GL/; do
  d="${d%/}"
  [ -f "$d/patch.diff" ] || continue
  pid=$(/venv/bin/python -c "import json,sys; print(json.load(open('$d/meta.json'))['property'])")
  out=$(DEST="$PWD/$d" tools/with_patch.sh "$d/patch.diff" bash -c "./check $pid --tier $TIER; rc=\$?; f=\$(ls \$VERIF_OUT/replays/*.json 2>/dev/null | head -1); [ -n \"\$f\" ] && cp \"\$f\" \"\$DEST/replay.json\"; exit \$rc" 2>&1); rc=$?
  nv=$(echo "$out" | grep -c '^VIOLATION')
  first=$(echo "$out" | grep -m1 -A1 '^VIOLATION' | tail -1 | cut -c1-150)
  echo "$(basename "$d") [$pid $TIER]: rc=$rc violations=$nv ${first}"
done
