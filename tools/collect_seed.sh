#!/bin/bash
# usage: tools/collect_seed.sh <sid> : copies /tmp/seedw/<sid>.out into seeded/<sid>, verifies it independently, runs the quick check against it
cd "$(dirname "$0")/.."
s=$1
[ -f /tmp/seedw/$s.out/patch.diff ] || { echo "$s: no patch"; exit 2; }
mkdir -p seeded/$s && cp /tmp/seedw/$s.out/{patch.diff,demo.py,meta.json} seeded/$s/
tools/verify_seed.sh seeded/$s 2>&1 | tail -4
tools/run_seeded.sh $s quick
