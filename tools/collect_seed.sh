#!/bin/bash
# usage: tools/collect_seed.sh <sid> [snapshot dir of /verif to run the check from] : copies /tmp/seedw/<sid>.out into seeded/<sid>,
# verifies it independently, runs the quick check against it (from the snapshot when given: builders may be editing the working tree)
cd "$(dirname "$0")/.."
s=$1; SNAP="${2:-$PWD}"
[ -f /tmp/seedw/$s.out/patch.diff ] || { echo "$s: no patch"; exit 2; }
mkdir -p seeded/$s && cp /tmp/seedw/$s.out/{patch.diff,demo.py,meta.json} seeded/$s/
tools/verify_seed.sh seeded/$s 2>&1 | tail -4
if [ "$SNAP" != "$PWD" ]; then rm -rf "$SNAP/seeded/$s"; cp -r seeded/$s "$SNAP/seeded/$s"; fi
"$SNAP/tools/run_seeded.sh" $s quick
[ "$SNAP" != "$PWD" ] && [ -f "$SNAP/seeded/$s/replay.json" ] && cp "$SNAP/seeded/$s/replay.json" seeded/$s/replay.json
echo "snapshot: $(git -C "$SNAP" rev-parse --short HEAD)"
