"""C17 - local order parameters: S2 pair entropy, q_tetrahedral, nematic tensor, gyration descriptors (E1)."""
import itertools
import math
import os

import numpy as np

from mc import alphabets as A
from mc.harness import Result, Sub
from mc.ref.base import frac_tie_margin, mk_snap, mk_snaps, write_neighbor_file
from mc.ref import cgorder as G
from mc.ref import c17x as X

ASSUMPTIONS = [
    "S2: the sum over j runs over the particles with minimum-image r_ij < r_m, r_m = centre of the last bin (bins r_k = (k+1/2) rdelta); "
    "width matrices are symmetric; every particle has at least one pair inside r_m so the smeared g stays > 0 (g ln g at g = 0 is "
    "outside the documented formula); density = N / prod(boxlength); triclinic cells use the C02 half-cell minimum-image convention",
    "tetrahedral: N >= 5, distinct particles; configurations whose 4th and 5th nearest distances differ by < 1e-9 are screened out; "
    "'perfect' = four vertices of a regular tetrahedron at equal distance, every other particle at least 1.3x farther",
    "nematic: directors are unit vectors (cos k pi/8, sin k pi/8) stored as snapshot positions (LAMMPSVECTOR), 2D only (the code asserts "
    "ndim == 2); the Q tensor is observed as NematicOrder.QIJ",
    "gyration: descriptors compared in value; a complex-typed return with zero imaginary part is accepted (numpy >= 2.x linalg.eig); "
    "the fractal dimension log N / log Rg is not compared when |log10 Rg| < 1e-7 (undefined at Rg = 1)",
    "float tolerance rtol 1e-9 / atol 1e-11 (1e-12 for the perfect-tetrahedron clause)",
    "scale slice: S2, q_tetrahedral and the nematic tensor of 63..257 particles are compared with vectorised numpy references (mc/ref/c17x.py, same formulas as "
    "mc/ref/cgorder.py on full pair tables); placements with a periodic fractional pair component within 1e-9 of a half-cell tie, a pair distance within 1e-9 of r_m, "
    "or a 4th/5th-nearest gap below 1e-9 are replaced by the next hash table; S2 and q_tetrahedral assert a constant boxlength, so only the tilt factors change per frame; "
    "gyration_tensor must give the same descriptors for C-ordered, Fortran-ordered and non-contiguous position arrays (npt.NDArray is all the documentation asks for); "
    "neighbour lists of the nematic scale rows contain particles WITHOUT neighbours (cn = 0, as in the small-scope alphabet: Q_i is then the particle's own tensor)",
]
RT, AT = 1e-9, 1e-11


# ========================================================================================= S2
S2_L = {2: [2.0, 2.4], 3: [2.0, 2.4, 2.2]}
S2_TILT = {2: [0.6], 3: [0.6, -0.4, 0.5]}
S2_SIG = {"k1": [[0.4]], "k2a": [[0.4, 0.5], [0.5, 0.6]], "k2b": [[0.3, 0.2], [0.2, 0.4]]}
S2_BINS = [(0.05, 20), (0.1, 20), (0.05, 40), (0.1, 40)]


def s2_cell(d, cell):
    return A.hmat_tri(S2_L[d], S2_TILT[d] if cell == "tri" else [0.0] * (1 if d == 2 else 3))


def s2_frames(seed, d, N, spread, tag, F, H):
    out = []
    for f in range(F):
        fr = np.array(A.generic_points(seed, N, d, tag=f"s2_{d}{N}{tag}f{f}_"))
        out.append(((0.5 + spread * (fr - 0.5)) @ H))
    return out


def s2_types(N, K):
    if K == 1:
        return [[1] * N]
    if N == 3:
        return list(A.surjections(3, 2))
    return [[1 + (i % 2) for i in range(N)], [2] + [1] * (N - 1)]


def gen_s2(tier, seed):
    ntag = 2 if tier == "quick" else 6
    for d in (2, 3):
        for cell in ("orth", "tri"):
            H = s2_cell(d, cell)
            for N in (3, 4, 5):
                for spread in (0.45, 1.0):
                    for tag in range(ntag):
                        for F in (1, 2):
                            if F == 2 and (tag > 0 or (tier == "quick" and cell == "tri")):
                                continue
                            frames = s2_frames(seed, d, N, spread, tag, F, H)
                            for (rd, nd) in S2_BINS:
                                rm = (nd - 1) * rd + rd / 2
                                for m in A.masks(d):
                                    if not all(G.s2_admissible(p, H, m, rm) for p in frames):
                                        continue
                                    for sk in ("k1", "k2a", "k2b"):
                                        K = 1 if sk == "k1" else 2
                                        for ti, types in enumerate(s2_types(N, K)):
                                            if tier == "quick" and sk == "k2b" and ti > 0:
                                                continue
                                            savegr = bool((tag + ti + nd // 20) % 2)
                                            yield {"d": d, "cell": cell, "N": N, "spread": spread, "tag": tag, "F": F, "rd": rd, "nd": nd,
                                                   "ppp": m, "sig": sk, "types": types, "savegr": savegr, "seed": seed}
                                            if F == 2 and K == 2 and list(types) != list(types)[::-1]:
                                                # species change between frames (swap moves): frame 1 carries the reversed labels
                                                yield {"d": d, "cell": cell, "N": N, "spread": spread, "tag": tag, "F": F, "rd": rd, "nd": nd,
                                                       "ppp": m, "sig": sk, "types": types, "savegr": savegr, "seed": seed, "swap": True}


def run_s2(case):
    from PyMatterSim.static.pairentropy import S2

    R = Result()
    d, N = case["d"], case["N"]
    H = s2_cell(d, case["cell"])
    frames = s2_frames(case["seed"], d, N, case["spread"], case["tag"], case["F"], H)
    ppp = np.array(case["ppp"])
    sigm = np.array(S2_SIG[case["sig"]])
    types = case["types"]
    rd, nd = case["rd"], case["nd"]
    sig = {"d": d, "cell": case["cell"], "K": len(set(types)), "masked": bool((ppp == 0).any()), "multi_frame": case["F"] > 1,
           "savegr": case["savegr"]}
    refs, grs = [], []
    partial = False
    types_f = [list(types) if (f % 2 == 0 or not case.get("swap")) else list(types)[::-1] for f in range(len(frames))]
    sig["types_change"] = bool(case.get("swap"))
    for f_, p in enumerate(frames):
        types = types_f[f_]
        tm = min(frac_tie_margin(p - p[i], H, ppp) for i in range(N))
        s2, info = G.ref_s2(p, H, types, sigm, ppp, rd, nd)
        if tm < 1e-9 or info["margin"] < 1e-9 or min(info["nneigh"]) == 0 or not (info["gmin"] > 1e-290):
            return R.screen()
        partial = partial or any(c < N - 1 for c in info["nneigh"])
        refs.append(s2)
        if case["savegr"]:
            grs.append(G.ref_s2_gr(p, H, types, sigm, ppp, rd, nd))
    refs = np.array(refs)
    from PyMatterSim.reader.reader_utils import Snapshots
    from mc.ref.base import mk_snap

    snaps = Snapshots(len(frames), [mk_snap(p.tolist(), H, types_f[f_], ts=100 * f_) for f_, p in enumerate(frames)])
    before = [s.positions.copy() for s in snaps.snapshots]
    out = S2(snaps, sigm, ppp, rd, nd).particle_s2(savegr=case["savegr"])
    if case["savegr"]:
        if not (isinstance(out, tuple) and len(out) == 2):
            R.fail("savegr=True did not return (s2, particle_gr)", sig=dict(sig, clause="return"))
            return R
        got, pgr = np.asarray(out[0]), np.asarray(out[1])
        for fn in ("particle_gr..npy", "particle_gr.npy"):
            if os.path.exists(fn):
                os.remove(fn)
        grs = np.array(grs)
        if pgr.shape != grs.shape:
            R.fail(f"particle_gr shape {pgr.shape} != {grs.shape}", sig=dict(sig, clause="gr_shape"))
        elif not np.allclose(pgr, grs, rtol=RT, atol=AT):
            f, i, k = [int(v) for v in np.argwhere(~np.isclose(pgr, grs, rtol=RT, atol=AT))[0]]
            R.fail(f"frame {f} particle {i} bin {k}: smeared g = {pgr[f, i, k]!r}, reference {grs[f, i, k]!r}",
                   sig=dict(sig, clause="gr"), exp=grs[f, i], obs=pgr[f, i])
    else:
        got = np.asarray(out)
    R.elem = N * len(frames)
    if got.shape != refs.shape:
        R.fail(f"shape {got.shape} != {refs.shape}", sig=dict(sig, clause="shape"))
        return R
    if not np.allclose(got, refs, rtol=RT, atol=AT):
        f, i = [int(v) for v in np.argwhere(~np.isclose(got, refs, rtol=RT, atol=AT))[0]]
        R.fail(f"frame {f} particle {i} (type {types[i]}): S2 = {got[f, i]!r}, documented formula gives {refs[f, i]!r}",
               sig=dict(sig, clause="s2"), exp=refs[f], obs=got[f])
    for s, b in zip(snaps.snapshots, before):
        if not np.array_equal(s.positions, b):
            R.fail("snapshot positions modified", sig=dict(sig, clause="input_modified"))
    R.outcome(got)
    R.nontrivial = partial or N >= 4
    return R


# ================================================================================ tetrahedral
T_L = [6.0, 7.0, 8.0]
T_H = np.diag(T_L)
T_TILT = [1.0, -1.5, 2.0]
SCALES = [0.5, 0.8, 1.1]
ROTS = ["id", "z30", "gen"]
ORDERS = [list(p) for p in itertools.permutations(range(4))]
LOCS = {"centre": [3.013, 3.479, 4.017], "corner": [0.05, -0.1, 0.2]}


_FAR = {}


def far_sites(seed, loc):
    if (seed, loc) not in _FAR:
        _FAR[(seed, loc)] = _far_sites(seed, loc)
    return _FAR[(seed, loc)]


def _far_sites(seed, loc):
    c = np.array(LOCS[loc])
    pts = np.array(A.jl_points(seed, 3, 3, T_L, tag="tfar"))
    keep = []
    for p in pts:
        rv = G.minimg((p - c)[None, :], T_H, [1, 1, 1])[0]
        if math.sqrt(float(rv @ rv)) > 1.3 * max(SCALES):
            keep.append(p.tolist())
    return keep


def gen_perfect(tier, seed):
    nsites = {loc: len(far_sites(seed, loc)) for loc in LOCS}
    full = tier == "thorough"
    for loc in ("centre", "corner"):
        n = nsites[loc]
        fars = [[]] + [[a] for a in range(n)]
        pairs = [list(p) for p in itertools.combinations(range(n), 2)]
        for scale in SCALES:
            for rot in ROTS:
                for cidx in ((0, 2, 4) if full else (0, 2)):
                    for oi in range(24):
                        default = (scale == 0.8 and rot == "gen" and cidx == 0)
                        if full:
                            farlist = fars + (pairs if cidx == 0 else [])
                        else:
                            farlist = fars if cidx == 0 else fars[:1]
                            if default and (loc == "centre" or oi in (0, 7, 13, 23)):
                                farlist = farlist + pairs
                        for far in farlist:
                            for ff in ((False, True) if (full and far) else (False,)):
                                yield {"loc": loc, "scale": scale, "rot": rot, "cidx": cidx, "order": oi, "far": far, "far_first": ff,
                                       "ppp": [1, 1, 1], "seed": seed}
    # non-periodic axes (tetrahedron inside the box): all masks, <= 1 far particle
    n = nsites["centre"]
    for m in A.masks(3)[1:]:
        for scale in SCALES:
            for oi in (range(24) if full else (0, 7, 13, 23)):
                for far in [[]] + [[a] for a in range(n)]:
                    yield {"loc": "centre", "scale": scale, "rot": "gen", "cidx": 1, "order": oi, "far": far, "far_first": False, "ppp": m, "seed": seed}


def perfect_config(case, with_far=True):
    c = np.array(LOCS[case["loc"]])
    v = np.array(G.tetrahedron(case["scale"], case["rot"], ORDERS[case["order"]])) + c
    core = [p.tolist() for p in v]
    core.insert(case["cidx"], c.tolist())
    ci = case["cidx"]
    pos = core
    if with_far and case["far"]:
        sites = far_sites(case["seed"], case["loc"])
        extra = [sites[a] for a in case["far"]]
        if case["far_first"]:
            pos = extra + core
            ci += len(extra)
        else:
            pos = core + extra
    pos = np.array(pos)
    if case["loc"] == "corner":
        pos = pos - np.floor(pos / np.array(T_L)) * np.array(T_L)  # wrapped into the box
    return pos, ci


def run_perfect(case):
    from PyMatterSim.static.geometric import q8_tetrahedral

    R = Result()
    ppp = np.array(case["ppp"])
    sig = {"loc": case["loc"], "nfar": len(case["far"]), "masked": bool((ppp == 0).any())}
    pos, ci = perfect_config(case, True)
    snaps = mk_snaps([pos.tolist()], T_H, [1] * len(pos))
    q = np.asarray(q8_tetrahedral(snaps, ppp=ppp))
    if q.shape != (1, len(pos)):
        R.fail(f"shape {q.shape}", sig=dict(sig, clause="shape"), sub="C17.tetra.perfect")
        return R
    qc = float(q[0, ci])
    if not abs(qc - 1.0) <= 1e-12:
        R.fail(f"perfect tetrahedral coordination (scale {case['scale']}, rotation {case['rot']}, vertex order {ORDERS[case['order']]}, "
               f"{len(case['far'])} farther particles): q = {qc!r}, expected 1", sig=dict(sig, clause="perfect"), exp=1.0, obs=qc, sub="C17.tetra.perfect")
    if case["far"]:
        pos0, ci0 = perfect_config(case, False)
        q0 = float(np.asarray(q8_tetrahedral(mk_snaps([pos0.tolist()], T_H, [1] * 5), ppp=ppp))[0, ci0])
        if not abs(q0 - qc) <= 1e-12:
            R.fail(f"q of the centre changes from {q0!r} to {qc!r} when {len(case['far'])} farther particles are added",
                   sig=dict(sig, clause="far_independence"), exp=q0, obs=qc, sub="C17.tetra.four_nearest")
    R.outcome(np.round(q[0], 6))
    R.nontrivial = True
    return R


F_L = [5.0, 6.0, 7.0]


def tetra_cell(cell):
    return A.hmat_tri(F_L, T_TILT if cell == "tri" else [0, 0, 0])


def gen_formula(tier, seed):
    ntag = 4 if tier == "quick" else 12
    for cell in ("orth", "tri"):
        for N in (5, 6, 7, 8):
            for tag in range(ntag):
                for m in A.masks(3):
                    for F in (1, 2):
                        if F == 2 and tag > 1:
                            continue
                        yield {"kind": "generic", "cell": cell, "N": N, "tag": tag, "ppp": m, "F": F, "seed": seed}
    for N in (5, 6, 7):
        for sub in itertools.combinations(range(8), N):
            for m in (A.masks(3) if tier == "thorough" else ([1, 1, 1], [1, 0, 1], [0, 0, 0])):
                yield {"kind": "jl2", "cell": "orth", "N": N, "subset": list(sub), "ppp": m, "F": 1, "seed": seed}


def formula_frames(case):
    H = tetra_cell(case["cell"])
    if case["kind"] == "generic":
        return H, [np.array(A.generic_points(case["seed"], case["N"], 3, tag=f"tq{case['N']}_{case['tag']}f{f}_")) @ H for f in range(case["F"])]
    pts = np.array(A.jl_points(case["seed"], 2, 3, F_L, tag="tq2"))
    return H, [pts[case["subset"]]]


def run_formula(case):
    from PyMatterSim.static.geometric import q8_tetrahedral

    R = Result()
    H, frames = formula_frames(case)
    ppp = np.array(case["ppp"])
    N = case["N"]
    sig = {"kind": case["kind"], "cell": case["cell"], "N5": N == 5, "masked": bool((ppp == 0).any()), "multi_frame": case["F"] > 1}
    refs = []
    for p in frames:
        if min(frac_tie_margin(p - p[i], H, ppp) for i in range(N)) < 1e-9:
            return R.screen()
        q, near, margin = G.ref_tetra(p, H, ppp)
        if margin < 1e-9:
            return R.screen()
        refs.append(q)
    refs = np.array(refs)
    snaps = mk_snaps([p.tolist() for p in frames], H, [1] * N)
    before = [s.positions.copy() for s in snaps.snapshots]
    got = np.asarray(q8_tetrahedral(snaps, ppp=ppp))
    R.elem = N * len(frames)
    if got.shape != refs.shape:
        R.fail(f"shape {got.shape} != {refs.shape}", sig=dict(sig, clause="shape"))
        return R
    if not np.allclose(got, refs, rtol=RT, atol=AT):
        f, i = [int(v) for v in np.argwhere(~np.isclose(got, refs, rtol=RT, atol=AT))[0]]
        R.fail(f"frame {f} particle {i}: q = {got[f, i]!r}, 1 - 3/32 sum (cos psi + 1/3)^2 over the four nearest = {refs[f, i]!r}",
               sig=dict(sig, clause="formula"), exp=refs[f], obs=got[f])
    for s, b in zip(snaps.snapshots, before):
        if not np.array_equal(s.positions, b):
            R.fail("snapshot positions modified", sig=dict(sig, clause="input_modified"))
    R.outcome(got)
    R.nontrivial = True
    return R


def gen_four(tier, seed):
    for case in gen_formula(tier, seed):
        if case["N"] >= 6 and case["F"] == 1:
            if tier == "quick" and case["kind"] == "generic" and case["tag"] > 1:
                continue
            yield case


def run_four(case):
    """Removing a particle that is not among the four nearest of i must not change q_i."""
    from PyMatterSim.static.geometric import q8_tetrahedral

    R = Result()
    H, frames = formula_frames(case)
    p = frames[0]
    ppp = np.array(case["ppp"])
    N = case["N"]
    sig = {"kind": case["kind"], "cell": case["cell"], "masked": bool((ppp == 0).any())}
    if min(frac_tie_margin(p - p[i], H, ppp) for i in range(N)) < 1e-9:
        return R.screen()
    _, near, margin = G.ref_tetra(p, H, ppp)
    if margin < 1e-9:
        return R.screen()
    full = np.asarray(q8_tetrahedral(mk_snaps([p.tolist()], H, [1] * N), ppp=ppp))[0]
    ncomp = 0
    R.states, R.transitions = 1, 0
    for j in range(N):
        keep = [i for i in range(N) if i != j]
        sub = np.asarray(q8_tetrahedral(mk_snaps([p[keep].tolist()], H, [1] * (N - 1)), ppp=ppp))[0]
        R.transitions += 1
        for a, i in enumerate(keep):
            if j in near[i]:
                continue
            ncomp += 1
            if not abs(sub[a] - full[i]) <= 1e-12:
                R.fail(f"q of particle {i} changes from {full[i]!r} to {sub[a]!r} when particle {j} (not among its four nearest {near[i]}) is removed",
                       sig=dict(sig, clause="four_nearest"), exp=full[i], obs=sub[a])
                break
    R.states = 1 + N
    R.elem = ncomp
    R.outcome(full)
    R.nontrivial = ncomp > 0
    return R


# ==================================================================================== nematic
def director(k):
    return [math.cos(k * math.pi / 8), math.sin(k * math.pi / 8)]


_T3 = None


def topos3():
    global _T3
    if _T3 is None:
        _T3 = list(G.all_topologies(3, allow_empty=True))
    return _T3


_T4 = None


def topos4():
    global _T4
    if _T4 is None:
        _T4 = list(G.all_topologies(4, allow_empty=True))
    return _T4


def gen_nematic(tier, seed):
    nt = len(topos3())
    for t in [-1] + list(range(nt)):  # -1: no neighbour file
        for k0 in range(8):
            for k1 in range(8):
                if tier == "quick":
                    # the eight k2 values are the eight frames of one call (the neighbour file repeats the topology per frame)
                    yield {"N": 3, "topo": t, "ks": [[k0, k1, k2] for k2 in range(8)], "seed": seed}
                else:
                    for k2 in range(8):
                        yield {"N": 3, "topo": t, "ks": [[k0, k1, k2]], "seed": seed}
    if tier == "thorough":
        # N = 4: every topology with eight director assignments (as frames); every director assignment with three topologies
        n4 = len(topos4())
        for t in range(n4):
            ks = [[(t + f) % 8, (3 * t + 2 * f + 1) % 8, (5 * t + 3 * f + 2) % 8, (7 * t + 5 * f + 3) % 8] for f in range(8)]
            yield {"N": 4, "topo": t, "ks": ks, "seed": seed}
        for k0, k1, k2 in itertools.product(range(8), repeat=3):
            for t in (-1, n4 - 1, 1234):
                yield {"N": 4, "topo": t, "ks": [[k0, k1, k2, k3] for k3 in range(8)], "seed": seed}
    # frame sequences: a different topology in every frame of the neighbour file
    for t in range(0, nt, 1 if tier == "thorough" else 4):
        yield {"N": 3, "topo": t, "ks": [[(t + f) % 8, (2 * t + 3 * f + 1) % 8, (t + 5 * f + 2) % 8] for f in range(3)], "vary": True, "seed": seed}


def run_nematic(case):
    from PyMatterSim.static.nematic import NematicOrder

    R = Result()
    N = case["N"]
    T = topos3() if N == 3 else topos4()
    ks = case["ks"]
    F = len(ks)
    us = [np.array([director(k) for k in row]) for row in ks]
    if case["topo"] < 0:
        tf = None
    elif case.get("vary"):
        tf = [T[(case["topo"] + 7 * f) % len(T)] for f in range(F)]
    else:
        tf = [T[case["topo"]]] * F
    sig = {"N": N, "file": tf is not None, "multi_frame": F > 1}
    nf = ""
    if tf is not None:
        nf = "nl_c17.dat"
        write_neighbor_file(nf, tf)
    refs = [G.ref_nematic(us[f], None if tf is None else tf[f]) for f in range(F)]
    Qref = np.array([r[0] for r in refs])
    Sref = np.array([r[1] for r in refs])
    Lref = np.array([r[2] for r in refs])
    snaps = mk_snaps([u.tolist() for u in us], np.eye(2), [1] * N)
    before = [s.positions.copy() for s in snaps.snapshots]
    res = {}
    for ev in (False, True):
        no = NematicOrder(snaps)
        out = np.asarray(no.tensor(ndim=2, neighborfile=nf, eigvals=ev, outputfile="nm"))
        res[ev] = out
        Q = np.asarray(no.QIJ)
        s2 = dict(sig, eigvals=ev)
        if Q.shape != Qref.shape or not np.allclose(Q, Qref, rtol=RT, atol=1e-12):
            R.fail("Q tensor differs from (2 u u^T - I)/2" + (" averaged over self + listed neighbours" if tf is not None else ""),
                   sig=dict(s2, clause="tensor"), exp=Qref, obs=Q, sub="C17.nematic.tensor")
        want = 2 * Lref if ev else Sref
        if out.shape != want.shape:
            R.fail(f"shape {out.shape} != {want.shape}", sig=dict(s2, clause="shape"), sub="C17.nematic.scalar")
            return R
        if not np.allclose(out, want, rtol=RT, atol=1e-10):
            f, i = [int(v) for v in np.argwhere(~np.isclose(out, want, rtol=RT, atol=1e-10))[0]]
            R.fail(f"frame {f} particle {i}: " + ("2 lambda_max" if ev else "sqrt(2 tr Q^2)") + f" = {out[f, i]!r}, reference {want[f, i]!r}",
                   sig=dict(s2, clause="scalar"), exp=want[f], obs=out[f], sub="C17.nematic.scalar")
    if res[False].shape == res[True].shape and not np.allclose(res[False], res[True], rtol=RT, atol=1e-9):
        R.fail("sqrt(2 tr Q^2) != 2 lambda_max", sig=dict(sig, clause="trace_eq_eig"), exp=res[False], obs=res[True], sub="C17.nematic.scalar")
    for s, b in zip(snaps.snapshots, before):
        if not np.array_equal(s.positions, b):
            R.fail("orientation snapshot modified", sig=dict(sig, clause="input_modified"), sub="C17.nematic.tensor")
    for fn in ("nm.QIJ_raw.npy", "nm.QIJ_cg.npy", "nm.eigval.npy", "nm.Qtrace.npy", "nl_c17.dat"):
        if os.path.exists(fn):
            os.remove(fn)
    R.elem = 2 * N * F
    R.outcome([res[False], res[True]])
    R.nontrivial = len({tuple(r) for r in ks}) > 1 or len(set(ks[0])) > 1
    return R


# =================================================================================== gyration
def gen_gyration(tier, seed):
    for d in (2, 3):
        n = 3**d
        for N in (2, 3, 4):
            for sub in itertools.combinations(range(n), N):
                for scale in (1.0, 0.5, 3.0):
                    if scale != 1.0 and d == 3 and N == 4 and tier == "quick":
                        continue
                    yield {"kind": "lattice", "d": d, "subset": list(sub), "scale": scale, "seed": seed}
        for N in ((2, 3, 4) if (d == 2 or tier == "thorough") else (2, 3)):
            for sub in itertools.combinations(range(n), N):
                for scale in (1.0, 0.25):
                    yield {"kind": "jl", "d": d, "subset": list(sub), "scale": scale, "seed": seed}
        for N in (5, 6, 7, 8):
            for tag in range(4 if tier == "quick" else 16):
                for scale in (0.5, 4.0):
                    yield {"kind": "generic", "d": d, "N": N, "tag": tag, "scale": scale, "seed": seed}


def gyr_points(case):
    d = case["d"]
    if case["kind"] == "lattice":
        lat = [list(map(float, x)) for x in itertools.product(range(3), repeat=d)]
        return np.array([lat[i] for i in case["subset"]]) * case["scale"] + (np.array([10.0, -7.0, 3.0])[:d] if len(case["subset"]) % 2 else 0.0)
    if case["kind"] == "jl":
        pts = np.array(A.jl_points(case["seed"], 3, d, [3.0] * d, tag=f"gy{d}"))
        return pts[case["subset"]] * case["scale"]
    return (np.array(A.generic_points(case["seed"], case["N"], d, tag=f"gyg{d}{case['N']}_{case['tag']}_")) - 0.3) * case["scale"] * np.array([1.0, 2.0, 0.5])[:d]


def run_gyration(case):
    from PyMatterSim.static.shape import gyration_tensor

    R = Result()
    p = gyr_points(case)
    N, d = p.shape
    ref = G.ref_gyration(p)
    # argument forms (scale slice): Fortran-ordered, non-contiguous view, float32-free integer lattice is covered by kind "lattice"
    if case.get("layout") == "F":
        p = np.asfortranarray(p)
    elif case.get("layout") == "strided":
        big = np.full((N, 2 * d), 7.25)
        big[:, ::2] = p
        p = big[:, ::2]
    sig = {"d": d, "kind": case["kind"], "N2": N == 2}
    if case.get("layout"):
        sig["layout"] = case["layout"]
    p0 = p.copy()
    got = gyration_tensor(p)
    names = ["radius_of_gyration", "asphericity", "acylindricity", "shape_anisotropy", "fractal_dimension"] if d == 3 else \
        ["radius_of_gyration", "acylindricity", "fractal_dimension"]
    R.elem = len(names)
    if not isinstance(got, (list, tuple)) or len(got) != len(names):
        R.fail(f"{d}D: expected the {len(names)} descriptors {names}", sig=dict(sig, clause="return"), obs=str(got)[:200])
        return R
    scale = max(1.0, float(ref["lam"].max()))
    gotc = np.array([complex(g) for g in got])
    gr = gotc.real
    ill = abs(ref["log10rg"]) < 1e-7
    for k, name in enumerate(names):
        e = ref["list"][k]
        if name == "fractal_dimension":
            if ill:
                continue
            ok = abs(gr[k] * ref["log10rg"] - math.log10(N)) <= 1e-9 + 1e-10 * abs(gr[k]) and abs(gotc[k].imag) <= 1e-9 * (1 + abs(gr[k]))
        elif name == "shape_anisotropy":
            ok = abs(gr[k] - e) <= 1e-9 and abs(gr[k] - ref["anisotropy_invariant"]) <= 1e-9 and abs(gotc[k].imag) <= 1e-9
        elif name == "radius_of_gyration":
            ok = abs(gr[k] - e) <= RT * e and abs(gotc[k].imag) <= 1e-9 * e
        else:
            ok = abs(gr[k] - e) <= AT * scale + RT * abs(e) and abs(gotc[k].imag) <= AT * scale
            if ok and name == "acylindricity" and d == 2:
                ok = abs(gr[k] - ref["acyl_invariant"]) <= 1e-7 * scale
        if not ok:
            R.fail(f"{name} = {got[k]!r}, documented function of the eigenvalues {ref['lam'].tolist()} gives {e!r}",
                   sig=dict(sig, clause=name), exp=ref["list"], obs=[str(g) for g in got])
    if not np.array_equal(p, p0):
        R.fail("input positions modified", sig=dict(sig, clause="input_modified"))
    R.outcome(np.where(np.isfinite(gr), gr, 0.0))
    R.nontrivial = N > 2
    return R


# ====================================================================================== scale
# A scale slice enumerates SIZES, not value assignments: one fixed value pattern per size and pattern row.
SC_N = {"quick": [64, 65, 130, 257], "thorough": [63, 64, 65, 127, 128, 129, 130, 255, 256, 257]}
SC_N_TETRA = {"quick": [64, 130, 257], "thorough": [63, 64, 65, 127, 128, 129, 130, 255, 256, 257]}
SC_N_NEM = {"quick": [64, 130], "thorough": [63, 64, 65, 127, 128, 129, 130, 257]}
SC_N_GYR = {"quick": [257, 1000], "thorough": [63, 64, 65, 127, 128, 129, 255, 256, 257, 1000, 4097]}
SC_SIG = {1: [[0.3]], 2: [[0.3, 0.25], [0.25, 0.35]], 3: [[0.3, 0.25, 0.4], [0.25, 0.35, 0.2], [0.4, 0.2, 0.3]]}
SC_S2 = [
    {"p": "s1", "d": 3, "K": 1, "cell": "orthy", "F": 1, "rd": 0.06, "nd": 64, "ppp": [1, 1, 1], "savegr": True},
    {"p": "s2", "d": 3, "K": 3, "cell": "trivar", "F": 3, "rd": 0.04, "nd": 65, "ppp": [1, 1, 1], "savegr": False},
    {"p": "s3", "d": 2, "K": 2, "cell": "tri-", "F": 2, "rd": 0.03, "nd": 129, "ppp": [1, 1], "savegr": True},
    {"p": "s4", "d": 2, "K": 3, "cell": "orthy", "F": 3, "rd": 0.05, "nd": 63, "ppp": [1, 0], "savegr": False},
    {"p": "s5", "d": 3, "K": 2, "cell": "tri+", "F": 2, "rd": 0.05, "nd": 64, "ppp": [1, 0, 1], "savegr": False},
]
SC_TETRA = [
    {"p": "t1", "cell": "orthy", "F": 1, "ppp": [1, 1, 1]},
    {"p": "t2", "cell": "trivar", "F": 3, "ppp": [1, 1, 1]},
    {"p": "t3", "cell": "tri-", "F": 2, "ppp": [1, 0, 1]},
    {"p": "t4", "cell": "orthz", "F": 3, "ppp": [0, 1, 1]},
]
SC_NEM = [
    {"p": "n1", "F": 3, "file": True, "nmax": 30},
    {"p": "n2", "F": 1, "file": False, "nmax": 30},
    {"p": "n3", "F": 2, "file": True, "nmax": 14},
]


def gen_scale(tier, seed):
    for N in SC_N[tier]:
        for pat in SC_S2:
            yield dict(pat, part="s2", N=N, seed=seed)
    for N in SC_N_TETRA[tier]:
        for pat in SC_TETRA:
            yield dict(pat, part="tetra", N=N, seed=seed)
    for N in SC_N_NEM[tier]:
        for pat in SC_NEM:
            yield dict(pat, part="nematic", N=N, seed=seed)
    for N in SC_N_GYR[tier]:
        for d in (2, 3):
            for scale, layout in ((0.5, "C"), (4.0, "F"), (4.0, "strided")):
                yield {"part": "gyration", "kind": "generic", "d": d, "N": N, "tag": 0, "scale": scale, "layout": layout, "seed": seed}


def size_class(N):
    return "<=64" if N <= 64 else ("65-128" if N <= 128 else ">128")


def scale_frames(case, d, check):
    """cells + generic frames of a scale case; `check(frames, Hs)` says whether the placement keeps every discrete decision away from its
    boundary - otherwise the next hash table is taken (None when 60 tables fail)"""
    N, F, ppp = case["N"], case["F"], case["ppp"]
    Hs = X.cells_for(N, d, case["cell"], F)
    for tag in range(60):
        frames = X.frames_for(case["seed"], N, d, Hs, f"c17sc{case['part']}{N}{case['p']}t{tag}")
        if min(X.tie_margin_allpairs(fr, H, ppp) for fr, H in zip(frames, Hs)) < 1e-9:
            continue
        if check(frames, Hs):
            return Hs, frames
    return None


def run_scale_s2(case):
    from PyMatterSim.static.pairentropy import S2

    R = Result()
    d, N, F, K = case["d"], case["N"], case["F"], case["K"]
    ppp, rd, nd = case["ppp"], case["rd"], case["nd"]
    sigm = np.array(SC_SIG[K])
    types_f = [X.species(N, K, f) for f in range(F)]
    refs = {}

    def check(frames, Hs):
        out = []
        for f, (p, H) in enumerate(zip(frames, Hs)):
            s2, g, info = X.ref_s2(p, H, types_f[f], sigm, ppp, rd, nd)
            if info["margin"] < 1e-9 or info["nneigh"].min() == 0 or not info["gmin"] > 1e-290:
                return False
            out.append((s2, g, info))
        refs["v"] = out
        return True

    inp = scale_frames(case, d, check)
    if inp is None:
        return R.screen()
    Hs, frames = inp
    ref_s2 = np.array([x[0] for x in refs["v"]])
    ref_g = np.array([x[1] for x in refs["v"]])
    maxn = int(max(x[2]["nneigh"].max() for x in refs["v"]))
    sig = {"scale": True, "pattern": case["p"], "d": d, "cell": case["cell"], "K": K, "masked": bool(0 in ppp), "size": size_class(N), "savegr": case["savegr"]}
    where = f"N={N} F={F} K={K} bins {nd} x {rd} pattern {case['p']} (up to {maxn} pairs inside r_m)"
    from PyMatterSim.reader.reader_utils import Snapshots

    snaps = Snapshots(F, [mk_snap(p.tolist(), Hs[f], types_f[f], ts=100 * f) for f, p in enumerate(frames)])
    before = [s.positions.copy() for s in snaps.snapshots]
    ofile = "c17_sc_s2.npy" if case["p"] == "s1" else ""
    out = S2(snaps, sigm, np.array(ppp), rd, nd).particle_s2(savegr=case["savegr"], outputfile=ofile)
    if ofile:
        ok = os.path.exists(ofile) and os.path.exists("particle_gr." + ofile)
        if ok:
            ok = np.array_equal(np.load(ofile), np.asarray(out[0])) and np.array_equal(np.load("particle_gr." + ofile), np.asarray(out[1]))
        if not ok:
            R.fail("outputfile / particle_gr.<outputfile> differ from the returned arrays", sub="C17.s2", sig=dict(sig, clause="file"))
        for fn in (ofile, "particle_gr." + ofile):
            if os.path.exists(fn):
                os.remove(fn)
    if case["savegr"]:
        if not (isinstance(out, tuple) and len(out) == 2):
            R.fail("savegr=True did not return (s2, particle_gr)", sub="C17.s2", sig=dict(sig, clause="return"))
            return R
        got, pgr = np.asarray(out[0]), np.asarray(out[1])
        for fn in ("particle_gr..npy", "particle_gr.npy"):
            if os.path.exists(fn):
                os.remove(fn)
        if pgr.shape != ref_g.shape:
            R.fail(f"particle_gr shape {pgr.shape} != {ref_g.shape}: {where}", sub="C17.s2", sig=dict(sig, clause="gr_shape"))
        elif not np.allclose(pgr, ref_g, rtol=RT, atol=AT):
            f, i, k = [int(v) for v in np.argwhere(~np.isclose(pgr, ref_g, rtol=RT, atol=AT))[0]]
            R.fail(f"frame {f} particle {i} bin {k}: smeared g = {pgr[f, i, k]!r}, reference {ref_g[f, i, k]!r}: {where}", sub="C17.s2", sig=dict(sig, clause="gr"))
    else:
        got = np.asarray(out)
    R.elem = N * F * (1 + (nd if case["savegr"] else 0))
    if got.shape != ref_s2.shape:
        R.fail(f"shape {got.shape} != {ref_s2.shape}: {where}", sub="C17.s2", sig=dict(sig, clause="shape"))
        return R
    if not np.allclose(got, ref_s2, rtol=RT, atol=AT):
        f, i = [int(v) for v in np.argwhere(~np.isclose(got, ref_s2, rtol=RT, atol=AT))[0]]
        R.fail(f"frame {f} particle {i} (type {types_f[f][i]}): S2 = {got[f, i]!r}, documented formula gives {ref_s2[f, i]!r}: {where}", sub="C17.s2",
               sig=dict(sig, clause="s2"))
    for s, b in zip(snaps.snapshots, before):
        if not np.array_equal(s.positions, b):
            R.fail("snapshot positions modified", sub="C17.s2", sig=dict(sig, clause="input_modified"))
    R.outcome(got)
    R.nontrivial = True
    return R


def run_scale_tetra(case):
    from PyMatterSim.static.geometric import q8_tetrahedral

    R = Result()
    N, F, ppp = case["N"], case["F"], case["ppp"]
    refs = {}

    def check(frames, Hs):
        out = []
        for p, H in zip(frames, Hs):
            q, four, margin = X.ref_tetra(p, H, ppp)
            if margin < 1e-9:
                return False
            out.append((q, four))
        refs["v"] = out
        return True

    inp = scale_frames(case, 3, check)
    if inp is None:
        return R.screen()
    Hs, frames = inp
    ref = np.array([x[0] for x in refs["v"]])
    sig = {"scale": True, "pattern": case["p"], "cell": case["cell"], "masked": bool(0 in ppp), "size": size_class(N), "multi_frame": F > 1}
    snaps = mk_snaps([p.tolist() for p in frames], np.array(Hs), [1] * N)
    before = [s.positions.copy() for s in snaps.snapshots]
    ofile = "c17_sc_q8.npy" if case["p"] == "t1" else ""
    got = np.asarray(q8_tetrahedral(snaps, ppp=np.array(ppp), outputfile=ofile))
    if ofile:
        if not (os.path.exists(ofile) and np.array_equal(np.load(ofile), got)):
            R.fail("outputfile differs from the returned array", sub="C17.tetra.formula", sig=dict(sig, clause="file"))
        if os.path.exists(ofile):
            os.remove(ofile)
    R.elem = N * F
    if got.shape != ref.shape:
        R.fail(f"shape {got.shape} != {ref.shape}", sub="C17.tetra.formula", sig=dict(sig, clause="shape"))
        return R
    if not np.allclose(got, ref, rtol=RT, atol=AT):
        f, i = [int(v) for v in np.argwhere(~np.isclose(got, ref, rtol=RT, atol=AT))[0]]
        R.fail(f"N={N} pattern {case['p']} frame {f} particle {i} (four nearest {refs['v'][f][1][i].tolist()}): q = {got[f, i]!r}, "
               f"1 - 3/32 sum (cos psi + 1/3)^2 = {ref[f, i]!r}", sub="C17.tetra.formula", sig=dict(sig, clause="formula"))
    for s, b in zip(snaps.snapshots, before):
        if not np.array_equal(s.positions, b):
            R.fail("snapshot positions modified", sub="C17.tetra.formula", sig=dict(sig, clause="input_modified"))
    R.outcome(got)
    R.nontrivial = True
    return R


def scale_topo(N, f):
    """ragged lists (cn 1..14, the maximum attained by the first or the last particle only) in which every 11th particle has NO neighbour"""
    nl = X.ragged_lists(N, f, "first" if f % 2 == 0 else "last")
    return [[] if (i + f) % 11 == 3 and 0 < i < N - 1 else x for i, x in enumerate(nl)]


def run_scale_nematic(case):
    from PyMatterSim.static.nematic import NematicOrder

    R = Result()
    N, F = case["N"], case["F"]
    ang = [np.array(A.generic_points(case["seed"], N, 1, tag=f"c17nem{N}{case['p']}f{f}_"))[:, 0] * math.pi for f in range(F)]
    us = [np.column_stack((np.cos(a), np.sin(a))) for a in ang]
    tf = [scale_topo(N, f) for f in range(F)] if case["file"] else None
    sig = {"scale": True, "pattern": case["p"], "file": bool(case["file"]), "size": size_class(N), "multi_frame": F > 1}
    nf = ""
    if tf is not None:
        nf = "nl_c17s.dat"
        write_neighbor_file(nf, tf)
    refs = [X.ref_nematic(us[f], None if tf is None else tf[f]) for f in range(F)]
    Qref, Sref, Lref = (np.array([r[k] for r in refs]) for k in range(3))
    snaps = mk_snaps([u.tolist() for u in us], np.eye(2), [1] * N)
    before = [s.positions.copy() for s in snaps.snapshots]
    res = {}
    for ev in (False, True):
        no = NematicOrder(snaps)
        out = np.asarray(no.tensor(ndim=2, neighborfile=nf, Nmax=case["nmax"], eigvals=ev, outputfile="nms"))
        res[ev] = out
        Q = np.asarray(no.QIJ)
        s2 = dict(sig, eigvals=ev)
        if Q.shape != Qref.shape or not np.allclose(Q, Qref, rtol=RT, atol=1e-12):
            where = ""
            if Q.shape == Qref.shape:
                f, i = [int(v) for v in np.argwhere(~np.isclose(Q, Qref, rtol=RT, atol=1e-12))[0][:2]]
                where = f" (N={N}, frame {f}, particle {i}" + (f", cn {len(tf[f][i])})" if tf is not None else ")")
            R.fail("Q tensor differs from (2 u u^T - I)/2" + (" averaged over self + listed neighbours" if tf is not None else "") + where,
                   sig=dict(s2, clause="tensor"), sub="C17.nematic.tensor")
        want = 2 * Lref if ev else Sref
        if out.shape != want.shape:
            R.fail(f"shape {out.shape} != {want.shape}", sig=dict(s2, clause="shape"), sub="C17.nematic.scalar")
            return R
        if not np.allclose(out, want, rtol=RT, atol=1e-10):
            f, i = [int(v) for v in np.argwhere(~np.isclose(out, want, rtol=RT, atol=1e-10))[0]]
            R.fail(f"N={N} frame {f} particle {i}: " + ("2 lambda_max" if ev else "sqrt(2 tr Q^2)") + f" = {out[f, i]!r}, reference {want[f, i]!r}",
                   sig=dict(s2, clause="scalar"), sub="C17.nematic.scalar")
    if res[False].shape == res[True].shape and not np.allclose(res[False], res[True], rtol=RT, atol=1e-9):
        R.fail("sqrt(2 tr Q^2) != 2 lambda_max", sig=dict(sig, clause="trace_eq_eig"), sub="C17.nematic.scalar")
    for s, b in zip(snaps.snapshots, before):
        if not np.array_equal(s.positions, b):
            R.fail("orientation snapshot modified", sig=dict(sig, clause="input_modified"), sub="C17.nematic.tensor")
    for fn in ("nms.QIJ_raw.npy", "nms.QIJ_cg.npy", "nms.eigval.npy", "nms.Qtrace.npy", "nl_c17s.dat"):
        if os.path.exists(fn):
            os.remove(fn)
    R.elem = 2 * N * F
    R.outcome([res[False], res[True]])
    R.nontrivial = True
    return R


def run_scale(case):
    part = case["part"]
    if part == "s2":
        return run_scale_s2(case)
    if part == "tetra":
        return run_scale_tetra(case)
    if part == "nematic":
        return run_scale_nematic(case)
    return run_gyration(case)


def subs(tier, seed):
    return [
        Sub("C17.s2", gen_s2, run_s2,
            rule="d in {2,3} x cell {orth, tri} x N in {3,4,5} x {cluster, gas} generic placements (" + ("2" if tier == "quick" else "6")
                 + " per class, kept iff every particle has a pair inside r_m and no distance within 1e-6 of r_m) x 1-2 frames x bins "
                 "(rdelta, ndelta) in {0.05,0.1}x{20,40} x all masks x width matrices K=1, two K=2 x type maps (all 6 surjections for N=3); "
                 "S2 (and the smeared g when savegr) vs literal transcription; non-trivial = N >= 4 or some pair outside r_m",
            bounds={"N": [3, 5], "bins": S2_BINS}),
        Sub("C17.tetra.perfect", gen_perfect, run_perfect,
            rule="centre + regular tetrahedron: all 24 vertex orders x 3 scales x 3 orientations x centre index x {box centre, straddling the "
                 "periodic corner} x 0-2 farther particles on the admissible sites of a jittered 3^3 lattice ("
                 + ("0-1 far: full product with 3 centre indices; 2 far: all pairs of sites x orders x scales x orientations; far particles appended or prepended" if tier == "thorough" else "0-1 far: full product; all pairs of sites for one scale/orientation (24 orders at the box centre, 4 at the corner)")
                 + ") + all masks; q(centre) == 1 to 1e-12 and equal to the value without the far particles",
            bounds={"orders": 24, "scales": 3, "rotations": 3, "far": "0..2 of 26/27 sites"}),
        Sub("C17.tetra.formula", gen_formula, run_formula,
            rule="generic N = 5..8 (" + ("4" if tier == "quick" else "12") + " placements each) x {orth, tri} x all masks x 1-2 frames; all 5,6,7-subsets "
                 "of a jittered 2^3 lattice; every particle vs 1 - 3/32 sum_{j<k}(cos psi_jk + 1/3)^2 over its four nearest",
            bounds={"N": [5, 8]}),
        Sub("C17.tetra.four_nearest", gen_four, run_four,
            rule="for every configuration with N >= 6 and every particle j: delete j, every particle that did not have j among its four nearest "
                 "keeps its value to 1e-12 (inner search: N+1 states per configuration)",
            bounds={"N": [6, 8]}),
        Sub("C17.nematic", gen_nematic, run_nematic,
            rule="N=3: all 8^3 director assignments (k pi/8) x {no file, all 64 neighbour topologies} x both eigvals settings"
                 + (" (k2 runs over the eight frames of one call)" if tier == "quick" else " (one call each); N=4: all 4096 topologies x 8 assignments, all 8^4 assignments x 3 topologies")
                 + "; frame sequences with a different topology per frame; sub-checks nematic.tensor (QIJ) and nematic.scalar "
                 "(sqrt(2 tr Q^2), 2 lambda_max, their equality)",
            bounds={"directors": 8, "N": [3, 4 if tier == "thorough" else 3]}),
        Sub("C17.gyration", gen_gyration, run_gyration,
            rule="all N-subsets (N=2..4) of the 3^2 and 3^3 integer lattices x scales {1, 0.5, 3}; all N-subsets of jittered 3^d lattices; "
                 "generic clouds N=5..8; every descriptor vs the documented function of eigvalsh(S) plus eigen-free invariants "
                 "(Rg^2 = tr S, kappa^2 = 3/2 tr S^2/(tr S)^2 - 1/2); non-trivial = N > 2",
            bounds={"N": [2, 8]}),
        Sub("C17.scale", gen_scale, run_scale,
            rule="SIZE slice (enumerates sizes, ONE fixed value pattern per size and pattern row).  S2: N in " + str(SC_N[tier]) + " x 5 rows {2D, 3D} x K in {1,2,3} (species-by-id "
                 "rotated per frame, same composition, one species with a single member) x cells {orthogonal with shortest edge y, triclinic of either sign, tilt changing per frame} x "
                 "bins 63/64/65/129 x masks x F in {1,2,3}, every S2 value (and every smeared g entry when savegr).  tetrahedral: N in " + str(SC_N_TETRA[tier]) + " x 4 rows {orthogonal "
                 "with shortest edge y / z, triclinic, tilt changing per frame} x masks x F in {1,2,3}.  nematic: N in " + str(SC_N_NEM[tier]) + " generic directors x {no file, ragged lists "
                 "cn 0..14 changing per frame (maximum attained by the first / last particle only), Nmax 30 / 14} x both eigvals settings.  gyration: N in " + str(SC_N_GYR[tier])
                 + " points x {2D, 3D} x {C-ordered, Fortran-ordered, non-contiguous view}.  Output files of S2 / q_tetrahedral on one row each.  All compared entry by entry with vectorised references (mc/ref/c17x.py) resp. the loop reference",
            bounds={"N_s2": SC_N[tier], "N_tetra": SC_N_TETRA[tier], "N_nematic": SC_N_NEM[tier], "N_gyration": SC_N_GYR[tier]}),
    ]
