"""C17 - local order parameters: S2 pair entropy, q_tetrahedral, nematic tensor, gyration descriptors (E1).

Round 4 (docs/STRENGTHEN_TASK2.md; helpers in mc/ref/c17y.py):
  C17.corr        S2.spatial_corr / time_corr, NematicOrder.spatial_corr / time_corr vs the C13 / C14 reference models (coverage gap)
  C17.firstframe  L2 first frame of another class (orthogonal then tilted cells, dilute then clustered, no neighbours then ragged lists)
  C17.unwrapped   L7 particles displaced by whole cell vectors
  C17.forms       L4 exact axis directors, particle at the origin / on a face; L5 storage types and orders; L1 Nmax / snapshots_position where irrelevant
  C17.sequence    L6 call words (objects queried repeatedly, in-place edits, two objects, same output prefix / file names) in forked children
  C17.dilation    L9 absolute scale (2^-33, 2^27)
"""
import itertools
import math
import os

import numpy as np

from mc import alphabets as A
from mc.harness import Result, Sub
from mc.ref.base import frac_tie_margin, mk_snap, mk_snaps, write_neighbor_file
from mc.ref import cgorder as G
from mc.ref import c17x as X
from mc.ref import c17y as Y
from mc.ref import c03x as X3

ASSUMPTIONS = [
    "S2: the sum over j runs over the particles with minimum-image r_ij < r_m, r_m = centre of the last bin (bins r_k = (k+1/2) rdelta); "
    "width matrices are symmetric; every particle has at least one pair inside r_m so the smeared g stays > 0 (g ln g at g = 0 is "
    "outside the documented formula); density = N / prod(boxlength); triclinic cells use the C02 half-cell minimum-image convention",
    "tetrahedral: N >= 5, distinct particles; configurations whose 4th and 5th nearest distances differ by < 1e-9 are screened out; "
    "'perfect' = four vertices of a regular tetrahedron at equal distance, every other particle at least 1.3x farther",
    "nematic: directors are unit vectors (cos k pi/8, sin k pi/8) stored as snapshot positions (LAMMPSVECTOR), 2D only (the code asserts "
    "ndim == 2); the Q tensor is observed as NematicOrder.QIJ",
    "gyration: descriptors compared in value; a complex-typed return with zero imaginary part is accepted (numpy >= 2.x linalg.eig); "
    "the fractal dimension log N / log Rg is not compared when |log10 Rg| < 1e-7 (undefined at Rg = 1)",
    "float tolerance rtol 1e-9 / atol 1e-11 (1e-12 for the perfect-tetrahedron clause)",
    "round 4 - C17.corr: property C17 does not mention the correlation methods; what is compared is what the class docstrings say: S2.spatial_corr = frame mean of "
    "conditional_gr (C13 model: weighted pair histogram, columns r, gr, gA, gA_norm; bins of width rdelta up to min(boxlength)/2) of the per-particle S2 values, each frame "
    "divided by ITS OWN mean when mean_norm; NematicOrder.spatial_corr = the same with the trace of the tensor product as pair weight (columns r, gr, gA); time_corr = "
    "time_correlation (C14 model: all origins iff the timestep differences are all equal, origin 0 otherwise) of the S2 values / Q tensors, normalised to C(0) = 1; the reference "
    "S2 values and Q tensors come from the reference models, not from the library; gA_norm is compared only when the relative variance of S2 exceeds 1e-6; cases with a pair "
    "within 1e-9 of a bin edge are screened; dt = 0 is a legal time step",
    "round 4 - directors are UNIT vectors (property: 'all unit-vector fields'): a zero director is outside the domain; exact axis directors (+-1,0),(0,+-1) are inside and may be "
    "stored as float32 or as integers; float32 storage only has to give float32 accuracy (2e-6); Nmax is irrelevant without a neighbour file and snapshots_position is "
    "documented as 'only required for spatial correlation': tensor() must not depend on either; S2 / q_tetrahedral: ppp is an ndarray (the code reads ppp.shape) of any integer dtype",
    "round 4 - L7: positions that differ by whole cell vectors along periodic axes describe the same configuration (unfolded xu yu zu dump columns)",
    "round 4 - C17.sequence: every call returns bit for bit what the same call returns when made first in a fresh process, whatever ran before, whatever objects are alive and "
    "whatever files earlier calls left under the same names; an S2 object whose snapshots' position arrays were edited in place answers for the edited positions",
    "round 4 - L9 (C17.dilation): S2 is scale-free when positions, cell, rdelta and the widths are multiplied by a common factor, q_tetrahedral when positions and cell are; "
    "gyration descriptors scale by the documented powers of the length unit; comparisons at 2^-33 / 2^27 are relative to the undilated library result",
    "scale slice: S2, q_tetrahedral and the nematic tensor of 63..257 particles are compared with vectorised numpy references (mc/ref/c17x.py, same formulas as "
    "mc/ref/cgorder.py on full pair tables); placements with a periodic fractional pair component within 1e-9 of a half-cell tie, a pair distance within 1e-9 of r_m, "
    "or a 4th/5th-nearest gap below 1e-9 are replaced by the next hash table; S2 and q_tetrahedral assert a constant boxlength, so only the tilt factors change per frame; "
    "gyration_tensor must give the same descriptors for C-ordered, Fortran-ordered and non-contiguous position arrays (npt.NDArray is all the documentation asks for); "
    "neighbour lists of the nematic scale rows contain particles WITHOUT neighbours (cn = 0, as in the small-scope alphabet: Q_i is then the particle's own tensor)",
]
RT, AT = 1e-9, 1e-11


# ========================================================================================= S2
S2_L = {2: [2.0, 2.4], 3: [2.0, 2.4, 2.2]}
S2_TILT = {2: [0.6], 3: [0.6, -0.4, 0.5]}
S2_SIG = {"k1": [[0.4]], "k2a": [[0.4, 0.5], [0.5, 0.6]], "k2b": [[0.3, 0.2], [0.2, 0.4]]}
S2_BINS = [(0.05, 20), (0.1, 20), (0.05, 40), (0.1, 40)]


def s2_cell(d, cell):
    return A.hmat_tri(S2_L[d], S2_TILT[d] if cell == "tri" else [0.0] * (1 if d == 2 else 3))


def s2_frames(seed, d, N, spread, tag, F, H):
    """generic fractional placements, one hash table per frame; `spread` and `H` may be one value or one per frame"""
    out = []
    Hf = list(H) if np.ndim(H) == 3 else [H] * F
    sp = list(spread) if np.ndim(spread) == 1 else [spread] * F
    for f in range(F):
        fr = np.array(A.generic_points(seed, N, d, tag=f"s2_{d}{N}{tag}f{f}_"))
        out.append(((0.5 + sp[f] * (fr - 0.5)) @ Hf[f]))
    return out


def s2_cells(case):
    """the cell of every frame of an S2 case: `cell` (one class for all frames) or `cellseq` (a class per frame, mc/ref/c17y.CELLSEQ)"""
    F = case["F"]
    if case.get("cellseq"):
        return Y.cells(S2_L[case["d"]], case["cellseq"], F)
    return [s2_cell(case["d"], case["cell"])] * F


def s2_types(N, K):
    if K == 1:
        return [[1] * N]
    if N == 3:
        return list(A.surjections(3, 2))
    return [[1 + (i % 2) for i in range(N)], [2] + [1] * (N - 1)]


def gen_s2(tier, seed):
    ntag = 2 if tier == "quick" else 6
    for d in (2, 3):
        for cell in ("orth", "tri"):
            H = s2_cell(d, cell)
            for N in (3, 4, 5):
                for spread in (0.45, 1.0):
                    for tag in range(ntag):
                        for F in (1, 2):
                            if F == 2 and (tag > 0 or (tier == "quick" and cell == "tri")):
                                continue
                            frames = s2_frames(seed, d, N, spread, tag, F, H)
                            for (rd, nd) in S2_BINS:
                                rm = (nd - 1) * rd + rd / 2
                                for m in A.masks(d):
                                    if not all(G.s2_admissible(p, H, m, rm) for p in frames):
                                        continue
                                    for sk in ("k1", "k2a", "k2b"):
                                        K = 1 if sk == "k1" else 2
                                        for ti, types in enumerate(s2_types(N, K)):
                                            if tier == "quick" and sk == "k2b" and ti > 0:
                                                continue
                                            savegr = bool((tag + ti + nd // 20) % 2)
                                            yield {"d": d, "cell": cell, "N": N, "spread": spread, "tag": tag, "F": F, "rd": rd, "nd": nd,
                                                   "ppp": m, "sig": sk, "types": types, "savegr": savegr, "seed": seed}
                                            if F == 2 and K == 2 and list(types) != list(types)[::-1]:
                                                # species change between frames (swap moves): frame 1 carries the reversed labels
                                                yield {"d": d, "cell": cell, "N": N, "spread": spread, "tag": tag, "F": F, "rd": rd, "nd": nd,
                                                       "ppp": m, "sig": sk, "types": types, "savegr": savegr, "seed": seed, "swap": True}


def run_s2(case):
    from PyMatterSim.static.pairentropy import S2

    R = Result()
    d, N = case["d"], case["N"]
    Hs = s2_cells(case)
    frames = s2_frames(case["seed"], d, N, case["spread"], case["tag"], case["F"], np.array(Hs))
    ppp = np.array(case["ppp"])
    sigm = np.array(S2_SIG[case["sig"]])
    types = case["types"]
    rd, nd = case["rd"], case["nd"]
    sig = {"d": d, "cell": case.get("cellseq") or case["cell"], "K": len(set(types)), "masked": bool((ppp == 0).any()), "multi_frame": case["F"] > 1,
           "savegr": case["savegr"]}
    if np.ndim(case["spread"]) == 1:
        sig["density_class_changes"] = True
    refs, grs = [], []
    partial = False
    types_f = [list(types) if (f % 2 == 0 or not case.get("swap")) else list(types)[::-1] for f in range(len(frames))]
    sig["types_change"] = bool(case.get("swap"))
    for f_, p in enumerate(frames):
        types = types_f[f_]
        H = Hs[f_]
        tm = min(frac_tie_margin(p - p[i], H, ppp) for i in range(N))
        s2, info = G.ref_s2(p, H, types, sigm, ppp, rd, nd)
        if tm < 1e-9 or info["margin"] < 1e-9 or min(info["nneigh"]) == 0 or not (info["gmin"] > 1e-290):
            return R.screen()
        partial = partial or any(c < N - 1 for c in info["nneigh"])
        refs.append(s2)
        if case["savegr"]:
            grs.append(G.ref_s2_gr(p, H, types, sigm, ppp, rd, nd))
    refs = np.array(refs)
    from PyMatterSim.reader.reader_utils import Snapshots
    from mc.ref.base import mk_snap

    lib_frames = frames
    if case.get("unwrap"):
        # L7: particles displaced by whole cell vectors along the periodic axes (frame 0 of a multi-frame input stays folded); the reference is the folded input
        lib_frames = [p if (f_ == 0 and len(frames) > 1) else Y.unwrap(p, Hs[f_], ppp, phase=f_) for f_, p in enumerate(frames)]
        sig["unwrapped"] = True
    snaps = Snapshots(len(frames), [mk_snap(p.tolist(), Hs[f_], types_f[f_], ts=100 * f_) for f_, p in enumerate(lib_frames)])
    before = [s.positions.copy() for s in snaps.snapshots]
    out = S2(snaps, sigm, ppp, rd, nd).particle_s2(savegr=case["savegr"])
    if case["savegr"]:
        if not (isinstance(out, tuple) and len(out) == 2):
            R.fail("savegr=True did not return (s2, particle_gr)", sig=dict(sig, clause="return"))
            return R
        got, pgr = np.asarray(out[0]), np.asarray(out[1])
        for fn in ("particle_gr..npy", "particle_gr.npy"):
            if os.path.exists(fn):
                os.remove(fn)
        grs = np.array(grs)
        if pgr.shape != grs.shape:
            R.fail(f"particle_gr shape {pgr.shape} != {grs.shape}", sig=dict(sig, clause="gr_shape"))
        elif not np.allclose(pgr, grs, rtol=RT, atol=AT):
            f, i, k = [int(v) for v in np.argwhere(~np.isclose(pgr, grs, rtol=RT, atol=AT))[0]]
            R.fail(f"frame {f} particle {i} bin {k}: smeared g = {pgr[f, i, k]!r}, reference {grs[f, i, k]!r}",
                   sig=dict(sig, clause="gr"), exp=grs[f, i], obs=pgr[f, i])
    else:
        got = np.asarray(out)
    R.elem = N * len(frames)
    if got.shape != refs.shape:
        R.fail(f"shape {got.shape} != {refs.shape}", sig=dict(sig, clause="shape"))
        return R
    if not np.allclose(got, refs, rtol=RT, atol=AT):
        f, i = [int(v) for v in np.argwhere(~np.isclose(got, refs, rtol=RT, atol=AT))[0]]
        R.fail(f"frame {f} particle {i} (type {types[i]}): S2 = {got[f, i]!r}, documented formula gives {refs[f, i]!r}",
               sig=dict(sig, clause="s2"), exp=refs[f], obs=got[f])
    for s, b in zip(snaps.snapshots, before):
        if not np.array_equal(s.positions, b):
            R.fail("snapshot positions modified", sig=dict(sig, clause="input_modified"))
    R.outcome(got)
    R.nontrivial = partial or N >= 4
    return R


# ================================================================================ tetrahedral
T_L = [6.0, 7.0, 8.0]
T_H = np.diag(T_L)
T_TILT = [1.0, -1.5, 2.0]
SCALES = [0.5, 0.8, 1.1]
ROTS = ["id", "z30", "gen"]
ORDERS = [list(p) for p in itertools.permutations(range(4))]
LOCS = {"centre": [3.013, 3.479, 4.017], "corner": [0.05, -0.1, 0.2]}


_FAR = {}


def far_sites(seed, loc):
    if (seed, loc) not in _FAR:
        _FAR[(seed, loc)] = _far_sites(seed, loc)
    return _FAR[(seed, loc)]


def _far_sites(seed, loc):
    c = np.array(LOCS[loc])
    pts = np.array(A.jl_points(seed, 3, 3, T_L, tag="tfar"))
    keep = []
    for p in pts:
        rv = G.minimg((p - c)[None, :], T_H, [1, 1, 1])[0]
        if math.sqrt(float(rv @ rv)) > 1.3 * max(SCALES):
            keep.append(p.tolist())
    return keep


def gen_perfect(tier, seed):
    nsites = {loc: len(far_sites(seed, loc)) for loc in LOCS}
    full = tier == "thorough"
    for loc in ("centre", "corner"):
        n = nsites[loc]
        fars = [[]] + [[a] for a in range(n)]
        pairs = [list(p) for p in itertools.combinations(range(n), 2)]
        for scale in SCALES:
            for rot in ROTS:
                for cidx in ((0, 2, 4) if full else (0, 2)):
                    for oi in range(24):
                        default = (scale == 0.8 and rot == "gen" and cidx == 0)
                        if full:
                            farlist = fars + (pairs if cidx == 0 else [])
                        else:
                            farlist = fars if cidx == 0 else fars[:1]
                            if default and (loc == "centre" or oi in (0, 7, 13, 23)):
                                farlist = farlist + pairs
                        for far in farlist:
                            for ff in ((False, True) if (full and far) else (False,)):
                                yield {"loc": loc, "scale": scale, "rot": rot, "cidx": cidx, "order": oi, "far": far, "far_first": ff,
                                       "ppp": [1, 1, 1], "seed": seed}
    # non-periodic axes (tetrahedron inside the box): all masks, <= 1 far particle
    n = nsites["centre"]
    for m in A.masks(3)[1:]:
        for scale in SCALES:
            for oi in (range(24) if full else (0, 7, 13, 23)):
                for far in [[]] + [[a] for a in range(n)]:
                    yield {"loc": "centre", "scale": scale, "rot": "gen", "cidx": 1, "order": oi, "far": far, "far_first": False, "ppp": m, "seed": seed}


def perfect_config(case, with_far=True):
    c = np.array(LOCS[case["loc"]])
    v = np.array(G.tetrahedron(case["scale"], case["rot"], ORDERS[case["order"]])) + c
    core = [p.tolist() for p in v]
    core.insert(case["cidx"], c.tolist())
    ci = case["cidx"]
    pos = core
    if with_far and case["far"]:
        sites = far_sites(case["seed"], case["loc"])
        extra = [sites[a] for a in case["far"]]
        if case["far_first"]:
            pos = extra + core
            ci += len(extra)
        else:
            pos = core + extra
    pos = np.array(pos)
    if case["loc"] == "corner":
        pos = pos - np.floor(pos / np.array(T_L)) * np.array(T_L)  # wrapped into the box
    return pos, ci


def run_perfect(case):
    from PyMatterSim.static.geometric import q8_tetrahedral

    R = Result()
    ppp = np.array(case["ppp"])
    sig = {"loc": case["loc"], "nfar": len(case["far"]), "masked": bool((ppp == 0).any())}
    pos, ci = perfect_config(case, True)
    snaps = mk_snaps([pos.tolist()], T_H, [1] * len(pos))
    q = np.asarray(q8_tetrahedral(snaps, ppp=ppp))
    if q.shape != (1, len(pos)):
        R.fail(f"shape {q.shape}", sig=dict(sig, clause="shape"), sub="C17.tetra.perfect")
        return R
    qc = float(q[0, ci])
    if not abs(qc - 1.0) <= 1e-12:
        R.fail(f"perfect tetrahedral coordination (scale {case['scale']}, rotation {case['rot']}, vertex order {ORDERS[case['order']]}, "
               f"{len(case['far'])} farther particles): q = {qc!r}, expected 1", sig=dict(sig, clause="perfect"), exp=1.0, obs=qc, sub="C17.tetra.perfect")
    if case["far"]:
        pos0, ci0 = perfect_config(case, False)
        q0 = float(np.asarray(q8_tetrahedral(mk_snaps([pos0.tolist()], T_H, [1] * 5), ppp=ppp))[0, ci0])
        if not abs(q0 - qc) <= 1e-12:
            R.fail(f"q of the centre changes from {q0!r} to {qc!r} when {len(case['far'])} farther particles are added",
                   sig=dict(sig, clause="far_independence"), exp=q0, obs=qc, sub="C17.tetra.four_nearest")
    R.outcome(np.round(q[0], 6))
    R.nontrivial = True
    return R


F_L = [5.0, 6.0, 7.0]


def tetra_cell(cell):
    return A.hmat_tri(F_L, T_TILT if cell == "tri" else [0, 0, 0])


def gen_formula(tier, seed):
    ntag = 4 if tier == "quick" else 12
    for cell in ("orth", "tri"):
        for N in (5, 6, 7, 8):
            for tag in range(ntag):
                for m in A.masks(3):
                    for F in (1, 2):
                        if F == 2 and tag > 1:
                            continue
                        yield {"kind": "generic", "cell": cell, "N": N, "tag": tag, "ppp": m, "F": F, "seed": seed}
    for N in (5, 6, 7):
        for sub in itertools.combinations(range(8), N):
            for m in (A.masks(3) if tier == "thorough" else ([1, 1, 1], [1, 0, 1], [0, 0, 0])):
                yield {"kind": "jl2", "cell": "orth", "N": N, "subset": list(sub), "ppp": m, "F": 1, "seed": seed}


def formula_frames(case):
    """-> (cell of frame 0, frames, cells per frame); `cellseq` gives a cell class per frame (same edge lengths, mc/ref/c17y.CELLSEQ)"""
    H = tetra_cell(case["cell"])
    if case["kind"] == "generic":
        Hs = Y.cells(F_L, case["cellseq"], case["F"], T_TILT) if case.get("cellseq") else [H] * case["F"]
        return Hs[0], [np.array(A.generic_points(case["seed"], case["N"], 3, tag=f"tq{case['N']}_{case['tag']}f{f}_")) @ Hs[f] for f in range(case["F"])], Hs
    pts = np.array(A.jl_points(case["seed"], 2, 3, F_L, tag="tq2"))
    return H, [pts[case["subset"]]], [H]


def run_formula(case):
    from PyMatterSim.static.geometric import q8_tetrahedral

    R = Result()
    H, frames, Hs = formula_frames(case)
    ppp = np.array(case["ppp"])
    N = case["N"]
    sig = {"kind": case["kind"], "cell": case.get("cellseq") or case["cell"], "N5": N == 5, "masked": bool((ppp == 0).any()), "multi_frame": case["F"] > 1}
    refs = []
    for p, H in zip(frames, Hs):
        if min(frac_tie_margin(p - p[i], H, ppp) for i in range(N)) < 1e-9:
            return R.screen()
        q, near, margin = G.ref_tetra(p, H, ppp)
        if margin < 1e-9:
            return R.screen()
        refs.append(q)
    refs = np.array(refs)
    lib_frames = frames
    if case.get("unwrap"):
        lib_frames = [p if (f_ == 0 and len(frames) > 1) else Y.unwrap(p, Hs[f_], ppp, phase=f_) for f_, p in enumerate(frames)]
        sig["unwrapped"] = True
    snaps = mk_snaps([p.tolist() for p in lib_frames], np.array(Hs), [1] * N)
    before = [s.positions.copy() for s in snaps.snapshots]
    got = np.asarray(q8_tetrahedral(snaps, ppp=ppp))
    R.elem = N * len(frames)
    if got.shape != refs.shape:
        R.fail(f"shape {got.shape} != {refs.shape}", sig=dict(sig, clause="shape"))
        return R
    if not np.allclose(got, refs, rtol=RT, atol=AT):
        f, i = [int(v) for v in np.argwhere(~np.isclose(got, refs, rtol=RT, atol=AT))[0]]
        R.fail(f"frame {f} particle {i}: q = {got[f, i]!r}, 1 - 3/32 sum (cos psi + 1/3)^2 over the four nearest = {refs[f, i]!r}",
               sig=dict(sig, clause="formula"), exp=refs[f], obs=got[f])
    for s, b in zip(snaps.snapshots, before):
        if not np.array_equal(s.positions, b):
            R.fail("snapshot positions modified", sig=dict(sig, clause="input_modified"))
    R.outcome(got)
    R.nontrivial = True
    return R


def gen_four(tier, seed):
    for case in gen_formula(tier, seed):
        if case["N"] >= 6 and case["F"] == 1:
            if tier == "quick" and case["kind"] == "generic" and case["tag"] > 1:
                continue
            yield case


def run_four(case):
    """Removing a particle that is not among the four nearest of i must not change q_i."""
    from PyMatterSim.static.geometric import q8_tetrahedral

    R = Result()
    H, frames, _ = formula_frames(case)
    p = frames[0]
    ppp = np.array(case["ppp"])
    N = case["N"]
    sig = {"kind": case["kind"], "cell": case["cell"], "masked": bool((ppp == 0).any())}
    if min(frac_tie_margin(p - p[i], H, ppp) for i in range(N)) < 1e-9:
        return R.screen()
    _, near, margin = G.ref_tetra(p, H, ppp)
    if margin < 1e-9:
        return R.screen()
    full = np.asarray(q8_tetrahedral(mk_snaps([p.tolist()], H, [1] * N), ppp=ppp))[0]
    ncomp = 0
    R.states, R.transitions = 1, 0
    for j in range(N):
        keep = [i for i in range(N) if i != j]
        sub = np.asarray(q8_tetrahedral(mk_snaps([p[keep].tolist()], H, [1] * (N - 1)), ppp=ppp))[0]
        R.transitions += 1
        for a, i in enumerate(keep):
            if j in near[i]:
                continue
            ncomp += 1
            if not abs(sub[a] - full[i]) <= 1e-12:
                R.fail(f"q of particle {i} changes from {full[i]!r} to {sub[a]!r} when particle {j} (not among its four nearest {near[i]}) is removed",
                       sig=dict(sig, clause="four_nearest"), exp=full[i], obs=sub[a])
                break
    R.states = 1 + N
    R.elem = ncomp
    R.outcome(full)
    R.nontrivial = ncomp > 0
    return R


# ==================================================================================== nematic
def director(k):
    return [math.cos(k * math.pi / 8), math.sin(k * math.pi / 8)]


_T3 = None


def topos3():
    global _T3
    if _T3 is None:
        _T3 = list(G.all_topologies(3, allow_empty=True))
    return _T3


_T4 = None


def topos4():
    global _T4
    if _T4 is None:
        _T4 = list(G.all_topologies(4, allow_empty=True))
    return _T4


def gen_nematic(tier, seed):
    nt = len(topos3())
    for t in [-1] + list(range(nt)):  # -1: no neighbour file
        for k0 in range(8):
            for k1 in range(8):
                if tier == "quick":
                    # the eight k2 values are the eight frames of one call (the neighbour file repeats the topology per frame)
                    yield {"N": 3, "topo": t, "ks": [[k0, k1, k2] for k2 in range(8)], "seed": seed}
                else:
                    for k2 in range(8):
                        yield {"N": 3, "topo": t, "ks": [[k0, k1, k2]], "seed": seed}
    if tier == "thorough":
        # N = 4: every topology with eight director assignments (as frames); every director assignment with three topologies
        n4 = len(topos4())
        for t in range(n4):
            ks = [[(t + f) % 8, (3 * t + 2 * f + 1) % 8, (5 * t + 3 * f + 2) % 8, (7 * t + 5 * f + 3) % 8] for f in range(8)]
            yield {"N": 4, "topo": t, "ks": ks, "seed": seed}
        for k0, k1, k2 in itertools.product(range(8), repeat=3):
            for t in (-1, n4 - 1, 1234):
                yield {"N": 4, "topo": t, "ks": [[k0, k1, k2, k3] for k3 in range(8)], "seed": seed}
    # frame sequences: a different topology in every frame of the neighbour file
    for t in range(0, nt, 1 if tier == "thorough" else 4):
        yield {"N": 3, "topo": t, "ks": [[(t + f) % 8, (2 * t + 3 * f + 1) % 8, (t + 5 * f + 2) % 8] for f in range(3)], "vary": True, "seed": seed}


def run_nematic(case):
    from PyMatterSim.static.nematic import NematicOrder

    R = Result()
    N = case["N"]
    T = topos3() if N == 3 else topos4()
    ks = case.get("ks")
    if case.get("us") is not None:  # explicit director vectors (exact axis directors, C17.firstframe / C17.forms)
        us = [np.array(u, float) for u in case["us"]]
        ks = [[tuple(v) for v in u] for u in case["us"]]
    else:
        us = [np.array([director(k) for k in row]) for row in ks]
    F = len(us)
    if case.get("tf") is not None:  # explicit topology per frame
        tf = case["tf"]
    elif case["topo"] < 0:
        tf = None
    elif case.get("vary"):
        tf = [T[(case["topo"] + 7 * f) % len(T)] for f in range(F)]
    else:
        tf = [T[case["topo"]]] * F
    sig = {"N": N, "file": tf is not None, "multi_frame": F > 1}
    form = case.get("form")
    if form:
        sig["form"] = form
    if case.get("tf") is not None:
        sig["cn_class_changes"] = True
    nf = ""
    if tf is not None:
        nf = "nl_c17.dat"
        write_neighbor_file(nf, tf)
    snaps = mk_snaps([u.tolist() for u in us], np.eye(2), [1] * N)
    rt_q = RT
    if form in ("float32", "int64", "int32", "F", "strided"):
        # storage forms of the director array (the statement speaks of unit vectors, not of float64 C-ordered arrays)
        from PyMatterSim.reader.reader_utils import SingleSnapshot, Snapshots

        conv = []
        for s_ in snaps.snapshots:
            a = s_.positions
            if form == "F":
                a = np.asfortranarray(a)
            elif form == "strided":
                big = np.full((N, 4), 9.5)
                big[:, ::2] = a
                a = big[:, ::2]
            else:
                a = a.astype(form)
            conv.append(SingleSnapshot(s_.timestep, s_.nparticle, s_.particle_type, a, s_.boxlength, s_.boxbounds, s_.realbounds, s_.hmatrix))
        snaps = Snapshots(F, conv)
        us = [np.asarray(s_.positions, float) for s_ in snaps.snapshots]  # the values actually stored
        if form == "float32":
            rt_q = 2e-6
    refs = [G.ref_nematic(us[f], None if tf is None else tf[f]) for f in range(F)]
    Qref = np.array([r[0] for r in refs])
    Sref = np.array([r[1] for r in refs])
    Lref = np.array([r[2] for r in refs])
    before = [s.positions.copy() for s in snaps.snapshots]
    res = {}
    kw = {}
    if case.get("nmax") is not None:
        kw["Nmax"] = case["nmax"]
    decoy = None
    if case.get("posdecoy"):
        # L1: snapshots_position is documented as "only required for spatial correlation calculation": tensor() must not look at it
        decoy = mk_snaps([(7.0 - u[::-1]).tolist() for u in us], np.diag([9.0, 11.0]), [1] * N)
    for ev in (False, True):
        no = NematicOrder(snaps, decoy) if decoy is not None else NematicOrder(snaps)
        out = np.asarray(no.tensor(ndim=2, neighborfile=nf, eigvals=ev, outputfile="nm", **kw))
        res[ev] = out
        Q = np.asarray(no.QIJ)
        s2 = dict(sig, eigvals=ev)
        if Q.shape != Qref.shape or not np.allclose(Q, Qref, rtol=rt_q, atol=1e-12 if rt_q == RT else 2e-7):
            R.fail("Q tensor differs from (2 u u^T - I)/2" + (" averaged over self + listed neighbours" if tf is not None else ""),
                   sig=dict(s2, clause="tensor"), exp=Qref, obs=Q, sub="C17.nematic.tensor")
        want = 2 * Lref if ev else Sref
        if out.shape != want.shape:
            R.fail(f"shape {out.shape} != {want.shape}", sig=dict(s2, clause="shape"), sub="C17.nematic.scalar")
            return R
        at_s = 1e-10 if rt_q == RT else 1e-6
        if not np.allclose(out, want, rtol=rt_q, atol=at_s):
            f, i = [int(v) for v in np.argwhere(~np.isclose(out, want, rtol=rt_q, atol=at_s))[0]]
            R.fail(f"frame {f} particle {i}: " + ("2 lambda_max" if ev else "sqrt(2 tr Q^2)") + f" = {out[f, i]!r}, reference {want[f, i]!r}",
                   sig=dict(s2, clause="scalar"), exp=want[f], obs=out[f], sub="C17.nematic.scalar")
    if res[False].shape == res[True].shape and not np.allclose(res[False], res[True], rtol=rt_q, atol=1e-9 if rt_q == RT else 1e-6):
        R.fail("sqrt(2 tr Q^2) != 2 lambda_max", sig=dict(sig, clause="trace_eq_eig"), exp=res[False], obs=res[True], sub="C17.nematic.scalar")
    for s, b in zip(snaps.snapshots, before):
        if not np.array_equal(s.positions, b):
            R.fail("orientation snapshot modified", sig=dict(sig, clause="input_modified"), sub="C17.nematic.tensor")
    for fn in ("nm.QIJ_raw.npy", "nm.QIJ_cg.npy", "nm.eigval.npy", "nm.Qtrace.npy", "nl_c17.dat"):
        if os.path.exists(fn):
            os.remove(fn)
    R.elem = 2 * N * F
    R.outcome([res[False], res[True]])
    R.nontrivial = len({tuple(r) for r in ks}) > 1 or len(set(ks[0])) > 1
    if case.get("part"):  # called from C17.firstframe / C17.forms / C17.unwrapped: report under that sub-check
        for v in R.viol:
            if v:
                v["sub"] = None
    return R


# =================================================================================== gyration
def gen_gyration(tier, seed):
    for d in (2, 3):
        n = 3**d
        for N in (2, 3, 4):
            for sub in itertools.combinations(range(n), N):
                for scale in (1.0, 0.5, 3.0):
                    if scale != 1.0 and d == 3 and N == 4 and tier == "quick":
                        continue
                    yield {"kind": "lattice", "d": d, "subset": list(sub), "scale": scale, "seed": seed}
        for N in ((2, 3, 4) if (d == 2 or tier == "thorough") else (2, 3)):
            for sub in itertools.combinations(range(n), N):
                for scale in (1.0, 0.25):
                    yield {"kind": "jl", "d": d, "subset": list(sub), "scale": scale, "seed": seed}
        for N in (5, 6, 7, 8):
            for tag in range(4 if tier == "quick" else 16):
                for scale in (0.5, 4.0):
                    yield {"kind": "generic", "d": d, "N": N, "tag": tag, "scale": scale, "seed": seed}


def gyr_points(case):
    d = case["d"]
    if case["kind"] == "lattice":
        lat = [list(map(float, x)) for x in itertools.product(range(3), repeat=d)]
        return np.array([lat[i] for i in case["subset"]]) * case["scale"] + (np.array([10.0, -7.0, 3.0])[:d] if len(case["subset"]) % 2 else 0.0)
    if case["kind"] == "jl":
        pts = np.array(A.jl_points(case["seed"], 3, d, [3.0] * d, tag=f"gy{d}"))
        return pts[case["subset"]] * case["scale"]
    return (np.array(A.generic_points(case["seed"], case["N"], d, tag=f"gyg{d}{case['N']}_{case['tag']}_")) - 0.3) * case["scale"] * np.array([1.0, 2.0, 0.5])[:d]


def run_gyration(case):
    from PyMatterSim.static.shape import gyration_tensor

    R = Result()
    p = gyr_points(case)
    N, d = p.shape
    ref = G.ref_gyration(p)
    # argument forms (scale slice): Fortran-ordered, non-contiguous view, float32-free integer lattice is covered by kind "lattice"
    if case.get("layout") == "F":
        p = np.asfortranarray(p)
    elif case.get("layout") == "strided":
        big = np.full((N, 2 * d), 7.25)
        big[:, ::2] = p
        p = big[:, ::2]
    sig = {"d": d, "kind": case["kind"], "N2": N == 2}
    if case.get("layout"):
        sig["layout"] = case["layout"]
    if case.get("form"):
        p = p.astype(case["form"])  # integer lattice points stored as int64 / int32 / float32 (exact): npt.NDArray is all the documentation asks for
        sig["form"] = case["form"]
    p0 = p.copy()
    got = gyration_tensor(p)
    names = ["radius_of_gyration", "asphericity", "acylindricity", "shape_anisotropy", "fractal_dimension"] if d == 3 else \
        ["radius_of_gyration", "acylindricity", "fractal_dimension"]
    R.elem = len(names)
    if not isinstance(got, (list, tuple)) or len(got) != len(names):
        R.fail(f"{d}D: expected the {len(names)} descriptors {names}", sig=dict(sig, clause="return"), obs=str(got)[:200])
        return R
    scale = max(1.0, float(ref["lam"].max()))
    gotc = np.array([complex(g) for g in got])
    gr = gotc.real
    ill = abs(ref["log10rg"]) < 1e-7
    # float32 positions: the routine may work in the precision of its input (2e-6 relative); every other form: 1e-9
    lo = 2000.0 if case.get("form") == "float32" else 1.0
    RTg, ATg = RT * lo, (2e-6 if lo > 1 else AT)
    for k, name in enumerate(names):
        e = ref["list"][k]
        if name == "fractal_dimension":
            if ill or (lo > 1 and abs(ref["log10rg"]) < 1e-2):
                continue
            ok = abs(gr[k] * ref["log10rg"] - math.log10(N)) <= lo * (1e-9 + 1e-10 * abs(gr[k])) and abs(gotc[k].imag) <= 1e-9 * (1 + abs(gr[k]))
        elif name == "shape_anisotropy":
            ok = abs(gr[k] - e) <= 1e-9 * lo and abs(gr[k] - ref["anisotropy_invariant"]) <= 1e-9 * lo and abs(gotc[k].imag) <= 1e-9
        elif name == "radius_of_gyration":
            ok = abs(gr[k] - e) <= RTg * e and abs(gotc[k].imag) <= 1e-9 * e
        else:
            ok = abs(gr[k] - e) <= ATg * scale + RTg * abs(e) and abs(gotc[k].imag) <= ATg * scale
            if ok and name == "acylindricity" and d == 2:
                ok = abs(gr[k] - ref["acyl_invariant"]) <= 1e-7 * scale * lo
        if not ok:
            R.fail(f"{name} = {got[k]!r}, documented function of the eigenvalues {ref['lam'].tolist()} gives {e!r}",
                   sig=dict(sig, clause=name), exp=ref["list"], obs=[str(g) for g in got])
    if not np.array_equal(p, p0):
        R.fail("input positions modified", sig=dict(sig, clause="input_modified"))
    R.outcome(np.where(np.isfinite(gr), gr, 0.0))
    R.nontrivial = N > 2
    return R


# ====================================================================================== scale
# A scale slice enumerates SIZES, not value assignments: one fixed value pattern per size and pattern row.
SC_N = {"quick": [64, 65, 130, 257], "thorough": [63, 64, 65, 127, 128, 129, 130, 255, 256, 257]}
SC_N_TETRA = {"quick": [64, 130, 257], "thorough": [63, 64, 65, 127, 128, 129, 130, 255, 256, 257]}
SC_N_NEM = {"quick": [64, 130], "thorough": [63, 64, 65, 127, 128, 129, 130, 257]}
SC_N_GYR = {"quick": [257, 1000], "thorough": [63, 64, 65, 127, 128, 129, 255, 256, 257, 1000, 4097]}
SC_SIG = {1: [[0.3]], 2: [[0.3, 0.25], [0.25, 0.35]], 3: [[0.3, 0.25, 0.4], [0.25, 0.35, 0.2], [0.4, 0.2, 0.3]]}
SC_S2 = [
    {"p": "s1", "d": 3, "K": 1, "cell": "orthy", "F": 1, "rd": 0.06, "nd": 64, "ppp": [1, 1, 1], "savegr": True},
    {"p": "s2", "d": 3, "K": 3, "cell": "trivar", "F": 3, "rd": 0.04, "nd": 65, "ppp": [1, 1, 1], "savegr": False},
    {"p": "s3", "d": 2, "K": 2, "cell": "tri-", "F": 2, "rd": 0.03, "nd": 129, "ppp": [1, 1], "savegr": True},
    {"p": "s4", "d": 2, "K": 3, "cell": "orthy", "F": 3, "rd": 0.05, "nd": 63, "ppp": [1, 0], "savegr": False},
    {"p": "s5", "d": 3, "K": 2, "cell": "tri+", "F": 2, "rd": 0.05, "nd": 64, "ppp": [1, 0, 1], "savegr": False},
]
SC_TETRA = [
    {"p": "t1", "cell": "orthy", "F": 1, "ppp": [1, 1, 1]},
    {"p": "t2", "cell": "trivar", "F": 3, "ppp": [1, 1, 1]},
    {"p": "t3", "cell": "tri-", "F": 2, "ppp": [1, 0, 1]},
    {"p": "t4", "cell": "orthz", "F": 3, "ppp": [0, 1, 1]},
]
SC_NEM = [
    {"p": "n1", "F": 3, "file": True, "nmax": 30},
    {"p": "n2", "F": 1, "file": False, "nmax": 30},
    {"p": "n3", "F": 2, "file": True, "nmax": 14},
]


def gen_scale(tier, seed):
    for N in SC_N[tier]:
        for pat in SC_S2:
            yield dict(pat, part="s2", N=N, seed=seed)
    for N in SC_N_TETRA[tier]:
        for pat in SC_TETRA:
            yield dict(pat, part="tetra", N=N, seed=seed)
    for N in SC_N_NEM[tier]:
        for pat in SC_NEM:
            yield dict(pat, part="nematic", N=N, seed=seed)
    for N in SC_N_GYR[tier]:
        for d in (2, 3):
            for scale, layout in ((0.5, "C"), (4.0, "F"), (4.0, "strided")):
                yield {"part": "gyration", "kind": "generic", "d": d, "N": N, "tag": 0, "scale": scale, "layout": layout, "seed": seed}


def size_class(N):
    return "<=64" if N <= 64 else ("65-128" if N <= 128 else ">128")


def scale_frames(case, d, check):
    """cells + generic frames of a scale case; `check(frames, Hs)` says whether the placement keeps every discrete decision away from its
    boundary - otherwise the next hash table is taken (None when 60 tables fail)"""
    N, F, ppp = case["N"], case["F"], case["ppp"]
    Hs = X.cells_for(N, d, case["cell"], F)
    for tag in range(60):
        frames = X.frames_for(case["seed"], N, d, Hs, f"c17sc{case['part']}{N}{case['p']}t{tag}")
        if min(X.tie_margin_allpairs(fr, H, ppp) for fr, H in zip(frames, Hs)) < 1e-9:
            continue
        if check(frames, Hs):
            return Hs, frames
    return None


def run_scale_s2(case):
    from PyMatterSim.static.pairentropy import S2

    R = Result()
    d, N, F, K = case["d"], case["N"], case["F"], case["K"]
    ppp, rd, nd = case["ppp"], case["rd"], case["nd"]
    sigm = np.array(SC_SIG[K])
    types_f = [X.species(N, K, f) for f in range(F)]
    refs = {}

    def check(frames, Hs):
        out = []
        for f, (p, H) in enumerate(zip(frames, Hs)):
            s2, g, info = X.ref_s2(p, H, types_f[f], sigm, ppp, rd, nd)
            if info["margin"] < 1e-9 or info["nneigh"].min() == 0 or not info["gmin"] > 1e-290:
                return False
            out.append((s2, g, info))
        refs["v"] = out
        return True

    inp = scale_frames(case, d, check)
    if inp is None:
        return R.screen()
    Hs, frames = inp
    ref_s2 = np.array([x[0] for x in refs["v"]])
    ref_g = np.array([x[1] for x in refs["v"]])
    maxn = int(max(x[2]["nneigh"].max() for x in refs["v"]))
    sig = {"scale": True, "pattern": case["p"], "d": d, "cell": case["cell"], "K": K, "masked": bool(0 in ppp), "size": size_class(N), "savegr": case["savegr"]}
    where = f"N={N} F={F} K={K} bins {nd} x {rd} pattern {case['p']} (up to {maxn} pairs inside r_m)"
    from PyMatterSim.reader.reader_utils import Snapshots

    snaps = Snapshots(F, [mk_snap(p.tolist(), Hs[f], types_f[f], ts=100 * f) for f, p in enumerate(frames)])
    before = [s.positions.copy() for s in snaps.snapshots]
    ofile = "c17_sc_s2.npy" if case["p"] == "s1" else ""
    out = S2(snaps, sigm, np.array(ppp), rd, nd).particle_s2(savegr=case["savegr"], outputfile=ofile)
    if ofile:
        ok = os.path.exists(ofile) and os.path.exists("particle_gr." + ofile)
        if ok:
            ok = np.array_equal(np.load(ofile), np.asarray(out[0])) and np.array_equal(np.load("particle_gr." + ofile), np.asarray(out[1]))
        if not ok:
            R.fail("outputfile / particle_gr.<outputfile> differ from the returned arrays", sub="C17.s2", sig=dict(sig, clause="file"))
        for fn in (ofile, "particle_gr." + ofile):
            if os.path.exists(fn):
                os.remove(fn)
    if case["savegr"]:
        if not (isinstance(out, tuple) and len(out) == 2):
            R.fail("savegr=True did not return (s2, particle_gr)", sub="C17.s2", sig=dict(sig, clause="return"))
            return R
        got, pgr = np.asarray(out[0]), np.asarray(out[1])
        for fn in ("particle_gr..npy", "particle_gr.npy"):
            if os.path.exists(fn):
                os.remove(fn)
        if pgr.shape != ref_g.shape:
            R.fail(f"particle_gr shape {pgr.shape} != {ref_g.shape}: {where}", sub="C17.s2", sig=dict(sig, clause="gr_shape"))
        elif not np.allclose(pgr, ref_g, rtol=RT, atol=AT):
            f, i, k = [int(v) for v in np.argwhere(~np.isclose(pgr, ref_g, rtol=RT, atol=AT))[0]]
            R.fail(f"frame {f} particle {i} bin {k}: smeared g = {pgr[f, i, k]!r}, reference {ref_g[f, i, k]!r}: {where}", sub="C17.s2", sig=dict(sig, clause="gr"))
    else:
        got = np.asarray(out)
    R.elem = N * F * (1 + (nd if case["savegr"] else 0))
    if got.shape != ref_s2.shape:
        R.fail(f"shape {got.shape} != {ref_s2.shape}: {where}", sub="C17.s2", sig=dict(sig, clause="shape"))
        return R
    if not np.allclose(got, ref_s2, rtol=RT, atol=AT):
        f, i = [int(v) for v in np.argwhere(~np.isclose(got, ref_s2, rtol=RT, atol=AT))[0]]
        R.fail(f"frame {f} particle {i} (type {types_f[f][i]}): S2 = {got[f, i]!r}, documented formula gives {ref_s2[f, i]!r}: {where}", sub="C17.s2",
               sig=dict(sig, clause="s2"))
    for s, b in zip(snaps.snapshots, before):
        if not np.array_equal(s.positions, b):
            R.fail("snapshot positions modified", sub="C17.s2", sig=dict(sig, clause="input_modified"))
    R.outcome(got)
    R.nontrivial = True
    return R


def run_scale_tetra(case):
    from PyMatterSim.static.geometric import q8_tetrahedral

    R = Result()
    N, F, ppp = case["N"], case["F"], case["ppp"]
    refs = {}

    def check(frames, Hs):
        out = []
        for p, H in zip(frames, Hs):
            q, four, margin = X.ref_tetra(p, H, ppp)
            if margin < 1e-9:
                return False
            out.append((q, four))
        refs["v"] = out
        return True

    inp = scale_frames(case, 3, check)
    if inp is None:
        return R.screen()
    Hs, frames = inp
    ref = np.array([x[0] for x in refs["v"]])
    sig = {"scale": True, "pattern": case["p"], "cell": case["cell"], "masked": bool(0 in ppp), "size": size_class(N), "multi_frame": F > 1}
    snaps = mk_snaps([p.tolist() for p in frames], np.array(Hs), [1] * N)
    before = [s.positions.copy() for s in snaps.snapshots]
    ofile = "c17_sc_q8.npy" if case["p"] == "t1" else ""
    got = np.asarray(q8_tetrahedral(snaps, ppp=np.array(ppp), outputfile=ofile))
    if ofile:
        if not (os.path.exists(ofile) and np.array_equal(np.load(ofile), got)):
            R.fail("outputfile differs from the returned array", sub="C17.tetra.formula", sig=dict(sig, clause="file"))
        if os.path.exists(ofile):
            os.remove(ofile)
    R.elem = N * F
    if got.shape != ref.shape:
        R.fail(f"shape {got.shape} != {ref.shape}", sub="C17.tetra.formula", sig=dict(sig, clause="shape"))
        return R
    if not np.allclose(got, ref, rtol=RT, atol=AT):
        f, i = [int(v) for v in np.argwhere(~np.isclose(got, ref, rtol=RT, atol=AT))[0]]
        R.fail(f"N={N} pattern {case['p']} frame {f} particle {i} (four nearest {refs['v'][f][1][i].tolist()}): q = {got[f, i]!r}, "
               f"1 - 3/32 sum (cos psi + 1/3)^2 = {ref[f, i]!r}", sub="C17.tetra.formula", sig=dict(sig, clause="formula"))
    for s, b in zip(snaps.snapshots, before):
        if not np.array_equal(s.positions, b):
            R.fail("snapshot positions modified", sub="C17.tetra.formula", sig=dict(sig, clause="input_modified"))
    R.outcome(got)
    R.nontrivial = True
    return R


def scale_topo(N, f):
    """ragged lists (cn 1..14, the maximum attained by the first or the last particle only) in which every 11th particle has NO neighbour"""
    nl = X.ragged_lists(N, f, "first" if f % 2 == 0 else "last")
    return [[] if (i + f) % 11 == 3 and 0 < i < N - 1 else x for i, x in enumerate(nl)]


def run_scale_nematic(case):
    from PyMatterSim.static.nematic import NematicOrder

    R = Result()
    N, F = case["N"], case["F"]
    ang = [np.array(A.generic_points(case["seed"], N, 1, tag=f"c17nem{N}{case['p']}f{f}_"))[:, 0] * math.pi for f in range(F)]
    us = [np.column_stack((np.cos(a), np.sin(a))) for a in ang]
    tf = [scale_topo(N, f) for f in range(F)] if case["file"] else None
    sig = {"scale": True, "pattern": case["p"], "file": bool(case["file"]), "size": size_class(N), "multi_frame": F > 1}
    nf = ""
    if tf is not None:
        nf = "nl_c17s.dat"
        write_neighbor_file(nf, tf)
    refs = [X.ref_nematic(us[f], None if tf is None else tf[f]) for f in range(F)]
    Qref, Sref, Lref = (np.array([r[k] for r in refs]) for k in range(3))
    snaps = mk_snaps([u.tolist() for u in us], np.eye(2), [1] * N)
    before = [s.positions.copy() for s in snaps.snapshots]
    res = {}
    for ev in (False, True):
        no = NematicOrder(snaps)
        out = np.asarray(no.tensor(ndim=2, neighborfile=nf, Nmax=case["nmax"], eigvals=ev, outputfile="nms"))
        res[ev] = out
        Q = np.asarray(no.QIJ)
        s2 = dict(sig, eigvals=ev)
        if Q.shape != Qref.shape or not np.allclose(Q, Qref, rtol=RT, atol=1e-12):
            where = ""
            if Q.shape == Qref.shape:
                f, i = [int(v) for v in np.argwhere(~np.isclose(Q, Qref, rtol=RT, atol=1e-12))[0][:2]]
                where = f" (N={N}, frame {f}, particle {i}" + (f", cn {len(tf[f][i])})" if tf is not None else ")")
            R.fail("Q tensor differs from (2 u u^T - I)/2" + (" averaged over self + listed neighbours" if tf is not None else "") + where,
                   sig=dict(s2, clause="tensor"), sub="C17.nematic.tensor")
        want = 2 * Lref if ev else Sref
        if out.shape != want.shape:
            R.fail(f"shape {out.shape} != {want.shape}", sig=dict(s2, clause="shape"), sub="C17.nematic.scalar")
            return R
        if not np.allclose(out, want, rtol=RT, atol=1e-10):
            f, i = [int(v) for v in np.argwhere(~np.isclose(out, want, rtol=RT, atol=1e-10))[0]]
            R.fail(f"N={N} frame {f} particle {i}: " + ("2 lambda_max" if ev else "sqrt(2 tr Q^2)") + f" = {out[f, i]!r}, reference {want[f, i]!r}",
                   sig=dict(s2, clause="scalar"), sub="C17.nematic.scalar")
    if res[False].shape == res[True].shape and not np.allclose(res[False], res[True], rtol=RT, atol=1e-9):
        R.fail("sqrt(2 tr Q^2) != 2 lambda_max", sig=dict(sig, clause="trace_eq_eig"), sub="C17.nematic.scalar")
    for s, b in zip(snaps.snapshots, before):
        if not np.array_equal(s.positions, b):
            R.fail("orientation snapshot modified", sig=dict(sig, clause="input_modified"), sub="C17.nematic.tensor")
    for fn in ("nms.QIJ_raw.npy", "nms.QIJ_cg.npy", "nms.eigval.npy", "nms.Qtrace.npy", "nl_c17s.dat"):
        if os.path.exists(fn):
            os.remove(fn)
    R.elem = 2 * N * F
    R.outcome([res[False], res[True]])
    R.nontrivial = True
    return R


def run_scale(case):
    part = case["part"]
    if part == "s2":
        return run_scale_s2(case)
    if part == "tetra":
        return run_scale_tetra(case)
    if part == "nematic":
        return run_scale_nematic(case)
    return run_gyration(case)


# ======================================================================================= C17.corr
# The correlation methods of the anchored classes.  Property C17 itself says nothing about them; what is claimed is what the class docstrings
# say: spatial_corr = frame mean of the conditional pair correlation (C13 model) of the per-particle S2 values (divided by THAT frame's mean
# when mean_norm) resp. of the Q tensors; time_corr = the time correlation (C14 model) of the same per-particle quantities.
CORR_L2 = [3.0, 2.5]  # cell of the nematic position trajectory (shortest edge y)
CORR_DIRS = {
    "generic": [[0, 1, 2, 3], [4, 2, 7, 1], [5, 5, 0, 6]],
    "axis": [[(1.0, 0.0), (0.0, 1.0), (-1.0, 0.0), (0.6, 0.8)], [(0.0, -1.0), (0.0, 1.0), (0.8, -0.6), (1.0, 0.0)], [(0.0, 1.0), (1.0, 0.0), (1.0, 0.0), (-0.6, 0.8)]],
}
CORR_TOPO = {  # per-frame neighbour topologies (N = 4; N = 3 drops particle 3): class of frame 0 differs from the later frames
    "same": [[[1], [0, 2], [1, 3], [2]]] * 3,
    "empty>ragged": [[[], [], [], []], [[1], [0, 2, 3], [1], []], [[3, 2, 1], [2], [0], [1, 0]]],
    "ragged>empty": [[[3, 2, 1], [2], [0], [1, 0]], [[], [], [], []], [[1], [0], [3], [2]]],
}


def corr_topo(name, N, F):
    return [[[j for j in x if j < N] for x in fr[:N]] for fr in CORR_TOPO[name][:F]]


def corr_dirs(name, N, F):
    rows = CORR_DIRS[name][:F]
    if name == "generic":
        return [[director(k) for k in row[:N]] for row in rows]
    return [[list(v) for v in row[:N]] for row in rows]


def _half(q, *idx):
    """quick tier: the half fraction of a factorial design in which the factor indices sum to an even number (every pair of factor levels still occurs)"""
    return (not q) or sum(idx) % 2 == 0


def _corr_dt(k):
    """time step of a correlation case: the default, 0.5, and (L8) an explicit zero as float / int"""
    return 0.0 if k % 7 == 0 else (0 if k % 7 == 3 else (0.5 if k % 3 == 0 else 0.002))


def gen_corr(tier, seed):
    q = tier == "quick"
    k = 0
    for d in (2, 3):
        for ics, cs in enumerate(("orth", "tri", "orth>tri", "tri>orth")):
            for N in (3, 4):
                for ifs, (F, spacing) in enumerate(((2, "even"), (3, "even"), (3, "uneven"))):
                    for isp, spread in enumerate(("cluster", "gas>cluster")):
                        for K in (1, 2):
                            for im, m in enumerate(([1] * d, [1] + [0] * (d - 1))):
                                for ib, (rd, nd) in enumerate(((0.05, 20), (0.1, 20))):
                                    k += 1
                                    if not _half(q, d, ics, N, ifs, isp, K, im, ib):
                                        continue
                                    sp = [0.45] * F if spread == "cluster" else [1.0] + [0.45] * (F - 1)
                                    c = {"part": "s2", "d": d, "cellseq": cs, "N": N, "F": F, "spacing": spacing, "spread": sp, "K": K, "ppp": m, "rd": rd, "nd": nd,
                                         "tag": 0, "dt": _corr_dt(k), "files": k % 4 == 0, "unwrap": k % 3 == 1, "seed": seed}
                                    Hs = Y.cells(S2_L[d], cs, F)
                                    rm = (nd - 1) * rd + rd / 2
                                    for tag in range(6):  # first placement table in which every particle of every frame has a pair inside r_m
                                        fr = s2_frames(seed, d, N, sp, f"c{tag}", F, np.array(Hs))
                                        if all(G.s2_admissible(p, H, m, rm) for p, H in zip(fr, Hs)):
                                            c["tag"] = f"c{tag}"
                                            yield c
                                            break
    k = 0
    for N in (3, 4):
        for ifs, (F, spacing) in enumerate(((2, "even"), (3, "even"), (3, "uneven"), (3, "offset"))):
            for ics, cs in enumerate(("orth", "tri", "orth>tri", "tri>orth")):
                for it, topo in enumerate(("none", "same", "empty>ragged", "ragged>empty")):
                    for idr, dirs in enumerate(("generic", "axis")):
                        for iw, w in enumerate((0.25, 0.2)):
                            for im, m in enumerate(([1, 1], [1, 0])):
                                k += 1
                                if not _half(q, N, ifs, ics, it, idr, iw, im):
                                    continue
                                yield {"part": "nematic", "N": N, "F": F, "spacing": spacing, "cellseq": cs, "topo": topo, "dirs": dirs, "w": w, "ppp": m,
                                       "dt": _corr_dt(k), "files": k % 4 == 0, "eigvals": bool(k % 2), "unwrap": k % 3 == 1, "seed": seed}


def _cmp_table(R, sg, what, tab, cols, scale_cols=("gr", "gA")):
    """every entry of a returned DataFrame against the reference columns (dict name -> array)"""
    names = list(cols)
    if [str(c) for c in tab.columns] != names or len(tab) != len(cols[names[0]]):
        R.fail(f"{what}: columns {list(tab.columns)} x {len(tab)} rows; expected {names} x {len(cols[names[0]])}", sig=dict(sg, clause="columns"))
        return False
    ok = True
    for c in names:
        got = tab[c].values.astype(float)
        ref = np.asarray(cols[c], float)
        at = AT * max(1.0, float(np.abs(ref).max()))
        if not np.allclose(got, ref, rtol=RT, atol=at):
            k = int(np.argmax(np.abs(got - ref)))
            R.fail(f"{what}: column {c} row {k} = {got[k]!r}, reference {ref[k]!r}", sig=dict(sg, clause=c), exp=ref, obs=got)
            ok = False
    return ok


def run_corr(case):
    return run_corr_s2(case) if case["part"] == "s2" else run_corr_nematic(case)


def run_corr_s2(case):
    from PyMatterSim.static.pairentropy import S2

    R = Result()
    d, N, F, K = case["d"], case["N"], case["F"], case["K"]
    Hs = Y.cells(S2_L[d], case["cellseq"], F)
    frames = s2_frames(case["seed"], d, N, case["spread"], case["tag"], F, np.array(Hs))
    ppp = np.array(case["ppp"])
    rd, nd = case["rd"], case["nd"]
    sigm = np.array(S2_SIG["k1" if K == 1 else "k2a"])
    base = [1] * N if K == 1 else [1 + (i % 2) for i in range(N)]
    types_f = [base if f % 2 == 0 else base[::-1] for f in range(F)] if K == 2 else [base] * F
    steps = Y.steps_for(case["spacing"], F)
    sg = {"part": "s2", "d": d, "cellseq": case["cellseq"], "K": K, "masked": bool((ppp == 0).any()), "spacing": case["spacing"], "F": F}
    refs = []
    for f, p in enumerate(frames):
        tm = min(frac_tie_margin(p - p[i], Hs[f], ppp) for i in range(N))
        s2, info = G.ref_s2(p, Hs[f], types_f[f], sigm, ppp, rd, nd)
        if tm < 1e-9 or info["margin"] < 1e-9 or min(info["nneigh"]) == 0 or not (info["gmin"] > 1e-290):
            return R.screen()
        refs.append(s2)
    refs = np.array(refs)
    lib_frames = frames
    if case.get("unwrap"):
        lib_frames = [frames[0]] + [Y.unwrap(p, Hs[f], ppp, phase=f) for f, p in enumerate(frames) if f > 0]  # L7: later frames unfolded
        sg["unwrapped"] = True
    if case["dt"] == 0:
        sg["dt_zero"] = True
    snaps = mk_snaps([p.tolist() for p in lib_frames], np.array(Hs), types_f, steps=steps)
    obj = S2(snaps, sigm, ppp, rd, nd)
    got = np.asarray(obj.particle_s2())
    if got.shape != refs.shape or not np.allclose(got, refs, rtol=RT, atol=AT):
        R.fail("particle S2 differs from the documented formula", sig=dict(sg, clause="s2"), exp=refs, obs=got)
        return R
    kept = np.array(obj.s2_results, copy=True)
    tabs = []
    ncmp = 0
    for mn in (False, True, False):
        conds = [r / r.mean() for r in refs] if mn else list(refs)
        ref = Y.ref_spatial(frames, Hs, ppp, rd, conds, "float")
        if ref["ambiguous"]:
            return R.screen()
        cols = dict(ref["cols"])
        relvar = min(Y.rel_variance(c) for c in conds)
        fn = f"c17_gs_{int(mn)}.csv" if case["files"] else ""
        tab = obj.spatial_corr(mean_norm=mn, outputfile=fn)
        s1 = dict(sg, mean_norm=mn)
        if "gA_norm" not in tab.columns:
            R.fail(f"spatial_corr: columns {list(tab.columns)} lack gA_norm", sig=dict(s1, clause="columns"))
            return R
        if relvar < 1e-6 or "gA_norm" not in cols:  # the documented quotient (gA - <A>^2)/(<A^2> - <A>^2) is ill-conditioned: not compared
            cols["gA_norm"] = tab["gA_norm"].values.astype(float)
        elif not np.allclose(tab["gA_norm"].values.astype(float), cols["gA_norm"], rtol=1e-7, atol=1e-8 / relvar * max(1.0, float(np.abs(cols["gA"]).max()))):
            R.fail("S2.spatial_corr: gA_norm differs from the frame mean of (gA - <A>^2)/(<A^2> - <A>^2)", sig=dict(s1, clause="gA_norm"), exp=cols["gA_norm"],
                   obs=tab["gA_norm"].values)
        else:
            cols["gA_norm"] = tab["gA_norm"].values.astype(float)
        _cmp_table(R, s1, f"S2.spatial_corr(mean_norm={mn})", tab, {k_: cols[k_] for k_ in ("r", "gr", "gA", "gA_norm")})
        ncmp += 4 * len(tab)
        if fn:
            why = Y.csv_matches(fn, tab, 8)
            if why:
                R.fail(f"S2.spatial_corr: csv {why}", sig=dict(s1, clause="csv"))
            if os.path.exists(fn):
                os.remove(fn)
        tabs.append(tab.values.astype(float))
        if not np.array_equal(np.asarray(obj.s2_results), kept):
            R.fail("spatial_corr modified the stored S2 values", sig=dict(s1, clause="state_modified"))
            return R
    if not np.array_equal(tabs[0], tabs[2], equal_nan=True):
        R.fail("spatial_corr(mean_norm=False) changes after a spatial_corr(mean_norm=True) call on the same object", sig=dict(sg, clause="repeat"))
    t, Cn, c0, linear = Y.ref_time(refs, steps, case["dt"])
    fn = "c17_gt.csv" if case["files"] else ""
    tt = obj.time_corr(dt=case["dt"], outputfile=fn)
    _cmp_table(R, dict(sg, linear=linear), "S2.time_corr", tt, {"t": t, "time_corr": Cn})
    ncmp += 2 * len(tt)
    if fn:
        why = Y.csv_matches(fn, tt, 6)
        if why:
            R.fail(f"S2.time_corr: csv {why}", sig=dict(sg, clause="csv_time"))
        if os.path.exists(fn):
            os.remove(fn)
    R.elem = ncmp
    R.outcome([tabs[0], tabs[1], tt.values.astype(float)], nd=7)
    R.nontrivial = ref["populated"] >= 2 and relvar >= 1e-6
    return R


def run_corr_nematic(case):
    from PyMatterSim.static.nematic import NematicOrder

    R = Result()
    N, F = case["N"], case["F"]
    Hs = Y.cells(CORR_L2, case["cellseq"], F)
    frames = [np.array(A.generic_points(case["seed"], N, 2, tag=f"c17cn{N}f{f}_")) @ Hs[f] for f in range(F)]
    us = [np.array(u) for u in corr_dirs(case["dirs"], N, F)]
    tf = None if case["topo"] == "none" else corr_topo(case["topo"], N, F)
    ppp = np.array(case["ppp"])
    w = case["w"]
    steps = Y.steps_for(case["spacing"], F)
    sg = {"part": "nematic", "cellseq": case["cellseq"], "topo": case["topo"], "dirs": case["dirs"], "masked": bool((ppp == 0).any()), "spacing": case["spacing"], "F": F}
    if min(frac_tie_margin(p - p[i], H, ppp) for p, H in zip(frames, Hs) for i in range(N)) < 1e-9:
        return R.screen()
    nf = ""
    if tf is not None:
        nf = "nl_c17c.dat"
        write_neighbor_file(nf, tf)
    Q = np.array([G.ref_nematic(us[f], None if tf is None else tf[f])[0] for f in range(F)])
    so = mk_snaps([u.tolist() for u in us], np.eye(2), [1] * N, steps=steps)
    lib_frames = frames
    if case.get("unwrap"):
        lib_frames = [frames[0]] + [Y.unwrap(p, Hs[f], ppp, phase=f) for f, p in enumerate(frames) if f > 0]  # L7: later frames unfolded
        sg["unwrapped"] = True
    if case["dt"] == 0:
        sg["dt_zero"] = True
    sp = mk_snaps([p.tolist() for p in lib_frames], np.array(Hs), [1] * N, steps=steps)
    no = NematicOrder(so, sp)
    no.tensor(ndim=2, neighborfile=nf, eigvals=case["eigvals"], outputfile="nmc")
    if np.asarray(no.QIJ).shape != Q.shape or not np.allclose(no.QIJ, Q, rtol=RT, atol=1e-12):
        R.fail("Q tensor differs from its definition", sig=dict(sg, clause="tensor"))
        return R
    ref = Y.ref_spatial(frames, Hs, ppp, w, list(Q), "tensor")
    if ref["ambiguous"]:
        return R.screen()
    fn = "c17_gq.csv" if case["files"] else ""
    tab = no.spatial_corr(rdelta=w, ppp=ppp, outputfile=fn)
    _cmp_table(R, sg, "NematicOrder.spatial_corr", tab, {k_: ref["cols"][k_] for k_ in ("r", "gr", "gA")})
    if fn:
        why = Y.csv_matches(fn, tab, 8)
        if why:
            R.fail(f"NematicOrder.spatial_corr: csv {why}", sig=dict(sg, clause="csv"))
        if os.path.exists(fn):
            os.remove(fn)
    t, Cn, c0, linear = Y.ref_time(Q, steps, case["dt"])
    fn = "c17_qt.csv" if case["files"] else ""
    tt = no.time_corr(dt=case["dt"], outputfile=fn)
    _cmp_table(R, dict(sg, linear=linear), "NematicOrder.time_corr", tt, {"t": t, "time_corr": Cn})
    if fn:
        why = Y.csv_matches(fn, tt, 8)
        if why:
            R.fail(f"NematicOrder.time_corr: csv {why}", sig=dict(sg, clause="csv_time"))
        if os.path.exists(fn):
            os.remove(fn)
    for f_ in ("nmc.QIJ_raw.npy", "nmc.QIJ_cg.npy", "nmc.eigval.npy", "nmc.Qtrace.npy", "nl_c17c.dat"):
        if os.path.exists(f_):
            os.remove(f_)
    R.elem = 3 * len(tab) + 2 * len(tt)
    R.outcome([tab.values.astype(float), tt.values.astype(float)], nd=7)
    R.nontrivial = ref["populated"] >= 2 and bool(np.any(ref["cols"]["gA"] != 0))
    return R


# ================================================================================= C17.firstframe
# L2: trajectories whose FIRST frame is of another class than the later ones - orthogonal cell first and tilted cells later (a shear run started
# from the undeformed box) and the reverse, at constant edge lengths; a dilute first frame (few pairs inside r_m) followed by clustered ones and the
# reverse; a first frame without any neighbour followed by ragged lists.  Whatever is decided once from frame 0 and reused shows here only.
FF_TOPO4 = {
    "empty>ragged": [[[], [], [], []], [[1], [0, 2, 3], [1], []], [[3, 2, 1], [2], [0], [1, 0]]],
    "one>full": [[[1], [0], [3], [2]], [[1, 2, 3], [0, 2, 3], [0, 1, 3], [0, 1, 2]], [[2], [3, 0], [], [0, 1, 2]]],
    "full>one": [[[1, 2, 3], [0, 2, 3], [0, 1, 3], [0, 1, 2]], [[1], [0], [3], [2]], [[], [], [], [2]]],
    "ragged>empty": [[[3, 2, 1], [2], [0], [1, 0]], [[], [], [], []], [[], [3], [], []]],
}


def gen_firstframe(tier, seed):
    q = tier == "quick"
    k = 0
    for d in (2, 3):
        for cs in ("orth>tri", "tri>orth", "o>t>o"):
            for F in (2, 3):
                if cs == "o>t>o" and F == 2:
                    continue
                for N in (3, 4, 5):
                    for spread in ("cluster", "gas>cluster", "cluster>gas"):
                        sp = {"cluster": [0.45] * F, "gas>cluster": [1.0] + [0.45] * (F - 1), "cluster>gas": [0.45] + [1.0] * (F - 1)}[spread]
                        for (rd, nd) in ((0.05, 20), (0.1, 40)):
                            rm = (nd - 1) * rd + rd / 2
                            Hs = Y.cells(S2_L[d], cs, F)
                            for m in A.masks(d):
                                if not any(m):
                                    continue  # no periodic axis: the cell does not enter
                                fr = s2_frames(seed, d, N, sp, "ff", F, np.array(Hs))
                                if not all(G.s2_admissible(p, H, m, rm) for p, H in zip(fr, Hs)):
                                    continue
                                for sk in ("k1", "k2a"):
                                    k += 1
                                    if q and k % 3:
                                        continue
                                    types = [1] * N if sk == "k1" else [2] + [1] * (N - 1)
                                    c = {"part": "s2", "d": d, "cellseq": cs, "cell": cs, "N": N, "spread": sp, "tag": "ff", "F": F, "rd": rd, "nd": nd, "ppp": m, "sig": sk,
                                         "types": types, "savegr": bool(k % 2), "seed": seed}
                                    if sk == "k2a":
                                        c["swap"] = True
                                    yield c
    for cs in ("orth>tri", "tri>orth", "o>t>o"):
        for F in (2, 3):
            if cs == "o>t>o" and F == 2:
                continue
            for N in (5, 6, 8):
                for tag in range(2 if q else 6):
                    for m in A.masks(3):
                        if not any(m):
                            continue
                        yield {"part": "tetra", "kind": "generic", "cell": "orth", "cellseq": cs, "N": N, "tag": f"ff{tag}", "ppp": m, "F": F, "seed": seed}
    for name in FF_TOPO4:
        for F in (2, 3):
            for k0 in range(8):
                for k1 in (range(0, 8, 2) if q else range(8)):
                    ks = [[(k0 + 3 * f) % 8, (k1 + f) % 8, (k0 + k1 + 5 * f + 1) % 8, (2 * k0 + k1 + 2 * f + 3) % 8] for f in range(F)]
                    yield {"part": "nematic", "N": 4, "topo": 0, "ks": ks, "tf": [list(x) for x in FF_TOPO4[name][:F]], "class": name, "seed": seed}


def gen_unwrapped(tier, seed):
    """L7: the small S2 / tetrahedral alphabets with particles displaced by n H, n in {0,+2,-3,+4} per particle and axis (periodic axes only)"""
    q = tier == "quick"
    for d in (2, 3):
        for cell in ("orth", "tri"):
            H = s2_cell(d, cell)
            for N in (3, 4, 5):
                for spread in (0.45, 1.0):
                    for F in (1, 2):
                        frames = s2_frames(seed, d, N, spread, "uw", F, H)
                        for (rd, nd) in ((0.05, 20), (0.1, 40)):
                            rm = (nd - 1) * rd + rd / 2
                            for m in A.masks(d):
                                if not any(m) or not all(G.s2_admissible(p, H, m, rm) for p in frames):
                                    continue
                                for sk in ("k1", "k2a"):
                                    if q and sk == "k2a" and F == 2:
                                        continue
                                    types = [1] * N if sk == "k1" else [1 + (i % 2) for i in range(N)]
                                    yield {"part": "s2", "d": d, "cell": cell, "N": N, "spread": spread, "tag": "uw", "F": F, "rd": rd, "nd": nd, "ppp": m, "sig": sk,
                                           "types": types, "savegr": bool((N + F + nd // 20) % 2), "unwrap": True, "seed": seed}
    for cell in ("orth", "tri"):
        for N in (5, 6, 8):
            for tag in range(2 if q else 6):
                for m in A.masks(3):
                    if not any(m):
                        continue
                    for F in (1, 2):
                        yield {"part": "tetra", "kind": "generic", "cell": cell, "N": N, "tag": f"uw{tag}", "ppp": m, "F": F, "unwrap": True, "seed": seed}


def run_firstframe(case):
    if case["part"] == "s2":
        return run_s2(case)
    if case["part"] == "tetra":
        return run_formula(case)
    return run_nematic(case)


# ===================================================================================== C17.forms
# L4 / L5 / L1: exact zeros in the value alphabets, storage types and orders of the input arrays, options that are documented to be irrelevant.
def gen_forms(tier, seed):
    # nematic: exact axis directors (Q has exact zeros and exact +-1/2), stored as float64 / float32 / int64 / int32, C- / Fortran-ordered / strided;
    # Nmax without a neighbour file (irrelevant there) and a position trajectory handed to the constructor (irrelevant for tensor())
    ax = Y.AXIS
    nt = len(topos3())
    for combo in itertools.product(range(4), repeat=3):
        us = [[ax[k] for k in combo], [ax[(k + 1 + i) % 4] for i, k in enumerate(combo)]]
        for form in ("float64", "float32", "int64", "int32", "F", "strided"):
            for t in (-1, (7 * sum(combo) + 3) % nt, nt - 1):
                c = {"part": "nematic", "N": 3, "topo": t, "us": us, "form": form, "seed": seed}
                if t < 0:
                    c["nmax"] = 1 + sum(combo) % 2  # documented as the maximum number of NEIGHBOURS: nothing to cap without a list
                    c["posdecoy"] = True
                yield c
    mix = [[0.6, 0.8], [-0.8, 0.6], [0.0, 1.0], [0.28, -0.96]]  # exact in binary up to 1 ulp of the norm; float32 storage changes the values (reference uses the stored ones)
    for shift in range(4):
        us = [[mix[(shift + i) % 4] for i in range(3)], [mix[(shift + 2 * i + 1) % 4] for i in range(3)]]
        for form in ("float64", "float32", "F"):
            for t in (-1, 5, nt - 1):
                yield {"part": "nematic", "N": 3, "topo": t, "us": us, "form": form, "posdecoy": t < 0, "seed": seed}
    # S2 / tetrahedral: positions Fortran-ordered / strided, species as int32 / int64 / float-valued integers, ppp as int32 / int64 / int8,
    # widths as float32 (values exact in float32), a particle exactly at the origin / on a face of the cell
    for d in (2, 3):
        for cellname in ("orth", "tri"):
            for form in ("F", "strided", "types_i32", "types_f64", "ppp_i32", "ppp_i8", "sig_f32", "origin", "face"):
                for K in (1, 2):
                    for N in (3, 4):
                        yield {"part": "s2", "d": d, "cell": cellname, "N": N, "K": K, "form": form, "F": 2, "seed": seed}
    for cellname in ("orth", "tri"):
        for form in ("F", "strided", "ppp_i32", "ppp_i8", "origin", "face"):
            for N in (5, 7):
                for m in ([1, 1, 1], [1, 0, 1]):
                    yield {"part": "tetra", "cell": cellname, "N": N, "form": form, "ppp": m, "F": 2, "seed": seed}
    # gyration: integer-typed and float32 positions (values exact in both)
    for d in (2, 3):
        n = 3 ** d
        for N in (2, 3, 4):
            for sub in list(itertools.combinations(range(n), N))[:: (11 if d == 3 else 3)]:
                for form in ("int64", "int32", "float32"):
                    yield {"part": "gyration", "kind": "lattice", "d": d, "subset": list(sub), "scale": 1.0, "form": form, "seed": seed}


FORM_SIG = {1: [[0.5]], 2: [[0.5, 0.375], [0.375, 0.25]]}  # exact in float32


def _reform_positions(snaps, form, special=None):
    """a Snapshots object with the same content whose position arrays are stored in another way"""
    from PyMatterSim.reader.reader_utils import SingleSnapshot, Snapshots

    out = []
    for s_ in snaps.snapshots:
        a = s_.positions
        n, d = a.shape
        if form == "F":
            a = np.asfortranarray(a)
        elif form == "strided":
            big = np.full((n, 2 * d), -3.25)
            big[:, ::2] = a
            a = big[:, ::2]
        t = s_.particle_type
        if form == "types_i32":
            t = t.astype(np.int32)
        elif form == "types_f64":
            t = t.astype(np.float64)
        out.append(SingleSnapshot(s_.timestep, s_.nparticle, t, a, s_.boxlength, s_.boxbounds, s_.realbounds, s_.hmatrix))
    return Snapshots(len(out), out)


def run_forms(case):
    part = case["part"]
    if part == "nematic":
        return run_nematic(case)
    if part == "gyration":
        return run_gyration(case)
    R = Result()
    form, F, N = case["form"], case["F"], case["N"]
    d = case["d"] if part == "s2" else 3
    Ld = S2_L[d] if part == "s2" else F_L
    tilts = None if part == "s2" else T_TILT
    H = Y.cell(Ld, case["cell"], tilts)
    ppp_l = case.get("ppp") or [1] * d
    sg = {"part": part, "d": d, "cell": case["cell"], "form": form}
    frames = None
    for tag in range(40):
        fr = [np.array(A.generic_points(case["seed"], N, d, tag=f"c17fo{part}{N}{d}t{tag}f{f}_")) for f in range(F)]
        if part == "s2":
            fr = [0.5 + 0.45 * (x - 0.5) for x in fr]
        if form == "origin":
            fr[0][0, :] = 0.0  # exactly at the origin of the cell
            fr[1][N - 1, :] = 0.0
        elif form == "face":
            fr[0][N - 1, 0] = 0.0  # on the face x = 0 (fractional coordinate exactly 0)
            fr[1][0, d - 1] = 0.0
        fr = [x @ H for x in fr]
        ok = all(min(frac_tie_margin(p - p[i], H, ppp_l) for i in range(N)) >= 1e-9 for p in fr)
        if ok and part == "s2":
            ok = all(G.s2_admissible(p, H, ppp_l, 0.975) for p in fr)
        if ok and part == "tetra":
            ok = all(G.ref_tetra(p, H, ppp_l)[2] >= 1e-9 for p in fr)
        if ok:
            frames = fr
            break
    if frames is None:
        return R.screen()
    ppp = np.array(ppp_l, dtype={"ppp_i32": np.int32, "ppp_i8": np.int8}.get(form, np.int64))
    if part == "s2":
        from PyMatterSim.static.pairentropy import S2

        K = case["K"]
        base = [1] * N if K == 1 else [1 + (i % 2) for i in range(N)]
        types_f = [base, base[::-1]] if K == 2 else [base, base]
        sigm = np.array(FORM_SIG[K])
        sig_in = sigm.astype(np.float32) if form == "sig_f32" else sigm.copy()
        rt = 2e-6 if form == "sig_f32" else RT
        refs, grs = [], []
        for f, p in enumerate(frames):
            s2, info = G.ref_s2(p, H, types_f[f], sigm, ppp_l, 0.05, 20)
            if info["margin"] < 1e-9 or min(info["nneigh"]) == 0 or not (info["gmin"] > 1e-290):
                return R.screen()
            refs.append(s2)
            grs.append(G.ref_s2_gr(p, H, types_f[f], sigm, ppp_l, 0.05, 20))
        refs, grs = np.array(refs), np.array(grs)
        snaps = _reform_positions(mk_snaps([p.tolist() for p in frames], H, types_f), form)
        before = [s_.positions.copy() for s_ in snaps.snapshots]
        out = S2(snaps, sig_in, ppp, 0.05, 20).particle_s2(savegr=True)
        for fn in ("particle_gr..npy", "particle_gr.npy"):
            if os.path.exists(fn):
                os.remove(fn)
        got, pgr = np.asarray(out[0]), np.asarray(out[1])
        if got.shape != refs.shape or not np.allclose(got, refs, rtol=rt, atol=AT if rt == RT else 1e-6):
            R.fail(f"S2 with input form '{form}' differs from the documented formula", sig=dict(sg, clause="s2"), exp=refs, obs=got)
        if pgr.shape != grs.shape or not np.allclose(pgr, grs, rtol=rt, atol=AT if rt == RT else 1e-6):
            R.fail(f"smeared g with input form '{form}' differs from the documented formula", sig=dict(sg, clause="gr"))
        R.elem = N * F * 21
    else:
        from PyMatterSim.static.geometric import q8_tetrahedral

        refs = np.array([G.ref_tetra(p, H, ppp_l)[0] for p in frames])
        snaps = _reform_positions(mk_snaps([p.tolist() for p in frames], H, [1] * N), form)
        before = [s_.positions.copy() for s_ in snaps.snapshots]
        got = np.asarray(q8_tetrahedral(snaps, ppp=ppp))
        if got.shape != refs.shape or not np.allclose(got, refs, rtol=RT, atol=AT):
            R.fail(f"q_tetrahedral with input form '{form}' differs from 1 - 3/32 sum (cos psi + 1/3)^2", sig=dict(sg, clause="formula"), exp=refs, obs=got)
        R.elem = N * F
    for s_, b in zip(snaps.snapshots, before):
        if not np.array_equal(s_.positions, b):
            R.fail("snapshot positions modified", sig=dict(sg, clause="input_modified"))
    R.outcome(got)
    R.nontrivial = True
    return R


# ================================================================================== C17.sequence
# L6: words over complete calls ("letters") chosen so that pairs collide in plausible incomplete memo keys.  Every word runs in a forked child whose
# library modules are re-imported; oracle: each call returns bit for bit what the same call returns when made FIRST in a fresh child (that single call is
# what the other sub-checks compare with the definitions).  `ref` names the letter whose fresh result a compound letter must reproduce.
def _seq_letters():
    L = []
    s = {"fn": "s2", "d": 3, "cell": "orth", "rd": 0.05, "nd": 20, "K": 1, "tag": "a", "ppp": [1, 1, 1]}
    L.append(dict(s, id="s2a"))
    L.append(dict(s, id="s2b", rd=0.1))                      # same number of bins / other width
    L.append(dict(s, id="s2c", cell="tri"))                  # same cell diagonal / tilted
    L.append(dict(s, id="s2d", d=2, ppp=[1, 1]))             # 2D after 3D
    L.append(dict(s, id="s2e", K=2))                         # same geometry / other species and widths
    L.append(dict(s, id="s2f", tag="b"))                     # same (frames, particles, d) / other content
    L.append(dict(s, id="s2g", corr=True))                   # the S2 object queried further: spatial_corr(False), (True), time_corr
    L.append(dict(s, id="s2h", edit="b", ref="s2f"))         # same object: particle_s2, positions edited IN PLACE to those of s2f, particle_s2 again
    L.append(dict(s, id="s2i", alive="s2b", ref="s2a"))      # a second S2 object (bins of s2b) constructed and evaluated in between
    t = {"fn": "tetra", "cell": "orth", "ppp": [1, 1, 1], "tag": "a"}
    L.append(dict(t, id="te_a"))
    L.append(dict(t, id="te_b", cell="tri"))
    L.append(dict(t, id="te_c", ppp=[1, 0, 1]))
    L.append(dict(t, id="te_d", tag="b"))
    n = {"fn": "nematic", "topo": None, "ev": False, "ks": 0}
    L.append(dict(n, id="ne_a"))
    L.append(dict(n, id="ne_b", topo="A"))
    L.append(dict(n, id="ne_c", topo="B"))                   # same file NAME / other content
    L.append(dict(n, id="ne_d", topo="A", ev=True))
    L.append(dict(n, id="ne_e", ks=1))                       # same shape / other directors
    L.append(dict(n, id="ne_f", topo="A", corr=True))        # tensor, spatial_corr, time_corr on one object
    L.append(dict(n, id="ne_g", topo="A", ks=1))             # neighbour-averaged call on OTHER directors under the output prefix of the plain calls before it
    L.append({"fn": "gyr", "id": "gy_a", "d": 2})
    L.append({"fn": "gyr", "id": "gy_b", "d": 3})            # same N / other dimension
    return L


SEQ_LETTERS = _seq_letters()
SEQ_IDS = [l["id"] for l in SEQ_LETTERS]
SEQ_QUICK = ["s2a", "s2b", "s2c", "s2d", "s2e", "s2g", "s2h", "s2i", "te_a", "te_b", "ne_a", "ne_b", "ne_c", "ne_e", "ne_f", "ne_g", "gy_a", "gy_b"]
SEQ_TOPO = {"A": [[[1], [0, 2], [1]], [[2, 1], [], [0]]], "B": [[[2], [2], [0, 1]], [[1], [0, 2], []]]}
SEQ_KS = [[[0, 3, 5], [6, 1, 4]], [[2, 2, 7], [1, 0, 3]]]


def _seq_s2_inputs(seed, lt, tag=None):
    d = lt["d"]
    H = Y.cell(S2_L[d], lt["cell"])
    frames = [(0.5 + 0.45 * (np.array(A.generic_points(seed, 4, d, tag=f"c17q{d}{tag or lt['tag']}f{f}_")) - 0.5)) @ H for f in range(2)]
    types = [[1, 1, 1, 1]] * 2 if lt["K"] == 1 else [[1, 2, 1, 2], [2, 1, 2, 1]]
    return H, frames, types, np.array(S2_SIG["k1" if lt["K"] == 1 else "k2a"])


def _tab(df):
    return X3.frame_to_json(df)


def _seq_call(seed, lt):
    """one letter -> JSON-able list of everything the call returned"""
    fn = lt["fn"]
    if fn == "s2":
        from PyMatterSim.static.pairentropy import S2

        H, frames, types, sigm = _seq_s2_inputs(seed, lt)
        snaps = mk_snaps([p.tolist() for p in frames], H, types)
        obj = S2(snaps, sigm, np.array(lt["ppp"]), lt["rd"], lt["nd"])
        if lt.get("alive"):
            o = SEQ_LETTERS[SEQ_IDS.index(lt["alive"])]
            H2, fr2, ty2, sg2 = _seq_s2_inputs(seed, o)
            other = S2(mk_snaps([p.tolist() for p in fr2], H2, ty2), sg2, np.array(o["ppp"]), o["rd"], o["nd"])
            other.particle_s2()
        out = [np.asarray(obj.particle_s2(outputfile="s2q.npy")).tolist()]
        if lt.get("edit"):
            _, fr2, _, _ = _seq_s2_inputs(seed, lt, tag=lt["edit"])
            for s_, p in zip(snaps.snapshots, fr2):
                s_.positions[...] = p  # in-place edit of the arrays the object holds
            out = [np.asarray(obj.particle_s2()).tolist()]
        if lt.get("corr"):
            out += [_tab(obj.spatial_corr()), _tab(obj.spatial_corr(mean_norm=True)), _tab(obj.time_corr(dt=0.5))]
        return out
    if fn == "tetra":
        from PyMatterSim.static.geometric import q8_tetrahedral

        H = Y.cell(F_L, lt["cell"], T_TILT)
        frames = [np.array(A.generic_points(seed, 6, 3, tag=f"c17qt{lt['tag']}f{f}_")) @ H for f in range(2)]
        return [np.asarray(q8_tetrahedral(mk_snaps([p.tolist() for p in frames], H, [1] * 6), ppp=np.array(lt["ppp"]), outputfile="q8q.npy")).tolist()]
    if fn == "nematic":
        from PyMatterSim.static.nematic import NematicOrder

        us = [[director(k) for k in row] for row in SEQ_KS[lt["ks"]]]
        nf = ""
        if lt["topo"]:
            nf = "nl_c17q.dat"
            write_neighbor_file(nf, SEQ_TOPO[lt["topo"]])
        so = mk_snaps(us, np.eye(2), [1] * 3)
        sp = None
        if lt.get("corr"):
            Hn = Y.cell(CORR_L2, "tri")
            sp = mk_snaps([(np.array(A.generic_points(seed, 3, 2, tag=f"c17qn{f}_")) @ Hn).tolist() for f in range(2)], Hn, [1] * 3)
        no = NematicOrder(so, sp)
        out = [np.asarray(no.tensor(ndim=2, neighborfile=nf, eigvals=lt["ev"], outputfile="nmq")).tolist(), np.asarray(no.QIJ).tolist()]
        if lt.get("corr"):
            out += [_tab(no.spatial_corr(rdelta=0.25, ppp=np.array([1, 1]))), _tab(no.time_corr(dt=0.5))]
        return out  # the files written under the prefix 'nmq' stay in place for the later calls of the word (a stale file is part of the state)
    from PyMatterSim.static.shape import gyration_tensor

    d = lt["d"]
    p = (np.array(A.generic_points(seed, 5, d, tag=f"c17qg{d}_")) - 0.3) * np.array([1.0, 2.0, 0.5])[:d]
    return [[[complex(v).real, complex(v).imag] for v in gyration_tensor(p)]]


SEQ_FILES = ("nmq.QIJ_raw.npy", "nmq.QIJ_cg.npy", "nmq.eigval.npy", "nmq.Qtrace.npy", "nl_c17q.dat", "s2q.npy", "q8q.npy")


def _seq_eval(case):
    for f_ in SEQ_FILES:
        if os.path.exists(f_):
            os.remove(f_)
    try:
        return [_seq_call(case["seed"], SEQ_LETTERS[k]) for k in case["word"]]
    finally:
        for f_ in SEQ_FILES:
            if os.path.exists(f_):
                os.remove(f_)


SEQ_CORE = ["s2a", "s2b", "s2c", "s2h", "s2i", "te_a", "te_b", "ne_a", "ne_c", "ne_g", "gy_a", "gy_b"]  # letters of the length-3 words (thorough)


def gen_sequence(tier, seed):
    if tier == "quick":
        idx = [SEQ_IDS.index(i) for i in SEQ_QUICK]
    else:
        idx = list(range(len(SEQ_LETTERS)))
    for Lw in (1, 2):
        for word in itertools.product(idx, repeat=Lw):
            yield {"part": "sequence", "word": list(word), "seed": seed}
    if tier != "quick":
        core = [SEQ_IDS.index(i) for i in SEQ_CORE]
        for word in itertools.product(core, repeat=3):
            if len(set(word)) == 1 or len({SEQ_LETTERS[k]["fn"] for k in word}) == 3:
                continue  # length 3: words that return to a routine (a b a) or stay within two routines; three different routines add nothing over the pairs
            yield {"part": "sequence", "word": list(word), "seed": seed}


_SEQ_FRESH = {}


def _same(a, b):
    """bitwise equality of two JSON-able results (lists of floats / tables)"""
    import json as _json

    return _json.dumps(a, sort_keys=True) == _json.dumps(b, sort_keys=True)


def run_sequence(case):
    import json as _json

    R = Result()
    seed = case["seed"]
    names = [SEQ_IDS[k] for k in case["word"]]
    payload = X3.fresh_child(_seq_eval, case, Y.SEQ_MODS)
    if "err" in payload:
        R.fail(f"call sequence {names} raised {payload['err']}", sig={"part": "sequence", "exception": True})
        return R
    need = set()
    for k in case["word"]:
        need.add(SEQ_IDS.index(SEQ_LETTERS[k].get("ref", SEQ_IDS[k])))
    for k in need:
        if (seed, k) not in _SEQ_FRESH:
            one = X3.fresh_child(_seq_eval, {"seed": seed, "word": [k]}, Y.SEQ_MODS)
            if "err" in one:
                R.fail(f"single call {SEQ_IDS[k]} raised {one['err']}", sig={"part": "sequence", "exception": True})
                return R
            _SEQ_FRESH[(seed, k)] = one["ok"][0]
    states = set()
    nel = 0
    for pos_, (k, got) in enumerate(zip(case["word"], payload["ok"])):
        lt = SEQ_LETTERS[k]
        ref = _SEQ_FRESH[(seed, SEQ_IDS.index(lt.get("ref", lt["id"])))]
        if not _same(got, ref):
            R.fail(f"call #{pos_ + 1} ({lt['id']}: {lt['fn']}) of the sequence {names} differs from the call {lt.get('ref', lt['id'])} made first in a fresh process "
                   f"(earlier calls: {names[:pos_]})", sig={"part": "sequence", "fn": lt["fn"], "position": "later" if pos_ else "first", "compound": "ref" in lt},
                   exp=str(ref)[:300], obs=str(got)[:300])
        states.add(_json.dumps(got, sort_keys=True)[:4000])
        nel += len(_json.dumps(got)) // 20
    R.outcome(sorted(states), nd=9)
    R.states = len(case["word"]) + 1
    R.transitions = len(case["word"])
    R.elem = nel
    R.nontrivial = True
    return R


# ==================================================================================== C17.dilation
# L9 absolute scale: every length multiplied by 2^-33 / 2^27 (exact in binary floating point).  S2 is scale-free when positions, cell, rdelta and the Gaussian widths are
# all scaled (rho r^d is dimensionless); q_tetrahedral is scale-free; the gyration descriptors scale as Rg ~ s, asphericity / acylindricity ~ s^2, anisotropy ~ 1,
# fractal dimension = log N / log Rg(s).  Compared with the library's own result on the undilated input (which the other sub-checks compare with the definitions).
DILATIONS = [2.0 ** -33, 2.0 ** 27]


def gen_dilation(tier, seed):
    for si in range(len(DILATIONS)):
        for d in (2, 3):
            for cell in ("orth", "tri"):
                for N in (3, 4):
                    for K in (1, 2):
                        for m in A.masks(d):
                            if not any(m):
                                continue
                            for F in (1, 2):
                                yield {"part": "s2", "d": d, "cell": cell, "N": N, "K": K, "ppp": m, "F": F, "dil": si, "seed": seed}
        for cell in ("orth", "tri"):
            for N in (5, 6, 8):
                for m in A.masks(3):
                    for F in (1, 2):
                        yield {"part": "tetra", "cell": cell, "N": N, "ppp": m, "F": F, "dil": si, "seed": seed}
        for d in (2, 3):
            for N in (3, 5, 8):
                for tag in range(3):
                    yield {"part": "gyration", "kind": "generic", "d": d, "N": N, "tag": tag, "scale": 0.5, "dil": si, "seed": seed}


def run_dilation(case):
    R = Result()
    sc = DILATIONS[case["dil"]]
    part = case["part"]
    sg = {"part": part, "scale": "tiny" if sc < 1 else "huge"}
    if part == "gyration":
        from PyMatterSim.static.shape import gyration_tensor

        p = gyr_points(case)
        N, d = p.shape
        base = [complex(v).real for v in gyration_tensor(p)]
        got = [complex(v) for v in gyration_tensor(p * sc)]
        pw = [1, 2, 2, 0] if d == 3 else [1, 2]
        lam_scale = base[0] ** 2
        for k, e in enumerate(pw):
            want = base[k] * sc ** e
            tol = 1e-9 * abs(want) + (1e-11 * lam_scale * sc ** 2 if e == 2 else 0.0) + (1e-9 if e == 0 else 0.0)
            if not abs(got[k].real - want) <= tol or abs(got[k].imag) > tol:
                R.fail(f"gyration descriptor #{k} of the cloud scaled by {sc} = {got[k]!r}, undilated value x scale^{e} = {want!r}", sig=dict(sg, clause="gyration", d=d, index=k))
        rg = got[0].real
        if abs(math.log10(rg)) > 1e-3 and not abs(got[-1].real * math.log10(rg) - math.log10(N)) <= 1e-9 * (1 + abs(got[-1].real)):
            R.fail(f"fractal dimension of the cloud scaled by {sc} = {got[-1]!r} != log N / log Rg", sig=dict(sg, clause="fractal", d=d))
        R.elem = len(got)
        R.outcome(np.array(base))
        R.nontrivial = True
        return R
    d = case["d"] if part == "s2" else 3
    N, F = case["N"], case["F"]
    ppp = np.array(case["ppp"])
    sg.update(d=d, cell=case["cell"], masked=bool((ppp == 0).any()))
    if part == "s2":
        from PyMatterSim.static.pairentropy import S2

        H = Y.cell(S2_L[d], case["cell"])
        frames = None
        for tag in range(20):
            fr = [(0.5 + 0.45 * (np.array(A.generic_points(case["seed"], N, d, tag=f"c17dl{N}{d}t{tag}f{f}_")) - 0.5)) @ H for f in range(F)]
            if all(G.s2_admissible(p, H, case["ppp"], 0.975) and min(frac_tie_margin(p - p[i], H, ppp) for i in range(N)) > 1e-9 for p in fr):
                frames = fr
                break
        if frames is None:
            return R.screen()
        K = case["K"]
        types = [1] * N if K == 1 else [1 + (i % 2) for i in range(N)]
        sigm = np.array(S2_SIG["k1" if K == 1 else "k2a"])
        base = np.asarray(S2(mk_snaps([p.tolist() for p in frames], H, types), sigm, ppp, 0.05, 20).particle_s2())
        got = np.asarray(S2(mk_snaps([(p * sc).tolist() for p in frames], H * sc, types), sigm * sc, ppp, 0.05 * sc, 20).particle_s2())
        what = "S2 (positions, cell, rdelta and widths"
    else:
        from PyMatterSim.static.geometric import q8_tetrahedral

        H = Y.cell(F_L, case["cell"], T_TILT)
        frames = None
        for tag in range(20):
            fr = [np.array(A.generic_points(case["seed"], N, 3, tag=f"c17dt{N}t{tag}f{f}_")) @ H for f in range(F)]
            if all(G.ref_tetra(p, H, ppp)[2] > 1e-6 and min(frac_tie_margin(p - p[i], H, ppp) for i in range(N)) > 1e-9 for p in fr):
                frames = fr
                break
        if frames is None:
            return R.screen()
        base = np.asarray(q8_tetrahedral(mk_snaps([p.tolist() for p in frames], H, [1] * N), ppp=ppp))
        got = np.asarray(q8_tetrahedral(mk_snaps([(p * sc).tolist() for p in frames], H * sc, [1] * N), ppp=ppp))
        what = "q_tetrahedral (positions and cell"
    if got.shape != base.shape or not np.allclose(got, base, rtol=1e-9, atol=1e-11):
        R.fail(f"{what} multiplied by {sc}) differs from the undilated result: max |diff| = {np.abs(got - base).max() if got.shape == base.shape else 'shape'}",
               sig=dict(sg, clause="scale_free"), exp=base, obs=got)
    R.elem = base.size
    R.outcome(base)
    R.nontrivial = True
    return R


def subs(tier, seed):
    return [
        Sub("C17.s2", gen_s2, run_s2,
            rule="d in {2,3} x cell {orth, tri} x N in {3,4,5} x {cluster, gas} generic placements (" + ("2" if tier == "quick" else "6")
                 + " per class, kept iff every particle has a pair inside r_m and no distance within 1e-6 of r_m) x 1-2 frames x bins "
                 "(rdelta, ndelta) in {0.05,0.1}x{20,40} x all masks x width matrices K=1, two K=2 x type maps (all 6 surjections for N=3); "
                 "S2 (and the smeared g when savegr) vs literal transcription; non-trivial = N >= 4 or some pair outside r_m",
            bounds={"N": [3, 5], "bins": S2_BINS}),
        Sub("C17.tetra.perfect", gen_perfect, run_perfect,
            rule="centre + regular tetrahedron: all 24 vertex orders x 3 scales x 3 orientations x centre index x {box centre, straddling the "
                 "periodic corner} x 0-2 farther particles on the admissible sites of a jittered 3^3 lattice ("
                 + ("0-1 far: full product with 3 centre indices; 2 far: all pairs of sites x orders x scales x orientations; far particles appended or prepended" if tier == "thorough" else "0-1 far: full product; all pairs of sites for one scale/orientation (24 orders at the box centre, 4 at the corner)")
                 + ") + all masks; q(centre) == 1 to 1e-12 and equal to the value without the far particles",
            bounds={"orders": 24, "scales": 3, "rotations": 3, "far": "0..2 of 26/27 sites"}),
        Sub("C17.tetra.formula", gen_formula, run_formula,
            rule="generic N = 5..8 (" + ("4" if tier == "quick" else "12") + " placements each) x {orth, tri} x all masks x 1-2 frames; all 5,6,7-subsets "
                 "of a jittered 2^3 lattice; every particle vs 1 - 3/32 sum_{j<k}(cos psi_jk + 1/3)^2 over its four nearest",
            bounds={"N": [5, 8]}),
        Sub("C17.tetra.four_nearest", gen_four, run_four,
            rule="for every configuration with N >= 6 and every particle j: delete j, every particle that did not have j among its four nearest "
                 "keeps its value to 1e-12 (inner search: N+1 states per configuration)",
            bounds={"N": [6, 8]}),
        Sub("C17.nematic", gen_nematic, run_nematic,
            rule="N=3: all 8^3 director assignments (k pi/8) x {no file, all 64 neighbour topologies} x both eigvals settings"
                 + (" (k2 runs over the eight frames of one call)" if tier == "quick" else " (one call each); N=4: all 4096 topologies x 8 assignments, all 8^4 assignments x 3 topologies")
                 + "; frame sequences with a different topology per frame; sub-checks nematic.tensor (QIJ) and nematic.scalar "
                 "(sqrt(2 tr Q^2), 2 lambda_max, their equality)",
            bounds={"directors": 8, "N": [3, 4 if tier == "thorough" else 3]}),
        Sub("C17.gyration", gen_gyration, run_gyration,
            rule="all N-subsets (N=2..4) of the 3^2 and 3^3 integer lattices x scales {1, 0.5, 3}; all N-subsets of jittered 3^d lattices; "
                 "generic clouds N=5..8; every descriptor vs the documented function of eigvalsh(S) plus eigen-free invariants "
                 "(Rg^2 = tr S, kappa^2 = 3/2 tr S^2/(tr S)^2 - 1/2); non-trivial = N > 2",
            bounds={"N": [2, 8]}),
        Sub("C17.corr", gen_corr, run_corr,
            rule="the correlation methods of the anchored classes on small multi-frame inputs.  S2: d in {2,3} x cell class per frame {orthogonal, triclinic, "
                 "orthogonal first then tilted, tilted first then orthogonal} (constant edge lengths) x N in {3,4} x (2 frames, 3 evenly spaced, 3 unevenly spaced) x {clustered, "
                 "dilute first frame then clustered} x K in {1, 2 with the species labels reversed in every second frame} x {periodic, one periodic axis} x bins (0.05,20),(0.1,20)"
                 + (" (every second combination)" if tier == "quick" else "") + ": spatial_corr(mean_norm False / True / False again) = frame mean of the C13 conditional g(r) "
                 "(mc/ref/c04c13.cond_gr_loops) of the reference S2 values, each frame divided by ITS OWN mean when mean_norm; time_corr = C14 model (mc/ref/dyn.ref_time_corr); "
                 "CSV files (%.8f / %.6f).  nematic: N in {3,4} x the same frame / cell classes for the position trajectory x neighbour lists {none, same per frame, none in "
                 "frame 0 then ragged, ragged then none} x directors {k pi/8 table, exact axis directors and (0.6,0.8)} x rdelta in {0.25,0.2} x masks: spatial_corr = frame mean of "
                 "the tensor-weighted pair histogram (trace of the product), time_corr = C14 tensor model; non-trivial = >= 2 populated bins and a non-constant field",
            bounds={"N": [3, 4], "frames": [2, 3]}),
        Sub("C17.firstframe", gen_firstframe, run_firstframe,
            rule="L2: trajectories whose FIRST frame is of another class than the later ones.  S2: d in {2,3} x {orthogonal then tilted (two different tilts), tilted then "
                 "orthogonal, orthogonal-tilted-orthogonal} at constant edge lengths x F in {2,3} x N in {3,4,5} x {clustered, dilute first frame then clustered, clustered then dilute} "
                 "x bins x all masks with a periodic axis x K in {1, 2 with reversed labels in frame 1}" + (" (every third combination)" if tier == "quick" else "")
                 + "; tetrahedral: the same cell sequences x N in {5,6,8} x " + ("2" if tier == "quick" else "6") + " placements x masks; nematic N=4: neighbour files whose first frame "
                 "has no / one / all neighbours per particle and later frames are ragged (4 classes) x 8 x " + ("4" if tier == "quick" else "8") + " director tables x F in {2,3}; same "
                 "oracles as C17.s2 / C17.tetra.formula / C17.nematic",
            bounds={"cell_sequences": ["orth>tri", "tri>orth", "o>t>o"], "topology_classes": list(FF_TOPO4)}),
        Sub("C17.unwrapped", gen_unwrapped, run_firstframe,
            rule="L7: S2 (d in {2,3} x {orthogonal, triclinic} x N in {3,4,5} x {cluster, gas} x F in {1,2} x bins x masks with a periodic axis x K in {1,2}) and tetrahedral order "
                 "(N in {5,6,8} x cells x masks x F in {1,2}, " + ("2" if tier == "quick" else "6") + " placements) with particles displaced by whole cell vectors n H, n in {0,+2,-3,+4} "
                 "per particle and axis, zero on non-periodic axes (frame 0 of a two-frame input stays folded); oracle = the reference of the FOLDED input (C17.corr carries the same "
                 "for the position trajectories of the correlation methods)",
            bounds={"n": Y.UNWRAP_N}),
        Sub("C17.forms", gen_forms, run_forms,
            rule="L4 / L5 / L1: nematic N=3 with all 4^3 assignments of the EXACT axis directors (+-1,0),(0,+-1) (2 frames) stored as float64 / float32 / int64 / int32 / Fortran-"
                 "ordered / strided x {no file with Nmax in {1,2} and a decoy position trajectory, two topologies}; exact non-axis unit vectors (0.6,0.8).. as float64 / float32 / F; "
                 "S2 (d in {2,3}, orthogonal / triclinic, N in {3,4}, K in {1,2}) and tetrahedral (N in {5,7}) with positions Fortran-ordered / strided, species as int32 / float64, ppp "
                 "as int32 / int8, widths as float32 (values exact in float32; tolerance 2e-6), a particle exactly at the cell origin / on a cell face; gyration of integer lattice "
                 "subsets stored as int64 / int32 / float32",
            bounds={"forms": ["float64", "float32", "int64", "int32", "F", "strided"]}),
        Sub("C17.sequence", gen_sequence, run_sequence,
            rule="L6 explicit-state search over CALL SEQUENCES: all words of length <= 2 over " + ("18" if tier == "quick" else "22 complete calls and all words of length 3 over a core of 12 (that "
                 "return to a routine or stay within two routines)") + " complete calls (S2: same bin count / other "
                 "width, same diagonal / tilted, 2D / 3D, other species, other content, the object queried for spatial_corr / time_corr, the object's position arrays edited in "
                 "place between two particle_s2 calls, a second S2 object evaluated in between; tetrahedral: orthogonal / tilted / masked / other content; nematic: no file, the same "
                 "file NAME with two contents, eigvals, other directors, tensor + spatial_corr + time_corr, a neighbour-averaged call on other directors under the SAME output prefix "
                 "as the plain calls; gyration 2D / 3D; S2 / tetrahedral / nematic write their output files under fixed names that are left in place within a word), each word in a forked "
                 "child with re-imported library modules; every call must return bit for bit what the same call returns when made first in a fresh child",
            bounds={"depth": 2 if tier == "quick" else 3, "letters": len(SEQ_QUICK) if tier == "quick" else len(SEQ_LETTERS)}),
        Sub("C17.dilation", gen_dilation, run_dilation,
            rule="L9 absolute scale: all lengths multiplied by 2^-33 and 2^27 (exact).  S2 (d in {2,3} x {orthogonal, TILTED} x N in {3,4} x K in {1,2} x masks with a periodic "
                 "axis x F in {1,2}; positions, cell, rdelta and Gaussian widths scaled: S2 is scale-free), q_tetrahedral (N in {5,6,8} x {orthogonal, tilted} x all masks x F in "
                 "{1,2}: scale-free), gyration (Rg ~ s, asphericity and acylindricity ~ s^2, anisotropy ~ 1, fractal dimension = log N / log Rg): the library on the dilated input "
                 "vs the library on the undilated input mapped through the power (1e-9 relative); the nematic tensor takes unit vectors only (no length enters)",
            bounds={"scales": ["2^-33", "2^27"]}),
        Sub("C17.scale", gen_scale, run_scale,
            rule="SIZE slice (enumerates sizes, ONE fixed value pattern per size and pattern row).  S2: N in " + str(SC_N[tier]) + " x 5 rows {2D, 3D} x K in {1,2,3} (species-by-id "
                 "rotated per frame, same composition, one species with a single member) x cells {orthogonal with shortest edge y, triclinic of either sign, tilt changing per frame} x "
                 "bins 63/64/65/129 x masks x F in {1,2,3}, every S2 value (and every smeared g entry when savegr).  tetrahedral: N in " + str(SC_N_TETRA[tier]) + " x 4 rows {orthogonal "
                 "with shortest edge y / z, triclinic, tilt changing per frame} x masks x F in {1,2,3}.  nematic: N in " + str(SC_N_NEM[tier]) + " generic directors x {no file, ragged lists "
                 "cn 0..14 changing per frame (maximum attained by the first / last particle only), Nmax 30 / 14} x both eigvals settings.  gyration: N in " + str(SC_N_GYR[tier])
                 + " points x {2D, 3D} x {C-ordered, Fortran-ordered, non-contiguous view}.  Output files of S2 / q_tetrahedral on one row each.  All compared entry by entry with vectorised references (mc/ref/c17x.py) resp. the loop reference",
            bounds={"N_s2": SC_N[tier], "N_tetra": SC_N_TETRA[tier], "N_nematic": SC_N_NEM[tier], "N_gyration": SC_N_GYR[tier]}),
    ]
