"""C16 - coarse graining: spatial_average, gaussian_blurring, time_average (E1).

Round 4 subs: C16.forms (storage types of the property / condition arrays, documented argument forms, options that are ignored in a
mode), C16.zeros (exact zeros in the value alphabets, a particle exactly on a grid node / a box face), C16.sequence (call words)."""
import itertools
import json
import os
from decimal import Decimal

import numpy as np

from mc import alphabets as A
from mc.harness import Result, Sub
from mc.ref.base import frac_tie_margin, mk_snap, write_neighbor_file
from mc.ref import cgorder as G
from mc.ref import c03x as X3
from mc.ref import c16x as X
from mc.ref import c16y as Y

ASSUMPTIONS = [
    "spatial_average: the neighbour file lists every particle once per frame (ids 1-based), coordination numbers <= Nmax "
    "(default 30); property values are float64 or complex128 arrays [F, N, ...] of rank 0..2",
    "gaussian_blurring: orthogonal boxes (the grid spans snapshot.boxbounds; a grid for tilted cells is not documented); "
    "n = 1 points on an axis means the lower bound (numpy.linspace); particles closer than 1e-9 to the cutoff or to a "
    "half-cell tie are screened out; the box may differ from frame to frame (grid positions are per snapshot)",
    "time_average: frames equally spaced; window w = floor(period/interval) evaluated in exact rational arithmetic on the "
    "decimal literals, 1 <= w <= T; the number of returned rows is not stated by the property: any number of consecutive "
    "starts 0,1,.. up to T-w+1 is accepted, at least one whenever w < T; centre index within 1/2 of n+(w-1)/2 (either "
    "middle frame of an even window)",
    "float tolerance rtol 1e-9 / atol 1e-11",
    "C16.scale enumerates SIZES (64..257 particles, grids of 221..765 points, 63..130 frames, windows 2..100) with one fixed value pattern "
    "per size; spatial_average there reads harness-written formula lists (0..4 neighbours, one particle with 30 = default Nmax; Nmax is also "
    "passed equal to the largest coordination number); coordination numbers never exceed Nmax; output files (np.save) must hold the "
    "returned arrays; gaussian_blurring called without sigma / ppp / gaussian_cut uses the documented defaults 2.0 / periodic in every "
    "direction / 6.0",
    "C16.forms: the statement speaks of real / complex per-particle properties, not of float64: a property stored as float32 / complex64 is averaged "
    "within 2e-6 (relative to the input scale); integer-valued properties (int64 / int32 / uint8 counts, 0/1 or bool indicators) have the same means "
    "as their float64 copies (KNOWN_OPEN: the unchanged tree truncates / raises for spatial_average, see the top of the check); the condition of "
    "gaussian_blurring is documented as 'type should be float': complex conditions are NOT demanded (the library discards the imaginary part with a "
    "ComplexWarning); `ppp` is 'setting 1 for yes and 0 for no': any sequence of 0/1 (list, tuple, bool / float array); for a two-dimensional system "
    "only the first two entries of ppp are used (the documented default has three); ngrids may be a list / tuple; gaussian_cut = 0 means an empty "
    "neighbourhood (all grid values 0), not the default; dt / period are python or numpy float64 numbers (a float32 dt is not demanded: 100 * "
    "float32(0.002) is not 0.2)",
    "C16.forms (L9, absolute scale): spatial_average is linear (values x 2^-33 / 2^27 -> means scaled exactly); gaussian_blurring with box, "
    "coordinates, sigma and cutoff dilated by s = 2^-33 / 2^27 returns the grid x s and the field / s (normalised Gaussian 1/sqrt(2 pi sigma^2)); "
    "time_average with dt = 2e-18 / 2e6 (frame interval 2e-16 / 2e8) and timesteps offset by 2e9 / 1e12 has the same windows as the rational "
    "floor(period / interval)",
    "C16.forms (unwrapped): particles displaced by whole box lengths along periodic axes give the same grid field (minimum-image distances)",
    "C16.sequence: results must not depend on earlier calls in the process nor on whether the argument arrays / the Snapshots object were used "
    "(and edited in place) before; L3 (per-frame selection masks) does not apply: none of the three routines takes a selection",
]

RT, AT = 1e-9, 1e-11
FT = 2e-6   # single-precision storage (float32 / complex64 input): tolerance relative to the largest input magnitude

# ============================================================================================================================
# KNOWN_OPEN - slices that expose a GENUINE DEFECT of the unchanged tree that has not been repaired yet.  They are enumerated only
# when their name is NOT listed here (or when VERIF_IGNORE_KNOWN_OPEN=1), so the registered check stays silent.  Remove the entry
# once the repair is committed in /repo.
#   "C16.forms.spatial_integer": spatial_average accumulates in a copy of the input array, so an integer-valued property (0/1
#       indicator, integer counts, bool) is averaged in INTEGER arithmetic: scalars are silently truncated (the in-place true division
#       of a scalar element is cast back to the integer dtype), vectors / tensors raise UFuncTypeError ("Cannot cast ufunc 'divide'
#       output from dtype('float64') to dtype('int64')"), a bool indicator comes back as all True.
#       Witness: x = np.array([[0, 1, 2]]) with the one-frame neighbour file "1 2 2 3 / 2 1 1 / 3 0" returns [1, 0, 2]; the means over a
#       particle and its listed neighbours are [1.0, 0.5, 2.0].
#       Proposed repair (coarse_graining.py, spatial_average):
#           cg_input_property = np.array(input_property, dtype=np.result_type(input_property.dtype, np.float64))
KNOWN_OPEN = []  # "C16.forms.spatial_integer" was repaired by /repo commit f019c49 (known_findings.json: fixed)
# ============================================================================================================================


def is_open(name):
    return name in KNOWN_OPEN and not os.environ.get("VERIF_IGNORE_KNOWN_OPEN")


def gval(seed, tag, comp=0, amp=1.0):
    return A.jitter(seed, tag, comp, amp)


# ============================================================================== spatial_average
def _topos(n):
    return list(G.all_topologies(n, allow_empty=True))


_TOPO_CACHE = {}


def topos(n):
    if n not in _TOPO_CACHE:
        _TOPO_CACHE[n] = _topos(n)
    return _TOPO_CACHE[n]


def gen_spatial(tier, seed):
    # N = 3: full product
    n3 = len(topos(3))
    for t in range(n3):
        for rank in (0, 1, 2):
            for F in (1, 2, 3):
                for dt in ("float", "complex"):
                    for rev in ((False, True) if tier == "thorough" else (False,)):
                        yield {"N": 3, "topo": t, "rank": rank, "F": F, "dtype": dt, "rev": rev, "pdim": 2, "seed": seed}
    n4 = len(topos(4))
    for t in range(n4):
        if tier == "quick":
            # every topology once; rank / F / dtype cycle with the index (all 18 combinations occur 227 times)
            c = t % 18
            yield {"N": 4, "topo": t, "rank": c % 3, "F": 1 + (c // 3) % 3, "dtype": "float" if c < 9 else "complex", "rev": False,
                   "pdim": 3, "seed": seed}
        else:
            for rank in (0, 1, 2):
                for F in (1, 2, 3):
                    yield {"N": 4, "topo": t, "rank": rank, "F": F, "dtype": "float" if (t + rank + F) % 2 else "complex",
                           "rev": bool((t // 7) % 2), "pdim": 3, "seed": seed}


def spatial_input(case):
    N, F, rank, pd, seed = case["N"], case["F"], case["rank"], case["pdim"], case["seed"]
    shape = (F, N) + (pd,) * rank
    x = np.zeros(shape, dtype=complex if case["dtype"] == "complex" else float)
    for idx in itertools.product(*[range(s) for s in shape]):
        v = 2.0 * gval(seed, f"sp{idx}", 0) + idx[1]
        if case["dtype"] == "complex":
            v = v + 1j * (2.0 * gval(seed, f"sp{idx}", 1) - idx[0])
        x[idx] = v
    T = topos(N)
    stride = 5 if N == 3 else 611
    frames = [T[(case["topo"] + f * stride) % len(T)] for f in range(F)]
    return x, frames


def write_nl(path, frames, rev):
    if not rev:
        write_neighbor_file(path, frames)
        return
    with open(path, "w") as f:
        for fr in frames:
            f.write("id     cn     neighborlist\n")
            for i in reversed(range(len(fr))):
                f.write(f"{i + 1} {len(fr[i])} " + " ".join(str(j + 1) for j in reversed(fr[i])) + "\n")


def run_spatial(case):
    from PyMatterSim.utils.coarse_graining import spatial_average

    R = Result()
    x, frames = spatial_input(case)
    sig = {"N": case["N"], "rank": case["rank"], "multi_frame": case["F"] > 1, "dtype": case["dtype"]}
    write_nl("nl_c16.dat", frames, case["rev"])
    x0 = x.copy()
    got = spatial_average(x, "nl_c16.dat")
    os.remove("nl_c16.dat")
    ref = G.ref_spatial_average(x0, frames)
    got = np.asarray(got)
    R.elem = int(np.prod(x.shape[:2]))
    if got.shape != ref.shape:
        R.fail(f"shape {got.shape} != {ref.shape}", sig=dict(sig, clause="shape"))
        return R
    if not np.allclose(got, ref, rtol=RT, atol=AT):
        bad = np.argwhere(~np.isclose(got, ref, rtol=RT, atol=AT))[0]
        f, i = int(bad[0]), int(bad[1])
        R.fail(f"frame {f} particle {i} neighbours {frames[f][i]}: got {got[f, i]!r}, expected (x_i + sum_j x_j)/(1+cn) = {ref[f, i]!r}",
               sig=dict(sig, clause="mean", cn0=(len(frames[f][i]) == 0)), exp=ref[f], obs=got[f])
    if not np.array_equal(x, x0):
        R.fail("input property modified", sig=dict(sig, clause="input_modified"))
    R.outcome(got)
    R.nontrivial = any(len(nb) > 0 for fr in frames for nb in fr)
    return R


# ============================================================================ gaussian_blurring
BOX = {
    0: {"lo": [-1.5, 2.0, 0.5], "L": [4.0, 5.0, 6.0]},
    1: {"lo": [1.0, -2.5, 3.0], "L": [5.0, 4.0, 7.0]},
}
CUTS = {"in": 2.5, "out": 12.0}


def gen_blur(tier, seed):
    for d in (2, 3):
        if d == 2:
            vals = (1, 2, 3, 4) if tier == "quick" else (1, 2, 3, 4, 5)
        else:
            vals = (2, 3, 4) if tier == "quick" else (1, 2, 3, 4)
        for ng in itertools.product(vals, repeat=d):
            for N in ((1, 3) if tier == "quick" else (1, 2, 3)):
                for rank in (0, 1, 2):
                    for sg in ((0.5, 2.0) if tier == "quick" else (0.5, 1.0, 2.0)):
                        for cut in ("in", "out"):
                            for m in A.masks(d):
                                if tier == "thorough":
                                    F = 2 if (rank == 0 or N == 3) else 1
                                else:
                                    F = 2 if (rank == 0 and N == 3 and sg == 2.0 and cut == "in" and all(m)) else 1
                                yield {"d": d, "ngrids": list(ng), "N": N, "rank": rank, "sigma": sg, "cut": cut, "ppp": m, "F": F, "seed": seed}


def blur_input(case):
    d, N, F, rank, seed = case["d"], case["N"], case["F"], case["rank"], case["seed"]
    frames = []
    for f in range(F):
        lo = np.array(BOX[f]["lo"][:d])
        L = np.array(BOX[f]["L"][:d])
        fr = np.array(A.generic_points(seed, N, d, tag=f"bl{d}{N}{f}_"))
        pos = lo + fr * L
        frames.append((lo, L, pos))
    shape = (F, N) + (d,) * rank
    cond = np.zeros(shape)
    for idx in itertools.product(*[range(s) for s in shape]):
        cond[idx] = 1.5 + gval(seed, f"bc{idx}", 0) + 0.5 * idx[1] * (-1) ** idx[1]
    return frames, cond


def run_blur(case):
    from PyMatterSim.reader.reader_utils import Snapshots
    from PyMatterSim.utils.coarse_graining import gaussian_blurring

    R = Result()
    d, ng = case["d"], case["ngrids"]
    frames, cond = blur_input(case)
    ppp = np.array(case["ppp"])
    sigma, cut = case["sigma"], CUTS[case["cut"]]
    sig = {"d": d, "rank": case["rank"], "ngrids_distinct": len(set(ng)) > 1, "has_one": 1 in ng, "masked": bool((ppp == 0).any()),
           "multi_frame": case["F"] > 1}
    # reference first (margins decide whether the case is admissible)
    ref_pts, ref_val = [], []
    ncontrib = 0
    for f, (lo, L, pos) in enumerate(frames):
        H = np.diag(L)
        pts = G.ref_grid(np.column_stack((lo, lo + L)), ng)
        vals = []
        for p in pts:
            if frac_tie_margin(np.array(p)[None, :] - pos, H, ppp) < 1e-9:
                return R.screen()
            v, margin, nc = G.ref_blur_at(p, pos, H, ppp, cond[f], sigma, cut)
            if margin < 1e-9:
                return R.screen()
            ncontrib += nc
            vals.append(v)
        ref_pts.append(np.array(pts))
        ref_val.append(np.array(vals))
    ref_pts = np.array(ref_pts)
    ref_val = np.array(ref_val)

    snaps = Snapshots(len(frames), [mk_snap(pos, np.diag(L), [1] * len(pos), lo=lo, ts=100 * f) for f, (lo, L, pos) in enumerate(frames)])
    before = [s.positions.copy() for s in snaps.snapshots]
    cond0 = cond.copy()
    gp, gv = gaussian_blurring(snaps, cond, np.array(ng), sigma, ppp, cut)
    gp, gv = np.asarray(gp), np.asarray(gv)
    npts = int(np.prod(ng))
    R.elem = npts * len(frames)
    if gp.shape != (len(frames), npts, d):
        R.fail(f"grid_positions shape {gp.shape} != {(len(frames), npts, d)}", sig=dict(sig, clause="shape"), sub="C16.blur.grid")
        return R
    if gv.shape != ref_val.shape:
        R.fail(f"grid_property shape {gv.shape} != {ref_val.shape}", sig=dict(sig, clause="shape"), sub="C16.blur.values")
        return R
    for f in range(len(frames)):
        scale = float(np.max(np.abs(ref_pts[f]))) + 1.0
        # (grid) the multiset of rows is the Cartesian product, each point exactly once
        want = sorted(tuple(np.round(p / scale, 10) + 0.0) for p in ref_pts[f])
        have = sorted(tuple(np.round(p / scale, 10) + 0.0) for p in gp[f])
        grid_ok = want == have
        if not grid_ok:
            missing = len(set(want) - set(have))
            R.fail(f"frame {f}: grid rows are not the Cartesian product of the {ng} linspaces ({missing} of {npts} points missing)",
                   sig=dict(sig, clause="grid"), exp=ref_pts[f], obs=gp[f], sub="C16.blur.grid")
        # (index) x slowest
        elif not np.allclose(gp[f], ref_pts[f], rtol=0, atol=1e-10 * scale):
            k = int(np.argmax(np.abs(gp[f] - ref_pts[f]).max(axis=1) > 1e-10 * scale))
            R.fail(f"frame {f}: row {k} is {gp[f, k].tolist()}, expected {ref_pts[f, k].tolist()} (x slowest)",
                   sig=dict(sig, clause="index"), exp=ref_pts[f], obs=gp[f], sub="C16.blur.index")
        # (values) every row's value equals the reference sum at the position reported for that row
        lo, L, pos = frames[f]
        H = np.diag(L)
        for k in range(npts):
            if grid_ok and np.allclose(gp[f, k], ref_pts[f, k], rtol=0, atol=1e-10 * scale):
                v = ref_val[f, k]
            else:
                v, margin, _ = G.ref_blur_at(gp[f, k], pos, H, ppp, cond[f], sigma, cut)
                if margin < 1e-9:
                    continue
            if not np.allclose(gv[f, k], v, rtol=RT, atol=AT):
                R.fail(f"frame {f} grid row {k} at {gp[f, k].tolist()}: value {np.asarray(gv[f, k]).tolist()!r}, reference {np.asarray(v).tolist()!r}",
                       sig=dict(sig, clause="value", cut=case["cut"]), exp=v, obs=gv[f, k], sub="C16.blur.values")
                break
    for s, b in zip(snaps.snapshots, before):
        if not np.array_equal(s.positions, b):
            R.fail("snapshot positions modified", sig=dict(sig, clause="input_modified"), sub="C16.blur.values")
    if not np.array_equal(cond, cond0):
        R.fail("condition array modified", sig=dict(sig, clause="input_modified"), sub="C16.blur.values")
    R.outcome([gp, gv])
    R.nontrivial = ncontrib > 0 and npts > 1
    return R


# ================================================================================= time_average
INTERVALS = [("0.002", 100), ("0.002", 50), ("0.002", 200), ("0.001", 300), ("0.005", 7), ("0.0025", 4)]


def gen_window(tier, seed):
    for T in range(2, 9):
        for dt, dstep in INTERVALS:
            interval = Decimal(dt) * dstep
            for m in range(2, 2 * T + 2):  # period = m/2 intervals: exact multiples (m even) and half-way values
                period = interval * m / 2
                for kind in ("real", "complex"):
                    for N, t0 in ((1, 0), (3, 1000)):
                        if tier == "quick" and (N, kind) in ((1, "complex"), (3, "real")):
                            continue
                        yield {"T": T, "dt": dt, "dstep": dstep, "period": str(period), "kind": kind, "N": N, "t0": t0, "seed": seed}
            # periods that are NOT whole numbers of dt, 0.4 dt below / above an exact multiple of the frame interval (floor must give k-1 / k;
            # rounding the period to whole steps first gives k / k)
            for k in range(1, T + 1):
                for sgn in (-1, 1):
                    period = interval * k + sgn * Decimal(dt) * Decimal("0.4")
                    if period < interval:
                        continue  # a window of zero frames is outside the statement
                    yield {"T": T, "dt": dt, "dstep": dstep, "period": str(period), "kind": "complex", "N": 3, "t0": 1000, "seed": seed}


def run_window(case):
    from PyMatterSim.reader.reader_utils import Snapshots
    from PyMatterSim.utils.coarse_graining import time_average

    R = Result()
    T, N = case["T"], case["N"]
    w = G.ref_window(case["period"], case["dt"], case["dstep"])
    m2 = (Decimal(case["period"]) / (Decimal(case["dt"]) * case["dstep"]))
    exact = m2 == m2.to_integral_value()
    sig = {"exact_multiple": bool(exact), "even_window": w % 2 == 0, "kind": case["kind"]}
    # window-identifying values: sum over frames n..n+w-1 of 2^t is different for every (n, w)
    x = np.zeros((T, N), dtype=complex if case["kind"] == "complex" else float)
    for t in range(T):
        for i in range(N):
            x[t, i] = 2.0**t * (1 + i) + 0.125 * i
            if case["kind"] == "complex":
                x[t, i] += 1j * (3.0**t - 5 * i)
            if case.get("zeros") and (t + i) % 3 == 0:
                x[t, i] = 0.0   # (round 4, L4) exact zeros in the series: they count in the window mean like any other value
    if case.get("zeros"):
        sig["zeros"] = True
    H = np.diag([4.0, 4.0])
    pos = [[1.0 + 0.5 * i, 2.0] for i in range(N)]
    snaps = Snapshots(T, [mk_snap(pos, H, [1] * N, ts=case["t0"] + case["dstep"] * t) for t in range(T)])
    x0 = x.copy()
    res, mid = time_average(snaps, x, float(case["period"]), float(case["dt"]))
    res, mid = np.asarray(res), np.asarray(mid)
    rows = res.shape[0]
    R.elem = max(1, rows)
    R.outcome({"rows": rows, "mid": mid.tolist(), "res": res})
    R.nontrivial = w < T
    if res.ndim != 2 or res.shape[1] != N:
        R.fail(f"result shape {res.shape}", sig=dict(sig, clause="shape"), sub="C16.window.mean")
        return R
    if len(mid) != rows:
        R.fail(f"{len(mid)} centre indices for {rows} rows", sig=dict(sig, clause="count"), sub="C16.window.centre")
        return R
    means = G.ref_window_means(x0, w)  # starts 0..T-w
    if rows > len(means) or (w < T and rows < 1):
        R.fail(f"T={T}, window {w}: {rows} rows returned, admissible 1..{len(means)}", sig=dict(sig, clause="rows"), sub="C16.window.length")
        return R
    for n in range(rows):
        if not np.allclose(res[n], means[n], rtol=RT, atol=AT):
            # which window would explain the observed row?
            expl = None
            for w2 in range(1, T + 1):
                for n2 in range(0, T - w2 + 1):
                    if np.allclose(res[n], x0[n2:n2 + w2].sum(axis=0) / w2, rtol=RT, atol=AT):
                        expl = (n2, w2)
            if expl is not None and expl[1] != w:
                R.fail(f"period {case['period']} / interval {case['dt']}*{case['dstep']}: row {n} is the mean over {expl[1]} frames from {expl[0]}, "
                       f"expected window floor(period/interval) = {w}", sig=dict(sig, clause="length"), exp=w, obs=expl[1], sub="C16.window.length")
            else:
                R.fail(f"row {n} is not the mean over frames {n}..{n + w - 1}" + (f" (it is the mean over {expl[1]} frames from {expl[0]})" if expl else ""),
                       sig=dict(sig, clause="mean"), exp=means[n], obs=res[n], sub="C16.window.mean")
            break
    for n in range(rows):
        c = n + (w - 1) / 2.0
        if abs(float(mid[n]) - c) > 0.5 + 1e-12 or float(mid[n]) != int(mid[n]):
            R.fail(f"window {w} starting at {n}: centre index {mid[n]!r}, central frame is {c}", sig=dict(sig, clause="centre"),
                   exp=[n + (w - 1) // 2, n + w // 2], obs=mid.tolist(), sub="C16.window.centre")
            break
    if not np.array_equal(x, x0):
        R.fail("input property modified", sig=dict(sig, clause="input_modified"), sub="C16.window.mean")
    return R


# ======================================================================================= C16.scale
SCALE_N = [64, 65, 130, 257]
SCALE_GRIDS = [[17, 13], [16, 16], [13, 17], [9, 8, 7], [5, 17, 3], [3, 5, 17]]
SCALE_T = [63, 64, 65, 130]
SCALE_W = [2, 3, 7, 31, 32, 33, 63, 64, 65, 100]
SP_KINDS = ["first", "last", "formula", "wide", "one"]


def gen_scale(tier, seed):
    q = tier == "quick"
    k = 0
    for N in SCALE_N:
        for lk in SP_KINDS:
            for rank in (0, 1, 2):
                for F in (1, 3):
                    k += 1
                    if q and (k + rank) % 2:
                        continue
                    yield {"kind": "spatial", "N": N, "lk": lk, "rank": rank, "F": F, "dtype": "complex" if k % 3 == 0 else "float",
                           "nmax": "equal" if k % 4 == 1 else "default", "save": k % 5 == 0, "seed": seed}
    k = 0
    for ng in SCALE_GRIDS:
        d = len(ng)
        for N in (1, 65, 130):
            for mi, m in enumerate(A.masks(d)):
                for rank in (0, 1, 2):
                    k += 1
                    if q and (k % 4 or (N == 1 and mi)):
                        continue
                    if not q and N == 1 and mi > 1:
                        continue
                    yield {"kind": "blur", "ngrids": ng, "N": N, "ppp": m, "rank": rank, "sigma": 0.5 if k % 2 else 2.0, "F": 2 if k % 3 == 0 else 1,
                           "save": k % 5 == 0, "seed": seed}
        # the documented defaults of the signature: sigma = 2.0, ppp = periodic in every direction, gaussian_cut = 6.0, no output file
        for rank in (0, 1):
            yield {"kind": "blur", "ngrids": ng, "N": 65, "ppp": [1] * d, "rank": rank, "sigma": 2.0, "F": 1, "save": False, "defaults": True, "seed": seed}
    for T in SCALE_T:
        for w in SCALE_W:
            if w >= T:
                continue
            for (dt, dstep) in (INTERVALS if not q else INTERVALS[:1] + INTERVALS[3:4]):
                for half in (False, True):
                    for kind in ("real", "complex"):
                        if q and (kind == "complex") != ((w + T) % 3 == 0):
                            continue
                        interval = Decimal(dt) * dstep
                        period = interval * (2 * w + (1 if half else 0)) / 2
                        yield {"kind": "window", "T": T, "w": w, "dt": dt, "dstep": dstep, "period": str(period), "vkind": kind, "N": 3, "seed": seed}


def run_scale(case):
    return {"spatial": scale_spatial, "blur": scale_blur, "window": scale_window}[case["kind"]](case)


def scale_spatial(case):
    from PyMatterSim.utils.coarse_graining import spatial_average

    R = Result()
    N, F, rank = case["N"], case["F"], case["rank"]
    frames = [X.lists(N, f, case["lk"]) for f in range(F)]
    x = X.values((F, N) + (3,) * rank, case["dtype"] == "complex")
    sig = {"kind": "spatial", "rank": rank, "lists": case["lk"], "multi_frame": F > 1, "dtype": case["dtype"], "nmax": case["nmax"], "scale": True}
    write_neighbor_file("nl_c16s.dat", frames)
    x0 = x.copy()
    kw = {}
    if case["nmax"] == "equal":
        kw["Nmax"] = max(len(nb) for fr in frames for nb in fr)
    if case["save"]:
        kw["outputfile"] = "sp_c16s.npy"
    got = np.asarray(spatial_average(x, "nl_c16s.dat", **kw))
    os.remove("nl_c16s.dat")
    ref = G.ref_spatial_average(x0, frames)
    R.elem = F * N
    if got.shape != ref.shape:
        R.fail(f"shape {got.shape} != {ref.shape}", sig=dict(sig, clause="shape"))
        return R
    if not np.allclose(got, ref, rtol=RT, atol=AT):
        bad = np.argwhere(~np.isclose(got, ref, rtol=RT, atol=AT))[0]
        f, i = int(bad[0]), int(bad[1])
        R.fail(f"N={N} lists={case['lk']}: frame {f} particle {i} (cn {len(frames[f][i])}): got {np.asarray(got[f, i]).ravel()[:3]!r}, expected "
               f"(x_i + sum_j x_j)/(1+cn) = {np.asarray(ref[f, i]).ravel()[:3]!r}", sig=dict(sig, clause="mean"))
    if case["save"]:
        if not os.path.exists("sp_c16s.npy") or not np.array_equal(np.load("sp_c16s.npy"), got):
            R.fail("saved file differs from the returned array", sig=dict(sig, clause="file"))
        if os.path.exists("sp_c16s.npy"):
            os.remove("sp_c16s.npy")
    if not np.array_equal(x, x0):
        R.fail("input property modified", sig=dict(sig, clause="input_modified"))
    R.outcome(got)
    R.nontrivial = len({len(nb) for nb in frames[0]}) > 1
    return R


def scale_blur(case):
    from PyMatterSim.reader.reader_utils import Snapshots
    from PyMatterSim.utils.coarse_graining import gaussian_blurring

    R = Result()
    ng, N, F, rank, seed = case["ngrids"], case["N"], case["F"], case["rank"], case["seed"]
    d = len(ng)
    ppp = np.array(case["ppp"])
    sigma, cut = case["sigma"], (6.0 if case.get("defaults") else CUTS["in"])
    sig = {"kind": "blur", "defaults": bool(case.get("defaults")), "d": d, "rank": rank, "square": len(set(ng)) == 1, "masked": bool((ppp == 0).any()), "multi_frame": F > 1, "scale": True}
    frames = []
    for f in range(F):
        lo = np.array(BOX[f]["lo"][:d])
        L = np.array(BOX[f]["L"][:d])
        pos = lo + np.array(A.generic_points(seed, N, d, tag=f"bls{d}{N}{f}_")) * L
        frames.append((lo, L, pos))
    cond = X.values((F, N) + (d,) * rank, False, salt=3) + 0.5
    npts = int(np.prod(ng))
    ref_pts = []
    for (lo, L, pos) in frames:
        pts = X.grid(np.column_stack((lo, lo + L)), ng)
        _, margin, _, diff = X.blur(pts, pos, np.diag(L), ppp, cond[0], sigma, cut)
        if margin < 1e-9 or frac_tie_margin(diff, np.diag(L), ppp) < 1e-9:
            return R.screen()
        ref_pts.append(pts)
    snaps = Snapshots(F, [mk_snap(pos, np.diag(L), [1] * N, lo=lo, ts=100 * f) for f, (lo, L, pos) in enumerate(frames)])
    before = [s.positions.copy() for s in snaps.snapshots]
    cond0 = cond.copy()
    out = "bl_c16s" if case["save"] else ""
    if case.get("defaults"):
        gp, gv = gaussian_blurring(snaps, cond, np.array(ng))
    else:
        gp, gv = gaussian_blurring(snaps, cond, np.array(ng), sigma, ppp, cut, outputfile=out)
    gp, gv = np.asarray(gp), np.asarray(gv)
    R.elem = npts * F
    if gp.shape != (F, npts, d):
        R.fail(f"grid_positions shape {gp.shape} != {(F, npts, d)}", sig=dict(sig, clause="shape"), sub="C16.blur.grid")
        return R
    if gv.shape != (F, npts) + cond.shape[2:]:
        R.fail(f"grid_property shape {gv.shape}", sig=dict(sig, clause="shape"), sub="C16.blur.values")
        return R
    ncontrib = 0
    for f, (lo, L, pos) in enumerate(frames):
        scale = float(np.max(np.abs(ref_pts[f]))) + 1.0
        want = sorted(tuple(np.round(p / scale, 10) + 0.0) for p in ref_pts[f])
        have = sorted(tuple(np.round(p / scale, 10) + 0.0) for p in gp[f])
        if want != have:
            missing = len(set(want) - set(have))
            R.fail(f"ngrids={ng} frame {f}: grid rows are not the Cartesian product of the linspaces ({missing} of {npts} points missing)",
                   sig=dict(sig, clause="grid"), sub="C16.blur.grid")
        elif not np.allclose(gp[f], ref_pts[f], rtol=0, atol=1e-10 * scale):
            k = int(np.argmax(np.abs(gp[f] - ref_pts[f]).max(axis=1) > 1e-10 * scale))
            R.fail(f"ngrids={ng} frame {f}: row {k} is {gp[f, k].tolist()}, expected {ref_pts[f, k].tolist()} (x slowest)", sig=dict(sig, clause="index"),
                   sub="C16.blur.index")
        # every row's value equals the reference sum at the position REPORTED for that row
        vals, margin, nc, _ = X.blur(gp[f], pos, np.diag(L), ppp, cond[f], sigma, cut)
        ncontrib += nc
        if margin >= 1e-9 and not np.allclose(gv[f], vals, rtol=RT, atol=AT):
            k = int(np.argwhere(~np.isclose(gv[f], vals, rtol=RT, atol=AT))[0][0])
            R.fail(f"ngrids={ng} N={N} frame {f} grid row {k} at {gp[f, k].tolist()}: value {np.asarray(gv[f, k]).ravel()[:3].tolist()!r}, reference "
                   f"{np.asarray(vals[k]).ravel()[:3].tolist()!r}", sig=dict(sig, clause="value"), sub="C16.blur.values")
    if case["save"]:
        for suffix, arr in (("_positions.npy", gp), ("_properties.npy", gv)):
            if not os.path.exists(out + suffix) or not np.array_equal(np.load(out + suffix), arr):
                R.fail(f"saved file {suffix} differs from the returned array", sig=dict(sig, clause="file"), sub="C16.blur.values")
            if os.path.exists(out + suffix):
                os.remove(out + suffix)
    for s_, b in zip(snaps.snapshots, before):
        if not np.array_equal(s_.positions, b):
            R.fail("snapshot positions modified", sig=dict(sig, clause="input_modified"), sub="C16.blur.values")
    if not np.array_equal(cond, cond0):
        R.fail("condition array modified", sig=dict(sig, clause="input_modified"), sub="C16.blur.values")
    R.outcome([gp, gv])
    R.nontrivial = ncontrib > 0
    return R


def scale_window(case):
    from PyMatterSim.reader.reader_utils import Snapshots
    from PyMatterSim.utils.coarse_graining import time_average

    R = Result()
    T, N = case["T"], case["N"]
    w = G.ref_window(case["period"], case["dt"], case["dstep"])
    assert w == case["w"]
    m2 = (Decimal(case["period"]) / (Decimal(case["dt"]) * case["dstep"]))
    sig = {"kind": "window", "exact_multiple": bool(m2 == m2.to_integral_value()), "even_window": w % 2 == 0, "vkind": case["vkind"], "scale": True}
    x = X.values((T, N), case["vkind"] == "complex", salt=1)
    H = np.diag([4.0, 4.0])
    pos = [[1.0 + 0.5 * i, 2.0] for i in range(N)]
    snaps = Snapshots(T, [mk_snap(pos, H, [1] * N, ts=1000 + case["dstep"] * t) for t in range(T)])
    x0 = x.copy()
    res, mid = time_average(snaps, x, float(case["period"]), float(case["dt"]))
    res, mid = np.asarray(res), np.asarray(mid)
    rows = res.shape[0]
    R.elem = max(1, rows)
    R.outcome({"rows": rows, "mid": mid.tolist(), "res": res})
    where = f"T={T} period={case['period']} interval={case['dt']}*{case['dstep']} (window {w})"
    if res.ndim != 2 or res.shape[1] != N:
        R.fail(f"result shape {res.shape} ({where})", sig=dict(sig, clause="shape"), sub="C16.window.mean")
        return R
    if len(mid) != rows:
        R.fail(f"{len(mid)} centre indices for {rows} rows ({where})", sig=dict(sig, clause="count"), sub="C16.window.centre")
        return R
    means = G.ref_window_means(x0, w)
    if rows > len(means) or rows < 1:
        R.fail(f"{rows} rows returned, admissible 1..{len(means)} ({where})", sig=dict(sig, clause="rows"), sub="C16.window.length")
        return R
    for n in range(rows):
        if not np.allclose(res[n], means[n], rtol=RT, atol=AT):
            R.fail(f"row {n} is not the mean over frames {n}..{n + w - 1} ({where})", sig=dict(sig, clause="mean"), exp=means[n], obs=res[n],
                   sub="C16.window.mean")
            break
    for n in range(rows):
        c = n + (w - 1) / 2.0
        if abs(float(mid[n]) - c) > 0.5 + 1e-12 or float(mid[n]) != int(mid[n]):
            R.fail(f"window starting at {n}: centre index {mid[n]!r}, central frame is {c} ({where})", sig=dict(sig, clause="centre"),
                   sub="C16.window.centre")
            break
    if not np.array_equal(x, x0):
        R.fail("input property modified", sig=dict(sig, clause="input_modified"), sub="C16.window.mean")
    return R


# ======================================================================================= round 4: C16.forms (L5, L1, L7, L8)
SP_FORMS = ["float32", "complex64", "int64", "int32", "uint8", "uint16", "bool", "x_fortran", "x_noncontiguous", "nmax_numpy", "dilate_m33", "dilate_p27"]
BLUR_FORMS = ["cond_float32", "cond_int64", "cond_int32", "cond_uint8", "cond_uint16", "cond_bool", "cond_fortran", "ppp_list", "ppp_tuple", "ppp_bool",
              "ppp_float", "ppp3_0", "ppp3_1", "ngrids_list", "ngrids_tuple", "ngrids_int32", "pos_float32", "pos_fortran", "sigma_int",
              "scalars_numpy", "cut_zero_int", "cut_zero_float", "unwrapped", "dilate_m33", "dilate_p27"]
WIN_FORMS = ["float32", "complex64", "int64", "int32", "uint8", "uint16", "bool", "period_int", "dt_numpy", "x_fortran", "outlier_f1", "outlier_f0"]
# (L9) absolute scale of the time axis: dt of 2e-18 / 2e6 time units (interval 2e-16 / 2e8), timesteps offset by 2e9 / 1e12
WIN_SCALES = {"scale_tiny": ("2e-18", 1000), "scale_huge": ("2e6", 1000), "t0_2e9": ("0.002", 2 * 10**9), "t0_1e12": ("0.002", 10**12)}


def dilation(form):
    return 2.0 ** (-33 if form.endswith("m33") else 27) if form.startswith("dilate_") else 1.0
UNWRAP = [0, 2, -3, 4]


def gen_forms(tier, seed):
    q = tier == "quick"
    for form in SP_FORMS:
        if form in Y.INTEGER_LIKE and is_open("C16.forms.spatial_integer"):
            continue
        for rank in (0, 1, 2):
            for F in (1, 2):
                for ti in range(len(Y.FORM_TOPOS4)):
                    yield {"kind": "spatial", "form": form, "rank": rank, "F": F, "topo": ti, "seed": seed}
    for d in (2, 3):
        ms = [[1] * d, [1] + [0] * (d - 1), [0] * (d - 1) + [1]] if q else A.masks(d)
        for form in BLUR_FORMS:
            if form.startswith("ppp3") and d == 3:
                continue
            for rank in ((0, 1) if q else (0, 1, 2)):
                for m in ms:
                    for ng in ([[3, 4]] if d == 2 else [[3, 2, 4]]):
                        yield {"kind": "blur", "form": form, "d": d, "rank": rank, "ppp": m, "ngrids": ng, "seed": seed}
    for form in WIN_FORMS:
        for period in ("0.4", "0.5", "0.6", "1.0"):
            yield {"kind": "window", "form": form, "period": period, "seed": seed}
    for form, (dts, t0) in WIN_SCALES.items():
        for k in ("2", "2.5", "3", "4.9", "5"):
            yield {"kind": "window", "form": form, "dt": dts, "t0": t0, "period": str(Decimal(dts) * 100 * Decimal(k)), "seed": seed}


def run_forms(case):
    return {"spatial": forms_spatial, "blur": forms_blur, "window": forms_window}[case["kind"]](case)


def forms_spatial(case):
    from PyMatterSim.utils.coarse_graining import spatial_average

    R = Result()
    form, rank, F = case["form"], case["rank"], case["F"]
    N = 4
    dt = form if form in Y.NP_DTYPES else "float64"
    frames = [Y.FORM_TOPOS4[(case["topo"] + f) % len(Y.FORM_TOPOS4)] for f in range(F)]
    x = Y.int_values((F, N) + (3,) * rank, dt, salt=case["topo"])
    sc = dilation(form)
    if sc != 1.0:
        x = x * sc      # (L9) values of order 1e-10 / 1e8: the mean scales exactly
    if form == "x_fortran":
        x = np.asfortranarray(x)
    elif form == "x_noncontiguous":
        wide = np.full((F, 2 * N) + (3,) * rank, 99.0)
        wide[:, ::2] = x
        x = wide[:, ::2]
    sig = {"kind": "spatial", "form": form, "rank": rank, "multi_frame": F > 1}
    write_neighbor_file("nl_c16f.dat", frames)
    x0 = x.copy()
    kw = {"Nmax": np.int64(30)} if form == "nmax_numpy" else {}
    got = np.asarray(spatial_average(x, "nl_c16f.dat", **kw))
    os.remove("nl_c16f.dat")
    ref = G.ref_spatial_average(np.asarray(x0, dtype=complex if np.iscomplexobj(x0) else float), frames)
    R.elem = F * N
    tol = FT * 4.0 if dt in ("float32", "complex64") else AT * sc
    if got.shape != ref.shape:
        R.fail(f"shape {got.shape} != {ref.shape}", sig=dict(sig, clause="shape"), sub="C16.forms")
        return R
    if not np.allclose(got, ref, rtol=FT if dt in ("float32", "complex64") else RT, atol=tol):
        bad = np.argwhere(~np.isclose(got, ref, rtol=FT if dt in ("float32", "complex64") else RT, atol=tol))[0]
        f, i = int(bad[0]), int(bad[1])
        R.fail(f"property stored as {form} ({x0.dtype}): frame {f} particle {i} neighbours {frames[f][i]}: got {np.asarray(got[f, i]).ravel()[:3].tolist()!r} "
               f"({got.dtype}), the mean over the particle and its listed neighbours is {np.asarray(ref[f, i]).ravel()[:3].tolist()!r}",
               sig=dict(sig, clause="mean"), sub="C16.forms")
    if not np.array_equal(x, x0):
        R.fail("input property modified", sig=dict(sig, clause="input_modified"), sub="C16.forms")
    R.outcome([str(got.dtype), np.asarray(got, dtype=complex)])
    R.nontrivial = any(len(nb) > 0 for fr in frames for nb in fr)
    return R


def forms_blur(case):
    from PyMatterSim.reader.reader_utils import Snapshots
    from PyMatterSim.utils.coarse_graining import gaussian_blurring

    R = Result()
    form, d, rank, ng, seed = case["form"], case["d"], case["rank"], case["ngrids"], case["seed"]
    m = list(case["ppp"])
    N = 3
    lo = np.array(BOX[0]["lo"][:d])
    L = np.array(BOX[0]["L"][:d])
    pos = lo + np.array(A.generic_points(seed, N, d, tag=f"blf{d}_")) * L
    if form == "pos_float32":
        pos = pos.astype(np.float32).astype(float)
    cdt = form[5:] if form.startswith("cond_") and form[5:] in Y.NP_DTYPES else "float64"
    cond = Y.int_values((1, N) + (d,) * rank, cdt, salt=2)
    if cdt == "float64":
        cond = cond + 0.375
    cond64 = np.asarray(cond, float)
    sigma, cut = 0.5, 2.5
    if form == "sigma_int":
        sigma, cut = 2, 3
    elif form.startswith("cut_zero"):
        cut = 0 if form == "cut_zero_int" else 0.0     # (L8) an explicit zero is not 'use the default 6.0': nothing is within the cutoff
    sc = dilation(form)
    if sc != 1.0:
        # (L9) box, coordinates, sigma and cutoff dilated by an exact power of two: grid x sc, field / sc
        lo, L, pos, sigma, cut = lo * sc, L * sc, pos * sc, sigma * sc, cut * sc
    sig = {"kind": "blur", "form": form, "d": d, "rank": rank, "masked": 0 in m}
    pts = X.grid(np.column_stack((lo, lo + L)), ng)
    ref, margin, nc, diff = X.blur(pts, pos, np.diag(L), np.array(m), cond64[0], float(sigma), float(cut))
    if (cut and margin < 1e-9 * sc) or frac_tie_margin(diff, np.diag(L), np.array(m)) < 1e-9:
        return R.screen()
    lib_pos = pos.copy()
    if form == "unwrapped":
        # (L7) particle i displaced by whole cell vectors n * L along the PERIODIC axes (unwrapped xu coordinates)
        for i in range(N):
            for a in range(d):
                lib_pos[i, a] += UNWRAP[(i + 2 * a + 1) % 4] * L[a] * m[a]
    sn = mk_snap(lib_pos, np.diag(L), [1] * N, lo=lo, ts=0)
    if form == "pos_float32":
        sn = type(sn)(sn.timestep, sn.nparticle, sn.particle_type, sn.positions.astype(np.float32), sn.boxlength, sn.boxbounds, sn.realbounds, sn.hmatrix)
    elif form == "pos_fortran":
        sn = type(sn)(sn.timestep, sn.nparticle, sn.particle_type, np.asfortranarray(sn.positions), sn.boxlength, np.asfortranarray(sn.boxbounds),
                      sn.realbounds, np.asfortranarray(sn.hmatrix))
    snaps = Snapshots(1, [sn])
    c = np.asfortranarray(cond) if form == "cond_fortran" else cond
    ppp = np.array(m)
    ngrids = np.array(ng)
    if form == "ppp_list":
        ppp = list(m)
    elif form == "ppp_tuple":
        ppp = tuple(m)
    elif form == "ppp_bool":
        ppp = np.array(m, dtype=bool)
    elif form == "ppp_float":
        ppp = np.array(m, dtype=float)
    elif form.startswith("ppp3"):
        ppp = np.array(m + [int(form[-1])])    # (L1) the third entry of ppp is not used for a two-dimensional system (documented default: 3 entries)
    elif form == "ngrids_list":
        ngrids = list(ng)
    elif form == "ngrids_tuple":
        ngrids = tuple(ng)
    elif form == "ngrids_int32":
        ngrids = np.array(ng, dtype=np.int32)
    if form == "scalars_numpy":
        sigma, cut = np.float32(sigma), np.float32(cut)     # 0.5 and 2.5 are exact in single precision
    c0 = np.array(c, copy=True)
    gp, gv = gaussian_blurring(snaps, c, ngrids, sigma, ppp, cut)
    gp, gv = np.asarray(gp), np.asarray(gv)
    npts = int(np.prod(ng))
    R.elem = npts
    if gp.shape != (1, npts, d) or gv.shape != (1, npts) + cond.shape[2:]:
        R.fail(f"shapes {gp.shape} / {gv.shape}", sig=dict(sig, clause="shape"), sub="C16.forms")
        return R
    scale = float(np.max(np.abs(pts))) + sc
    if not np.allclose(gp[0], pts, rtol=0, atol=1e-10 * scale):
        R.fail(f"argument form {form}: grid rows differ from the Cartesian product of the linspaces (x slowest)", sig=dict(sig, clause="grid"), sub="C16.forms",
               exp=pts, obs=gp[0])
    elif not np.allclose(gv[0], ref, rtol=RT, atol=AT / sc):
        k = int(np.argwhere(~np.isclose(gv[0], ref, rtol=RT, atol=AT / sc))[0][0])
        R.fail(f"argument form {form} (ppp={ppp!r}, sigma={sigma!r}, gaussian_cut={cut!r}, condition {c.dtype}): grid row {k} at {gp[0, k].tolist()}: value "
               f"{np.asarray(gv[0, k]).ravel()[:3].tolist()!r}, reference {np.asarray(ref[k]).ravel()[:3].tolist()!r}", sig=dict(sig, clause="value"), sub="C16.forms")
    if not np.array_equal(np.asarray(c), c0) or not np.array_equal(snaps.snapshots[0].positions, np.asarray(lib_pos, dtype=snaps.snapshots[0].positions.dtype)):
        R.fail("input arrays modified", sig=dict(sig, clause="input_modified"), sub="C16.forms")
    R.outcome([gp, gv])
    R.nontrivial = nc > 0 or form.startswith("cut_zero")
    return R


def forms_window(case):
    from PyMatterSim.reader.reader_utils import Snapshots
    from PyMatterSim.utils.coarse_graining import time_average

    R = Result()
    form = case["form"]
    T, N, dstep, dts = 6, 3, 100, case.get("dt", "0.002")
    w = G.ref_window(case["period"], dts, dstep)
    dt = form if form in Y.NP_DTYPES else "complex128"
    x = Y.int_values((T, N), dt, salt=4)
    if form == "x_fortran":
        x = np.asfortranarray(x)
    if form.startswith("outlier"):
        # numerical regime: one particle carries a value 2^47 (1.4e14) in ONE early frame, order-one values elsewhere; every window that does
        # not contain that frame is the plain mean of its own frames (a running-sum implementation loses their low bits)
        x = x + (np.arange(T * N).reshape(T, N) % 7) * 0.1 + 0.013
        x[1 if form == "outlier_f1" else 0, 0] = 2.0 ** 47
    sig = {"kind": "window", "form": form, "even_window": w % 2 == 0}
    period = float(case["period"])
    step = float(dts)
    if form == "period_int":
        if period != int(period):
            return R.screen()
        period = int(period)
    elif form == "dt_numpy":
        step = np.float64(dts)
    snaps = Snapshots(T, [mk_snap([[1.0 + 0.5 * i, 2.0] for i in range(N)], np.diag([4.0, 4.0]), [1] * N, ts=case.get("t0", 1000) + dstep * t) for t in range(T)])
    x0 = x.copy()
    res, mid = time_average(snaps, x, period, step)
    res, mid = np.asarray(res), np.asarray(mid)
    rows = res.shape[0]
    R.elem = max(1, rows)
    R.outcome({"rows": rows, "mid": mid.tolist(), "res": np.asarray(res, dtype=complex)})
    means = G.ref_window_means(np.asarray(x0, dtype=complex), w)
    if res.ndim != 2 or res.shape[1] != N or len(mid) != rows or rows > len(means) or rows < 1:
        R.fail(f"series stored as {form}: result shape {res.shape}, {len(mid)} centre indices, admissible rows 1..{len(means)}", sig=dict(sig, clause="shape"),
               sub="C16.forms")
        return R
    tol = dict(rtol=FT, atol=FT * 4.0) if dt in ("float32", "complex64") else dict(rtol=RT, atol=AT)
    for n in range(rows):
        if not np.allclose(res[n], means[n], **tol):
            R.fail(f"series stored as {form} ({x0.dtype}), window {w}: row {n} is {res[n].tolist()!r}, the mean over frames {n}..{n + w - 1} is "
                   f"{np.asarray(means[n]).tolist()!r}", sig=dict(sig, clause="mean"), sub="C16.forms")
            break
        c = n + (w - 1) / 2.0
        if abs(float(mid[n]) - c) > 0.5 + 1e-12 or float(mid[n]) != int(mid[n]):
            R.fail(f"window {w} starting at {n}: centre index {mid[n]!r}, central frame is {c}", sig=dict(sig, clause="centre"), sub="C16.forms")
            break
    if not np.array_equal(x, x0):
        R.fail("input property modified", sig=dict(sig, clause="input_modified"), sub="C16.forms")
    R.nontrivial = w < T
    return R


# ======================================================================================= round 4: C16.zeros (L4)
def gen_zeros(tier, seed):
    q = tier == "quick"
    # spatial_average: every assignment of {0, 1, -1.5} (scalars) / {(0,0), (1,0), (0,-2)} (vectors) to three particles that holds at
    # least one exact zero x all 64 topologies
    for t in range(len(topos(3))):
        for assign in itertools.product(range(3), repeat=3):
            if 0 not in assign:
                continue
            for rank in (0, 1):
                yield {"kind": "spatial", "topo": t, "assign": list(assign), "rank": rank, "seed": seed}
    # gaussian_blurring: a particle EXACTLY on a grid node / on the lower corner / on the upper x face; zero condition values
    for d in (2, 3):
        for ng in Y.ZGRIDS[d]:
            for place in Y.ZPLACE:
                for ck in Y.ZCOND:
                    for rank in ((0, 1) if q else (0, 1, 2)):
                        for m in A.masks(d):
                            for sg, cut in ((0.5, "in"), (2.0, "out")):
                                yield {"kind": "blur", "d": d, "ngrids": ng, "place": place, "cond": ck, "rank": rank, "ppp": m, "sigma": sg, "cut": cut,
                                       "seed": seed}
    # time_average: exact zeros in the series
    for c in gen_window("quick", seed):
        if c["dstep"] in (100, 7):
            yield dict(c, kind="window", vkind=c["kind"], zeros=True)


def run_zeros(case):
    if case["kind"] == "window":
        return run_window(dict(case, kind=case["vkind"]))
    return {"spatial": zeros_spatial, "blur": zeros_blur}[case["kind"]](case)


def zeros_spatial(case):
    from PyMatterSim.utils.coarse_graining import spatial_average

    R = Result()
    rank = case["rank"]
    frames = [topos(3)[case["topo"]]]
    vals = Y.ZVALS if rank == 0 else Y.ZVECS
    x = np.array([[vals[a] for a in case["assign"]]], float)
    sig = {"kind": "spatial", "rank": rank, "zeros": True}
    write_neighbor_file("nl_c16z.dat", frames)
    x0 = x.copy()
    got = np.asarray(spatial_average(x, "nl_c16z.dat"))
    os.remove("nl_c16z.dat")
    ref = G.ref_spatial_average(x0, frames)
    R.elem = 3
    if got.shape != ref.shape:
        R.fail(f"shape {got.shape} != {ref.shape}", sig=dict(sig, clause="shape"), sub="C16.zeros")
        return R
    if not np.allclose(got, ref, rtol=RT, atol=AT):
        i = int(np.argwhere(~np.isclose(got, ref, rtol=RT, atol=AT))[0][1])
        R.fail(f"values {x0[0].tolist()} (exact zeros count as members): particle {i} neighbours {frames[0][i]}: got {np.asarray(got[0, i]).tolist()!r}, expected "
               f"(x_i + sum_j x_j)/(1+cn) = {np.asarray(ref[0, i]).tolist()!r}", sig=dict(sig, clause="mean"), sub="C16.zeros")
    R.outcome(got)
    R.nontrivial = any(len(nb) > 0 for nb in frames[0])
    return R


def zeros_blur(case):
    from PyMatterSim.reader.reader_utils import Snapshots
    from PyMatterSim.utils.coarse_graining import gaussian_blurring

    R = Result()
    d, ng, rank = case["d"], case["ngrids"], case["rank"]
    lo, L, pos, cond = Y.zero_blur_input(case["seed"], d, ng, case["place"], case["cond"], rank)
    ppp = np.array(case["ppp"])
    sigma, cut = case["sigma"], Y.ZCUTS[case["cut"]]
    sig = {"kind": "blur", "d": d, "rank": rank, "place": case["place"], "cond": case["cond"], "masked": bool((ppp == 0).any()), "zeros": True}
    pts = X.grid(np.column_stack((lo, lo + L)), ng)
    ref, margin, nc, diff = X.blur(pts, pos, np.diag(L), ppp, cond[0], sigma, cut)
    if margin < 1e-9 or frac_tie_margin(diff, np.diag(L), ppp) < 1e-9:
        return R.screen()
    snaps = Snapshots(1, [mk_snap(pos, np.diag(L), [1] * 3, lo=lo, ts=0)])
    gp, gv = gaussian_blurring(snaps, cond, np.array(ng), sigma, ppp, cut)
    gp, gv = np.asarray(gp), np.asarray(gv)
    npts = int(np.prod(ng))
    R.elem = npts
    if gp.shape != (1, npts, d) or gv.shape != (1, npts) + cond.shape[2:]:
        R.fail(f"shapes {gp.shape} / {gv.shape}", sig=dict(sig, clause="shape"), sub="C16.zeros")
        return R
    if not np.array_equal(gp[0], pts):
        R.fail("grid rows differ from the (dyadic, exact) Cartesian product of the linspaces", sig=dict(sig, clause="grid"), sub="C16.zeros", exp=pts, obs=gp[0])
    elif not np.allclose(gv[0], ref, rtol=RT, atol=AT):
        k = int(np.argwhere(~np.isclose(gv[0], ref, rtol=RT, atol=AT))[0][0])
        r0 = float(np.linalg.norm(pts[k] - pos[0]))
        R.fail(f"ngrids={ng} particle 0 exactly on node (1,..,1), particle 1 {case['place']}, condition {case['cond']}: grid row {k} at {gp[0, k].tolist()} "
               f"(distance to particle 0: {r0!r}): value {np.asarray(gv[0, k]).ravel()[:3].tolist()!r}, reference {np.asarray(ref[k]).ravel()[:3].tolist()!r}",
               sig=dict(sig, clause="value"), sub="C16.zeros")
    R.outcome([gp, gv])
    R.nontrivial = nc > 0
    return R


# ======================================================================================= round 4: C16.sequence (L6)
def gen_sequence(tier, seed):
    depth = 2 if tier == "quick" else 3
    nl = len(Y.SEQ_LETTERS)
    for Lw in range(1, depth + 1):
        for word in itertools.product(range(nl), repeat=Lw):
            if Lw == 3 and (len(set(word)) == 1 or len({Y.SEQ_LETTERS[k]["fn"] for k in word}) == 3):
                continue    # three different routines: covered by the pairs
            for share in ((False,) if Lw == 1 else (False, True)):
                yield {"part": "sequence", "word": list(word), "share": share, "seed": seed}


_SEQ_FRESH = {}


def run_sequence(case):
    R = Result()
    seed = case["seed"]
    names = [Y.SEQ_LETTERS[k]["id"] for k in case["word"]]
    payload = X3.fresh_child(Y.seq_eval, case, Y.SEQ_MODS)
    if "err" in payload:
        R.fail(f"call sequence {names} (share={case['share']}) raised {payload['err']}", sig={"part": "sequence", "exception": True})
        return R
    for k in set(case["word"]):
        if (seed, k) not in _SEQ_FRESH:
            one = X3.fresh_child(Y.seq_eval, {"seed": seed, "word": [k], "share": False}, Y.SEQ_MODS)
            if "err" in one:
                R.fail(f"single call {Y.SEQ_LETTERS[k]['id']} raised {one['err']}", sig={"part": "sequence", "exception": True})
                return R
            _SEQ_FRESH[(seed, k)] = json.dumps(one["ok"][0], sort_keys=True)
    states = set()
    for pos_, (k, got) in enumerate(zip(case["word"], payload["ok"])):
        lt = Y.SEQ_LETTERS[k]
        g = json.dumps(got, sort_keys=True)
        if g != _SEQ_FRESH[(seed, k)]:
            R.fail(f"call #{pos_ + 1} ({lt['id']}: {lt['fn']}) of the sequence {names} ({'objects shared and edited in place' if case['share'] else 'fresh objects'}) "
                   f"differs from the same call made first in a fresh process (earlier calls: {names[:pos_]})",
                   sig={"part": "sequence", "fn": lt["fn"], "position": "later" if pos_ else "first", "share": case["share"]},
                   exp=_SEQ_FRESH[(seed, k)][:300], obs=g[:300])
        states.add(g[:4000])
    R.outcome(sorted(states), nd=9)
    R.states = len(case["word"]) + 1
    R.transitions = len(case["word"])
    R.elem = len(case["word"])
    R.nontrivial = True
    return R


def subs(tier, seed):
    return [
        Sub("C16.spatial", gen_spatial, run_spatial,
            rule="all 4^3 = 64 neighbour topologies (every particle: any subset of the others, incl. none) of N=3 x ranks 0,1,2 x "
                 "F in {1,2,3} (a different topology per frame) x {float, complex}"
                 + (" x {id-ordered, reversed file lines}" if tier == "thorough" else "")
                 + "; all 8^4 = 4096 topologies of N=4 "
                 + ("x ranks x F (dtype / line order alternate)" if tier == "thorough" else "(rank/F/dtype cycle with the index)")
                 + "; every entry compared with (x_i + sum_j x_j)/(1+cn_i); non-trivial = some particle has a neighbour",
            bounds={"N": [3, 4], "ranks": [0, 1, 2], "F": [1, 2, 3]}),
        Sub("C16.blur", gen_blur, run_blur,
            rule="all ngrids in " + ("{1,2,3,4}^2 and {2,3,4}^3" if tier == "quick" else "{1..5}^2 and {1..4}^3")
                 + " x N in " + ("{1,3}" if tier == "quick" else "{1,2,3}") + " x ranks 0,1,2 x sigma x cut {2.5 inside, 12 outside the box diagonal} "
                 "x all masks, boxes with non-zero origin and unequal edges (a second frame with a different box for a slice); "
                 "sub-checks blur.grid (rows = Cartesian product, each once), blur.index (x slowest), blur.values (every row vs reference sum); "
                 "non-trivial = more than one grid point and at least one particle inside the cutoff",
            bounds={"ngrids_2d": 16 if tier == "quick" else 25, "ngrids_3d": 27 if tier == "quick" else 64}),
        Sub("C16.window", gen_window, run_window,
            rule="T = 2..8 frames x 6 (dt, step) intervals (0.2, 0.1, 0.4, 0.3, 0.035, 0.01) x period = m/2 intervals, m = 2..2T+1 "
                 "(every window 1..T as an exact multiple and as a half-way value) x real/complex; window length by rational arithmetic; "
                 "sub-checks window.length, window.mean, window.centre; non-trivial = w < T",
            bounds={"T": [2, 8], "intervals": len(INTERVALS)}),
        Sub("C16.scale", gen_scale, run_scale,
            rule="SIZE enumeration (one fixed value pattern per size): spatial_average with N in " + str(SCALE_N) + " x ragged harness-written lists "
                 "{max coordination at the first / last particle only, formula incl. isolated particles, one particle with 30 = default Nmax, first "
                 "particle with exactly one} x ranks 0-2 x F in {1,3} (a different topology per frame) x {default Nmax, Nmax = largest coordination "
                 "number} x outputfile; gaussian_blurring on the grids " + str(SCALE_GRIDS) + " x N in {1,65,130} x masks x ranks x sigma {0.5,2} "
                 "x cut 2.5 (inside the box), boxes with non-zero origin and unequal edges (a second frame with another box for a third), "
                 "outputfile, and calls that leave sigma / ppp / gaussian_cut at their documented defaults; time_average with T in " + str(SCALE_T) + " x windows " + str(SCALE_W) + " as exact decimal multiples and half-way "
                 "periods x intervals" + (" (every second / fourth combination in the quick tier)" if tier == "quick" else "")
                 + "; every entry compared (blurring: vectorised reference evaluated at the reported grid rows)",
            bounds={"N": SCALE_N, "grids": SCALE_GRIDS, "T": SCALE_T, "windows": SCALE_W}),
        Sub("C16.forms", gen_forms, run_forms,
            rule="storage types and documented argument forms (small fixed inputs, every form x rank x mask): spatial_average on N=4 with the property "
                 "stored as " + str([f for f in SP_FORMS if not (f in Y.INTEGER_LIKE and is_open("C16.forms.spatial_integer"))]) + " (integer-like storage is "
                 + ("GUARDED by KNOWN_OPEN: genuine defect" if is_open("C16.forms.spatial_integer") else "included") + ") x ranks 0-2 x F in {1,2} x 4 topologies (first "
                 "frame without any neighbour); gaussian_blurring on 3 particles, grids [3,4] / [3,2,4], with " + str(BLUR_FORMS) + " (condition as float32 / "
                 "int64 / int32 / uint8 / bool / Fortran-ordered; ppp as list / tuple / bool / float array / 3 entries for a 2D system; ngrids as list / tuple / "
                 "int32; single-precision and Fortran-ordered positions; integer sigma and cutoff; numpy scalars; gaussian_cut = 0 / 0.0 passed explicitly; "
                 "particles displaced by +2 / -3 / +4 box lengths along the periodic axes; everything dilated by 2^-33 / 2^27); time_average of T=6 frames with the series stored as "
                 + str(WIN_FORMS) + " x periods 0.4 / 0.5 / 0.6 / 1.0, and with " + str(sorted(WIN_SCALES)) + " (dt 2e-18 / 2e6, timestep offsets 2e9 / 1e12) x "
                 "periods 2 / 2.5 / 3 / 4.9 / 5 intervals; oracle: the same reference models evaluated on the float64 / complex128 values "
                 "(tolerance 2e-6 for single-precision storage, 1e-9 otherwise); non-trivial = some neighbour / some contribution / w < T",
            bounds={"spatial_forms": len(SP_FORMS), "blur_forms": len(BLUR_FORMS), "window_forms": len(WIN_FORMS)}),
        Sub("C16.zeros", gen_zeros, run_zeros,
            rule="exact zeros: spatial_average - every assignment of {0, 1, -1.5} (scalar) / {(0,0), (1,0), (0,-2)} (vector) to 3 particles with at least one "
                 "zero x all 64 topologies; gaussian_blurring - dyadic box [-1.5,6]x[2,5.75](x[0.5,15.5]), grids " + str(Y.ZGRIDS) + " (dyadic nodes), particle 0 "
                 "EXACTLY on node (1,..,1) (distance 0), particle 1 on the lower corner / the upper x face / generic, condition with a zero on the node particle / "
                 "on a generic particle / in one component / none x ranks x all masks x (sigma 0.5, cut 2.7) / (2.0, 40); grid rows compared exactly; time_average - "
                 "the C16.window alphabet (2 intervals) with exact zeros in the series; non-trivial as in the parent sub-checks",
            bounds={"values": Y.ZVALS, "grids": Y.ZGRIDS}),
        Sub("C16.sequence", gen_sequence, run_sequence,
            rule=f"explicit-state search over call words of length <= {2 if tier == 'quick' else 3} over {len(Y.SEQ_LETTERS)} complete argument tuples: "
                 "spatial_average (same file NAME with other content of equal coordination numbers; same shape / other values; scalar after vector; truncating "
                 "Nmax), gaussian_blurring (same ngrids / other box; other mask; 3D with all defaults; 2D with all defaults; same point count / other shape, sigma, "
                 "condition), time_average (same snapshots / other dt; same T / other spacing); every word with fresh objects and with the named arrays / "
                 "the Snapshots object SHARED between the letters and edited in place; every word in a forked child whose library modules were re-imported; "
                 "every call must return bit for bit what the same call returns when made first in a fresh child"
                 + ("" if tier == "quick" else "; words of three different routines are left to the pairs"),
            bounds={"letters": len(Y.SEQ_LETTERS), "depth": 2 if tier == "quick" else 3, "sharing": 2}),
    ]
