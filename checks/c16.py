"""C16 - coarse graining: spatial_average, gaussian_blurring, time_average (E1)."""
import itertools
import os
from decimal import Decimal

import numpy as np

from mc import alphabets as A
from mc.harness import Result, Sub
from mc.ref.base import frac_tie_margin, mk_snap, write_neighbor_file
from mc.ref import cgorder as G
from mc.ref import c16x as X

ASSUMPTIONS = [
    "spatial_average: the neighbour file lists every particle once per frame (ids 1-based), coordination numbers <= Nmax "
    "(default 30); property values are float64 or complex128 arrays [F, N, ...] of rank 0..2",
    "gaussian_blurring: orthogonal boxes (the grid spans snapshot.boxbounds; a grid for tilted cells is not documented); "
    "n = 1 points on an axis means the lower bound (numpy.linspace); particles closer than 1e-9 to the cutoff or to a "
    "half-cell tie are screened out; the box may differ from frame to frame (grid positions are per snapshot)",
    "time_average: frames equally spaced; window w = floor(period/interval) evaluated in exact rational arithmetic on the "
    "decimal literals, 1 <= w <= T; the number of returned rows is not stated by the property: any number of consecutive "
    "starts 0,1,.. up to T-w+1 is accepted, at least one whenever w < T; centre index within 1/2 of n+(w-1)/2 (either "
    "middle frame of an even window)",
    "float tolerance rtol 1e-9 / atol 1e-11",
    "C16.scale enumerates SIZES (64..257 particles, grids of 221..765 points, 63..130 frames, windows 2..100) with one fixed value pattern "
    "per size; spatial_average there reads harness-written formula lists (0..4 neighbours, one particle with 30 = default Nmax; Nmax is also "
    "passed equal to the largest coordination number); coordination numbers never exceed Nmax; output files (np.save) must hold the "
    "returned arrays; gaussian_blurring called without sigma / ppp / gaussian_cut uses the documented defaults 2.0 / periodic in every "
    "direction / 6.0",
]

RT, AT = 1e-9, 1e-11


def gval(seed, tag, comp=0, amp=1.0):
    return A.jitter(seed, tag, comp, amp)


# ============================================================================== spatial_average
def _topos(n):
    return list(G.all_topologies(n, allow_empty=True))


_TOPO_CACHE = {}


def topos(n):
    if n not in _TOPO_CACHE:
        _TOPO_CACHE[n] = _topos(n)
    return _TOPO_CACHE[n]


def gen_spatial(tier, seed):
    # N = 3: full product
    n3 = len(topos(3))
    for t in range(n3):
        for rank in (0, 1, 2):
            for F in (1, 2, 3):
                for dt in ("float", "complex"):
                    for rev in ((False, True) if tier == "thorough" else (False,)):
                        yield {"N": 3, "topo": t, "rank": rank, "F": F, "dtype": dt, "rev": rev, "pdim": 2, "seed": seed}
    n4 = len(topos(4))
    for t in range(n4):
        if tier == "quick":
            # every topology once; rank / F / dtype cycle with the index (all 18 combinations occur 227 times)
            c = t % 18
            yield {"N": 4, "topo": t, "rank": c % 3, "F": 1 + (c // 3) % 3, "dtype": "float" if c < 9 else "complex", "rev": False,
                   "pdim": 3, "seed": seed}
        else:
            for rank in (0, 1, 2):
                for F in (1, 2, 3):
                    yield {"N": 4, "topo": t, "rank": rank, "F": F, "dtype": "float" if (t + rank + F) % 2 else "complex",
                           "rev": bool((t // 7) % 2), "pdim": 3, "seed": seed}


def spatial_input(case):
    N, F, rank, pd, seed = case["N"], case["F"], case["rank"], case["pdim"], case["seed"]
    shape = (F, N) + (pd,) * rank
    x = np.zeros(shape, dtype=complex if case["dtype"] == "complex" else float)
    for idx in itertools.product(*[range(s) for s in shape]):
        v = 2.0 * gval(seed, f"sp{idx}", 0) + idx[1]
        if case["dtype"] == "complex":
            v = v + 1j * (2.0 * gval(seed, f"sp{idx}", 1) - idx[0])
        x[idx] = v
    T = topos(N)
    stride = 5 if N == 3 else 611
    frames = [T[(case["topo"] + f * stride) % len(T)] for f in range(F)]
    return x, frames


def write_nl(path, frames, rev):
    if not rev:
        write_neighbor_file(path, frames)
        return
    with open(path, "w") as f:
        for fr in frames:
            f.write("id     cn     neighborlist\n")
            for i in reversed(range(len(fr))):
                f.write(f"{i + 1} {len(fr[i])} " + " ".join(str(j + 1) for j in reversed(fr[i])) + "\n")


def run_spatial(case):
    from PyMatterSim.utils.coarse_graining import spatial_average

    R = Result()
    x, frames = spatial_input(case)
    sig = {"N": case["N"], "rank": case["rank"], "multi_frame": case["F"] > 1, "dtype": case["dtype"]}
    write_nl("nl_c16.dat", frames, case["rev"])
    x0 = x.copy()
    got = spatial_average(x, "nl_c16.dat")
    os.remove("nl_c16.dat")
    ref = G.ref_spatial_average(x0, frames)
    got = np.asarray(got)
    R.elem = int(np.prod(x.shape[:2]))
    if got.shape != ref.shape:
        R.fail(f"shape {got.shape} != {ref.shape}", sig=dict(sig, clause="shape"))
        return R
    if not np.allclose(got, ref, rtol=RT, atol=AT):
        bad = np.argwhere(~np.isclose(got, ref, rtol=RT, atol=AT))[0]
        f, i = int(bad[0]), int(bad[1])
        R.fail(f"frame {f} particle {i} neighbours {frames[f][i]}: got {got[f, i]!r}, expected (x_i + sum_j x_j)/(1+cn) = {ref[f, i]!r}",
               sig=dict(sig, clause="mean", cn0=(len(frames[f][i]) == 0)), exp=ref[f], obs=got[f])
    if not np.array_equal(x, x0):
        R.fail("input property modified", sig=dict(sig, clause="input_modified"))
    R.outcome(got)
    R.nontrivial = any(len(nb) > 0 for fr in frames for nb in fr)
    return R


# ============================================================================ gaussian_blurring
BOX = {
    0: {"lo": [-1.5, 2.0, 0.5], "L": [4.0, 5.0, 6.0]},
    1: {"lo": [1.0, -2.5, 3.0], "L": [5.0, 4.0, 7.0]},
}
CUTS = {"in": 2.5, "out": 12.0}


def gen_blur(tier, seed):
    for d in (2, 3):
        if d == 2:
            vals = (1, 2, 3, 4) if tier == "quick" else (1, 2, 3, 4, 5)
        else:
            vals = (2, 3, 4) if tier == "quick" else (1, 2, 3, 4)
        for ng in itertools.product(vals, repeat=d):
            for N in ((1, 3) if tier == "quick" else (1, 2, 3)):
                for rank in (0, 1, 2):
                    for sg in ((0.5, 2.0) if tier == "quick" else (0.5, 1.0, 2.0)):
                        for cut in ("in", "out"):
                            for m in A.masks(d):
                                if tier == "thorough":
                                    F = 2 if (rank == 0 or N == 3) else 1
                                else:
                                    F = 2 if (rank == 0 and N == 3 and sg == 2.0 and cut == "in" and all(m)) else 1
                                yield {"d": d, "ngrids": list(ng), "N": N, "rank": rank, "sigma": sg, "cut": cut, "ppp": m, "F": F, "seed": seed}


def blur_input(case):
    d, N, F, rank, seed = case["d"], case["N"], case["F"], case["rank"], case["seed"]
    frames = []
    for f in range(F):
        lo = np.array(BOX[f]["lo"][:d])
        L = np.array(BOX[f]["L"][:d])
        fr = np.array(A.generic_points(seed, N, d, tag=f"bl{d}{N}{f}_"))
        pos = lo + fr * L
        frames.append((lo, L, pos))
    shape = (F, N) + (d,) * rank
    cond = np.zeros(shape)
    for idx in itertools.product(*[range(s) for s in shape]):
        cond[idx] = 1.5 + gval(seed, f"bc{idx}", 0) + 0.5 * idx[1] * (-1) ** idx[1]
    return frames, cond


def run_blur(case):
    from PyMatterSim.reader.reader_utils import Snapshots
    from PyMatterSim.utils.coarse_graining import gaussian_blurring

    R = Result()
    d, ng = case["d"], case["ngrids"]
    frames, cond = blur_input(case)
    ppp = np.array(case["ppp"])
    sigma, cut = case["sigma"], CUTS[case["cut"]]
    sig = {"d": d, "rank": case["rank"], "ngrids_distinct": len(set(ng)) > 1, "has_one": 1 in ng, "masked": bool((ppp == 0).any()),
           "multi_frame": case["F"] > 1}
    # reference first (margins decide whether the case is admissible)
    ref_pts, ref_val = [], []
    ncontrib = 0
    for f, (lo, L, pos) in enumerate(frames):
        H = np.diag(L)
        pts = G.ref_grid(np.column_stack((lo, lo + L)), ng)
        vals = []
        for p in pts:
            if frac_tie_margin(np.array(p)[None, :] - pos, H, ppp) < 1e-9:
                return R.screen()
            v, margin, nc = G.ref_blur_at(p, pos, H, ppp, cond[f], sigma, cut)
            if margin < 1e-9:
                return R.screen()
            ncontrib += nc
            vals.append(v)
        ref_pts.append(np.array(pts))
        ref_val.append(np.array(vals))
    ref_pts = np.array(ref_pts)
    ref_val = np.array(ref_val)

    snaps = Snapshots(len(frames), [mk_snap(pos, np.diag(L), [1] * len(pos), lo=lo, ts=100 * f) for f, (lo, L, pos) in enumerate(frames)])
    before = [s.positions.copy() for s in snaps.snapshots]
    cond0 = cond.copy()
    gp, gv = gaussian_blurring(snaps, cond, np.array(ng), sigma, ppp, cut)
    gp, gv = np.asarray(gp), np.asarray(gv)
    npts = int(np.prod(ng))
    R.elem = npts * len(frames)
    if gp.shape != (len(frames), npts, d):
        R.fail(f"grid_positions shape {gp.shape} != {(len(frames), npts, d)}", sig=dict(sig, clause="shape"), sub="C16.blur.grid")
        return R
    if gv.shape != ref_val.shape:
        R.fail(f"grid_property shape {gv.shape} != {ref_val.shape}", sig=dict(sig, clause="shape"), sub="C16.blur.values")
        return R
    for f in range(len(frames)):
        scale = float(np.max(np.abs(ref_pts[f]))) + 1.0
        # (grid) the multiset of rows is the Cartesian product, each point exactly once
        want = sorted(tuple(np.round(p / scale, 10) + 0.0) for p in ref_pts[f])
        have = sorted(tuple(np.round(p / scale, 10) + 0.0) for p in gp[f])
        grid_ok = want == have
        if not grid_ok:
            missing = len(set(want) - set(have))
            R.fail(f"frame {f}: grid rows are not the Cartesian product of the {ng} linspaces ({missing} of {npts} points missing)",
                   sig=dict(sig, clause="grid"), exp=ref_pts[f], obs=gp[f], sub="C16.blur.grid")
        # (index) x slowest
        elif not np.allclose(gp[f], ref_pts[f], rtol=0, atol=1e-10 * scale):
            k = int(np.argmax(np.abs(gp[f] - ref_pts[f]).max(axis=1) > 1e-10 * scale))
            R.fail(f"frame {f}: row {k} is {gp[f, k].tolist()}, expected {ref_pts[f, k].tolist()} (x slowest)",
                   sig=dict(sig, clause="index"), exp=ref_pts[f], obs=gp[f], sub="C16.blur.index")
        # (values) every row's value equals the reference sum at the position reported for that row
        lo, L, pos = frames[f]
        H = np.diag(L)
        for k in range(npts):
            if grid_ok and np.allclose(gp[f, k], ref_pts[f, k], rtol=0, atol=1e-10 * scale):
                v = ref_val[f, k]
            else:
                v, margin, _ = G.ref_blur_at(gp[f, k], pos, H, ppp, cond[f], sigma, cut)
                if margin < 1e-9:
                    continue
            if not np.allclose(gv[f, k], v, rtol=RT, atol=AT):
                R.fail(f"frame {f} grid row {k} at {gp[f, k].tolist()}: value {np.asarray(gv[f, k]).tolist()!r}, reference {np.asarray(v).tolist()!r}",
                       sig=dict(sig, clause="value", cut=case["cut"]), exp=v, obs=gv[f, k], sub="C16.blur.values")
                break
    for s, b in zip(snaps.snapshots, before):
        if not np.array_equal(s.positions, b):
            R.fail("snapshot positions modified", sig=dict(sig, clause="input_modified"), sub="C16.blur.values")
    if not np.array_equal(cond, cond0):
        R.fail("condition array modified", sig=dict(sig, clause="input_modified"), sub="C16.blur.values")
    R.outcome([gp, gv])
    R.nontrivial = ncontrib > 0 and npts > 1
    return R


# ================================================================================= time_average
INTERVALS = [("0.002", 100), ("0.002", 50), ("0.002", 200), ("0.001", 300), ("0.005", 7), ("0.0025", 4)]


def gen_window(tier, seed):
    for T in range(2, 9):
        for dt, dstep in INTERVALS:
            interval = Decimal(dt) * dstep
            for m in range(2, 2 * T + 2):  # period = m/2 intervals: exact multiples (m even) and half-way values
                period = interval * m / 2
                for kind in ("real", "complex"):
                    for N, t0 in ((1, 0), (3, 1000)):
                        if tier == "quick" and (N, kind) in ((1, "complex"), (3, "real")):
                            continue
                        yield {"T": T, "dt": dt, "dstep": dstep, "period": str(period), "kind": kind, "N": N, "t0": t0, "seed": seed}
            # periods that are NOT whole numbers of dt, 0.4 dt below / above an exact multiple of the frame interval (floor must give k-1 / k;
            # rounding the period to whole steps first gives k / k)
            for k in range(1, T + 1):
                for sgn in (-1, 1):
                    period = interval * k + sgn * Decimal(dt) * Decimal("0.4")
                    if period < interval:
                        continue  # a window of zero frames is outside the statement
                    yield {"T": T, "dt": dt, "dstep": dstep, "period": str(period), "kind": "complex", "N": 3, "t0": 1000, "seed": seed}


def run_window(case):
    from PyMatterSim.reader.reader_utils import Snapshots
    from PyMatterSim.utils.coarse_graining import time_average

    R = Result()
    T, N = case["T"], case["N"]
    w = G.ref_window(case["period"], case["dt"], case["dstep"])
    m2 = (Decimal(case["period"]) / (Decimal(case["dt"]) * case["dstep"]))
    exact = m2 == m2.to_integral_value()
    sig = {"exact_multiple": bool(exact), "even_window": w % 2 == 0, "kind": case["kind"]}
    # window-identifying values: sum over frames n..n+w-1 of 2^t is different for every (n, w)
    x = np.zeros((T, N), dtype=complex if case["kind"] == "complex" else float)
    for t in range(T):
        for i in range(N):
            x[t, i] = 2.0**t * (1 + i) + 0.125 * i
            if case["kind"] == "complex":
                x[t, i] += 1j * (3.0**t - 5 * i)
    H = np.diag([4.0, 4.0])
    pos = [[1.0 + 0.5 * i, 2.0] for i in range(N)]
    snaps = Snapshots(T, [mk_snap(pos, H, [1] * N, ts=case["t0"] + case["dstep"] * t) for t in range(T)])
    x0 = x.copy()
    res, mid = time_average(snaps, x, float(case["period"]), float(case["dt"]))
    res, mid = np.asarray(res), np.asarray(mid)
    rows = res.shape[0]
    R.elem = max(1, rows)
    R.outcome({"rows": rows, "mid": mid.tolist(), "res": res})
    R.nontrivial = w < T
    if res.ndim != 2 or res.shape[1] != N:
        R.fail(f"result shape {res.shape}", sig=dict(sig, clause="shape"), sub="C16.window.mean")
        return R
    if len(mid) != rows:
        R.fail(f"{len(mid)} centre indices for {rows} rows", sig=dict(sig, clause="count"), sub="C16.window.centre")
        return R
    means = G.ref_window_means(x0, w)  # starts 0..T-w
    if rows > len(means) or (w < T and rows < 1):
        R.fail(f"T={T}, window {w}: {rows} rows returned, admissible 1..{len(means)}", sig=dict(sig, clause="rows"), sub="C16.window.length")
        return R
    for n in range(rows):
        if not np.allclose(res[n], means[n], rtol=RT, atol=AT):
            # which window would explain the observed row?
            expl = None
            for w2 in range(1, T + 1):
                for n2 in range(0, T - w2 + 1):
                    if np.allclose(res[n], x0[n2:n2 + w2].sum(axis=0) / w2, rtol=RT, atol=AT):
                        expl = (n2, w2)
            if expl is not None and expl[1] != w:
                R.fail(f"period {case['period']} / interval {case['dt']}*{case['dstep']}: row {n} is the mean over {expl[1]} frames from {expl[0]}, "
                       f"expected window floor(period/interval) = {w}", sig=dict(sig, clause="length"), exp=w, obs=expl[1], sub="C16.window.length")
            else:
                R.fail(f"row {n} is not the mean over frames {n}..{n + w - 1}" + (f" (it is the mean over {expl[1]} frames from {expl[0]})" if expl else ""),
                       sig=dict(sig, clause="mean"), exp=means[n], obs=res[n], sub="C16.window.mean")
            break
    for n in range(rows):
        c = n + (w - 1) / 2.0
        if abs(float(mid[n]) - c) > 0.5 + 1e-12 or float(mid[n]) != int(mid[n]):
            R.fail(f"window {w} starting at {n}: centre index {mid[n]!r}, central frame is {c}", sig=dict(sig, clause="centre"),
                   exp=[n + (w - 1) // 2, n + w // 2], obs=mid.tolist(), sub="C16.window.centre")
            break
    if not np.array_equal(x, x0):
        R.fail("input property modified", sig=dict(sig, clause="input_modified"), sub="C16.window.mean")
    return R


# ======================================================================================= C16.scale
SCALE_N = [64, 65, 130, 257]
SCALE_GRIDS = [[17, 13], [16, 16], [13, 17], [9, 8, 7], [5, 17, 3], [3, 5, 17]]
SCALE_T = [63, 64, 65, 130]
SCALE_W = [2, 3, 7, 31, 32, 33, 63, 64, 65, 100]
SP_KINDS = ["first", "last", "formula", "wide", "one"]


def gen_scale(tier, seed):
    q = tier == "quick"
    k = 0
    for N in SCALE_N:
        for lk in SP_KINDS:
            for rank in (0, 1, 2):
                for F in (1, 3):
                    k += 1
                    if q and (k + rank) % 2:
                        continue
                    yield {"kind": "spatial", "N": N, "lk": lk, "rank": rank, "F": F, "dtype": "complex" if k % 3 == 0 else "float",
                           "nmax": "equal" if k % 4 == 1 else "default", "save": k % 5 == 0, "seed": seed}
    k = 0
    for ng in SCALE_GRIDS:
        d = len(ng)
        for N in (1, 65, 130):
            for mi, m in enumerate(A.masks(d)):
                for rank in (0, 1, 2):
                    k += 1
                    if q and (k % 4 or (N == 1 and mi)):
                        continue
                    if not q and N == 1 and mi > 1:
                        continue
                    yield {"kind": "blur", "ngrids": ng, "N": N, "ppp": m, "rank": rank, "sigma": 0.5 if k % 2 else 2.0, "F": 2 if k % 3 == 0 else 1,
                           "save": k % 5 == 0, "seed": seed}
        # the documented defaults of the signature: sigma = 2.0, ppp = periodic in every direction, gaussian_cut = 6.0, no output file
        for rank in (0, 1):
            yield {"kind": "blur", "ngrids": ng, "N": 65, "ppp": [1] * d, "rank": rank, "sigma": 2.0, "F": 1, "save": False, "defaults": True, "seed": seed}
    for T in SCALE_T:
        for w in SCALE_W:
            if w >= T:
                continue
            for (dt, dstep) in (INTERVALS if not q else INTERVALS[:1] + INTERVALS[3:4]):
                for half in (False, True):
                    for kind in ("real", "complex"):
                        if q and (kind == "complex") != ((w + T) % 3 == 0):
                            continue
                        interval = Decimal(dt) * dstep
                        period = interval * (2 * w + (1 if half else 0)) / 2
                        yield {"kind": "window", "T": T, "w": w, "dt": dt, "dstep": dstep, "period": str(period), "vkind": kind, "N": 3, "seed": seed}


def run_scale(case):
    return {"spatial": scale_spatial, "blur": scale_blur, "window": scale_window}[case["kind"]](case)


def scale_spatial(case):
    from PyMatterSim.utils.coarse_graining import spatial_average

    R = Result()
    N, F, rank = case["N"], case["F"], case["rank"]
    frames = [X.lists(N, f, case["lk"]) for f in range(F)]
    x = X.values((F, N) + (3,) * rank, case["dtype"] == "complex")
    sig = {"kind": "spatial", "rank": rank, "lists": case["lk"], "multi_frame": F > 1, "dtype": case["dtype"], "nmax": case["nmax"], "scale": True}
    write_neighbor_file("nl_c16s.dat", frames)
    x0 = x.copy()
    kw = {}
    if case["nmax"] == "equal":
        kw["Nmax"] = max(len(nb) for fr in frames for nb in fr)
    if case["save"]:
        kw["outputfile"] = "sp_c16s.npy"
    got = np.asarray(spatial_average(x, "nl_c16s.dat", **kw))
    os.remove("nl_c16s.dat")
    ref = G.ref_spatial_average(x0, frames)
    R.elem = F * N
    if got.shape != ref.shape:
        R.fail(f"shape {got.shape} != {ref.shape}", sig=dict(sig, clause="shape"))
        return R
    if not np.allclose(got, ref, rtol=RT, atol=AT):
        bad = np.argwhere(~np.isclose(got, ref, rtol=RT, atol=AT))[0]
        f, i = int(bad[0]), int(bad[1])
        R.fail(f"N={N} lists={case['lk']}: frame {f} particle {i} (cn {len(frames[f][i])}): got {np.asarray(got[f, i]).ravel()[:3]!r}, expected "
               f"(x_i + sum_j x_j)/(1+cn) = {np.asarray(ref[f, i]).ravel()[:3]!r}", sig=dict(sig, clause="mean"))
    if case["save"]:
        if not os.path.exists("sp_c16s.npy") or not np.array_equal(np.load("sp_c16s.npy"), got):
            R.fail("saved file differs from the returned array", sig=dict(sig, clause="file"))
        if os.path.exists("sp_c16s.npy"):
            os.remove("sp_c16s.npy")
    if not np.array_equal(x, x0):
        R.fail("input property modified", sig=dict(sig, clause="input_modified"))
    R.outcome(got)
    R.nontrivial = len({len(nb) for nb in frames[0]}) > 1
    return R


def scale_blur(case):
    from PyMatterSim.reader.reader_utils import Snapshots
    from PyMatterSim.utils.coarse_graining import gaussian_blurring

    R = Result()
    ng, N, F, rank, seed = case["ngrids"], case["N"], case["F"], case["rank"], case["seed"]
    d = len(ng)
    ppp = np.array(case["ppp"])
    sigma, cut = case["sigma"], (6.0 if case.get("defaults") else CUTS["in"])
    sig = {"kind": "blur", "defaults": bool(case.get("defaults")), "d": d, "rank": rank, "square": len(set(ng)) == 1, "masked": bool((ppp == 0).any()), "multi_frame": F > 1, "scale": True}
    frames = []
    for f in range(F):
        lo = np.array(BOX[f]["lo"][:d])
        L = np.array(BOX[f]["L"][:d])
        pos = lo + np.array(A.generic_points(seed, N, d, tag=f"bls{d}{N}{f}_")) * L
        frames.append((lo, L, pos))
    cond = X.values((F, N) + (d,) * rank, False, salt=3) + 0.5
    npts = int(np.prod(ng))
    ref_pts = []
    for (lo, L, pos) in frames:
        pts = X.grid(np.column_stack((lo, lo + L)), ng)
        _, margin, _, diff = X.blur(pts, pos, np.diag(L), ppp, cond[0], sigma, cut)
        if margin < 1e-9 or frac_tie_margin(diff, np.diag(L), ppp) < 1e-9:
            return R.screen()
        ref_pts.append(pts)
    snaps = Snapshots(F, [mk_snap(pos, np.diag(L), [1] * N, lo=lo, ts=100 * f) for f, (lo, L, pos) in enumerate(frames)])
    before = [s.positions.copy() for s in snaps.snapshots]
    cond0 = cond.copy()
    out = "bl_c16s" if case["save"] else ""
    if case.get("defaults"):
        gp, gv = gaussian_blurring(snaps, cond, np.array(ng))
    else:
        gp, gv = gaussian_blurring(snaps, cond, np.array(ng), sigma, ppp, cut, outputfile=out)
    gp, gv = np.asarray(gp), np.asarray(gv)
    R.elem = npts * F
    if gp.shape != (F, npts, d):
        R.fail(f"grid_positions shape {gp.shape} != {(F, npts, d)}", sig=dict(sig, clause="shape"), sub="C16.blur.grid")
        return R
    if gv.shape != (F, npts) + cond.shape[2:]:
        R.fail(f"grid_property shape {gv.shape}", sig=dict(sig, clause="shape"), sub="C16.blur.values")
        return R
    ncontrib = 0
    for f, (lo, L, pos) in enumerate(frames):
        scale = float(np.max(np.abs(ref_pts[f]))) + 1.0
        want = sorted(tuple(np.round(p / scale, 10) + 0.0) for p in ref_pts[f])
        have = sorted(tuple(np.round(p / scale, 10) + 0.0) for p in gp[f])
        if want != have:
            missing = len(set(want) - set(have))
            R.fail(f"ngrids={ng} frame {f}: grid rows are not the Cartesian product of the linspaces ({missing} of {npts} points missing)",
                   sig=dict(sig, clause="grid"), sub="C16.blur.grid")
        elif not np.allclose(gp[f], ref_pts[f], rtol=0, atol=1e-10 * scale):
            k = int(np.argmax(np.abs(gp[f] - ref_pts[f]).max(axis=1) > 1e-10 * scale))
            R.fail(f"ngrids={ng} frame {f}: row {k} is {gp[f, k].tolist()}, expected {ref_pts[f, k].tolist()} (x slowest)", sig=dict(sig, clause="index"),
                   sub="C16.blur.index")
        # every row's value equals the reference sum at the position REPORTED for that row
        vals, margin, nc, _ = X.blur(gp[f], pos, np.diag(L), ppp, cond[f], sigma, cut)
        ncontrib += nc
        if margin >= 1e-9 and not np.allclose(gv[f], vals, rtol=RT, atol=AT):
            k = int(np.argwhere(~np.isclose(gv[f], vals, rtol=RT, atol=AT))[0][0])
            R.fail(f"ngrids={ng} N={N} frame {f} grid row {k} at {gp[f, k].tolist()}: value {np.asarray(gv[f, k]).ravel()[:3].tolist()!r}, reference "
                   f"{np.asarray(vals[k]).ravel()[:3].tolist()!r}", sig=dict(sig, clause="value"), sub="C16.blur.values")
    if case["save"]:
        for suffix, arr in (("_positions.npy", gp), ("_properties.npy", gv)):
            if not os.path.exists(out + suffix) or not np.array_equal(np.load(out + suffix), arr):
                R.fail(f"saved file {suffix} differs from the returned array", sig=dict(sig, clause="file"), sub="C16.blur.values")
            if os.path.exists(out + suffix):
                os.remove(out + suffix)
    for s_, b in zip(snaps.snapshots, before):
        if not np.array_equal(s_.positions, b):
            R.fail("snapshot positions modified", sig=dict(sig, clause="input_modified"), sub="C16.blur.values")
    if not np.array_equal(cond, cond0):
        R.fail("condition array modified", sig=dict(sig, clause="input_modified"), sub="C16.blur.values")
    R.outcome([gp, gv])
    R.nontrivial = ncontrib > 0
    return R


def scale_window(case):
    from PyMatterSim.reader.reader_utils import Snapshots
    from PyMatterSim.utils.coarse_graining import time_average

    R = Result()
    T, N = case["T"], case["N"]
    w = G.ref_window(case["period"], case["dt"], case["dstep"])
    assert w == case["w"]
    m2 = (Decimal(case["period"]) / (Decimal(case["dt"]) * case["dstep"]))
    sig = {"kind": "window", "exact_multiple": bool(m2 == m2.to_integral_value()), "even_window": w % 2 == 0, "vkind": case["vkind"], "scale": True}
    x = X.values((T, N), case["vkind"] == "complex", salt=1)
    H = np.diag([4.0, 4.0])
    pos = [[1.0 + 0.5 * i, 2.0] for i in range(N)]
    snaps = Snapshots(T, [mk_snap(pos, H, [1] * N, ts=1000 + case["dstep"] * t) for t in range(T)])
    x0 = x.copy()
    res, mid = time_average(snaps, x, float(case["period"]), float(case["dt"]))
    res, mid = np.asarray(res), np.asarray(mid)
    rows = res.shape[0]
    R.elem = max(1, rows)
    R.outcome({"rows": rows, "mid": mid.tolist(), "res": res})
    where = f"T={T} period={case['period']} interval={case['dt']}*{case['dstep']} (window {w})"
    if res.ndim != 2 or res.shape[1] != N:
        R.fail(f"result shape {res.shape} ({where})", sig=dict(sig, clause="shape"), sub="C16.window.mean")
        return R
    if len(mid) != rows:
        R.fail(f"{len(mid)} centre indices for {rows} rows ({where})", sig=dict(sig, clause="count"), sub="C16.window.centre")
        return R
    means = G.ref_window_means(x0, w)
    if rows > len(means) or rows < 1:
        R.fail(f"{rows} rows returned, admissible 1..{len(means)} ({where})", sig=dict(sig, clause="rows"), sub="C16.window.length")
        return R
    for n in range(rows):
        if not np.allclose(res[n], means[n], rtol=RT, atol=AT):
            R.fail(f"row {n} is not the mean over frames {n}..{n + w - 1} ({where})", sig=dict(sig, clause="mean"), exp=means[n], obs=res[n],
                   sub="C16.window.mean")
            break
    for n in range(rows):
        c = n + (w - 1) / 2.0
        if abs(float(mid[n]) - c) > 0.5 + 1e-12 or float(mid[n]) != int(mid[n]):
            R.fail(f"window starting at {n}: centre index {mid[n]!r}, central frame is {c} ({where})", sig=dict(sig, clause="centre"),
                   sub="C16.window.centre")
            break
    if not np.array_equal(x, x0):
        R.fail("input property modified", sig=dict(sig, clause="input_modified"), sub="C16.window.mean")
    return R


def subs(tier, seed):
    return [
        Sub("C16.spatial", gen_spatial, run_spatial,
            rule="all 4^3 = 64 neighbour topologies (every particle: any subset of the others, incl. none) of N=3 x ranks 0,1,2 x "
                 "F in {1,2,3} (a different topology per frame) x {float, complex}"
                 + (" x {id-ordered, reversed file lines}" if tier == "thorough" else "")
                 + "; all 8^4 = 4096 topologies of N=4 "
                 + ("x ranks x F (dtype / line order alternate)" if tier == "thorough" else "(rank/F/dtype cycle with the index)")
                 + "; every entry compared with (x_i + sum_j x_j)/(1+cn_i); non-trivial = some particle has a neighbour",
            bounds={"N": [3, 4], "ranks": [0, 1, 2], "F": [1, 2, 3]}),
        Sub("C16.blur", gen_blur, run_blur,
            rule="all ngrids in " + ("{1,2,3,4}^2 and {2,3,4}^3" if tier == "quick" else "{1..5}^2 and {1..4}^3")
                 + " x N in " + ("{1,3}" if tier == "quick" else "{1,2,3}") + " x ranks 0,1,2 x sigma x cut {2.5 inside, 12 outside the box diagonal} "
                 "x all masks, boxes with non-zero origin and unequal edges (a second frame with a different box for a slice); "
                 "sub-checks blur.grid (rows = Cartesian product, each once), blur.index (x slowest), blur.values (every row vs reference sum); "
                 "non-trivial = more than one grid point and at least one particle inside the cutoff",
            bounds={"ngrids_2d": 16 if tier == "quick" else 25, "ngrids_3d": 27 if tier == "quick" else 64}),
        Sub("C16.window", gen_window, run_window,
            rule="T = 2..8 frames x 6 (dt, step) intervals (0.2, 0.1, 0.4, 0.3, 0.035, 0.01) x period = m/2 intervals, m = 2..2T+1 "
                 "(every window 1..T as an exact multiple and as a half-way value) x real/complex; window length by rational arithmetic; "
                 "sub-checks window.length, window.mean, window.centre; non-trivial = w < T",
            bounds={"T": [2, 8], "intervals": len(INTERVALS)}),
        Sub("C16.scale", gen_scale, run_scale,
            rule="SIZE enumeration (one fixed value pattern per size): spatial_average with N in " + str(SCALE_N) + " x ragged harness-written lists "
                 "{max coordination at the first / last particle only, formula incl. isolated particles, one particle with 30 = default Nmax, first "
                 "particle with exactly one} x ranks 0-2 x F in {1,3} (a different topology per frame) x {default Nmax, Nmax = largest coordination "
                 "number} x outputfile; gaussian_blurring on the grids " + str(SCALE_GRIDS) + " x N in {1,65,130} x masks x ranks x sigma {0.5,2} "
                 "x cut 2.5 (inside the box), boxes with non-zero origin and unequal edges (a second frame with another box for a third), "
                 "outputfile, and calls that leave sigma / ppp / gaussian_cut at their documented defaults; time_average with T in " + str(SCALE_T) + " x windows " + str(SCALE_W) + " as exact decimal multiples and half-way "
                 "periods x intervals" + (" (every second / fourth combination in the quick tier)" if tier == "quick" else "")
                 + "; every entry compared (blurring: vectorised reference evaluated at the reported grid rows)",
            bounds={"N": SCALE_N, "grids": SCALE_GRIDS, "T": SCALE_T, "windows": SCALE_W}),
    ]
