"""C06 - relaxation functions (Dynamics.relaxation / LogDynamics.relaxation / Dynamics.sq4).

E2: explicit-state breadth-first search over frame-append histories.  A state is the trajectory built so
far (rebuilt on fresh Snapshots / Dynamics objects); in EVERY state (every frame count T >= 2) every row of
every requested implementation variant is compared with the reference model mc/ref/dyn.py (all lags, all
time origins).  A harness case is one root of the search (option vector + first event); the search below
the root is complete up to Tmax frames.
"""
import collections
import hashlib
import itertools
import math
import os

import numpy as np

from mc import alphabets as A
from mc.harness import Result, Sub
from mc.ref.base import mk_snaps, write_neighbor_file
from mc.ref import dyn as RD
from mc.ref import c06x as X
from mc.ref import c06y as Y

# Inputs on which the UNCHANGED tree does not satisfy the property (reported to the maintainer; see the final report of round 4).  The slices stay in
# the enumeration but are not executed while listed here.
KNOWN_OPEN = [
    # NOT a defect under this property, kept out of the enumeration for good: relaxation(condition=<0/1 integer array>) of Dynamics and
    # LogDynamics indexes WITH the integers instead of selecting the flagged particles (sq4 converts with astype(bool)).  The statement
    # quantifies over "selections (per-frame boolean masks)", so integer masks are outside its domain (written into ASSUMPTIONS).
    "cond_int", "cond_u8",
    # "log_int_dt" (LogDynamics(dt=<Python int>) truncated every column to integers) was repaired by /repo commit be6e362
]

ASSUMPTIONS = [
    "selections are arrays of dtype bool (the statement says boolean masks); 0/1 integer arrays are outside the domain: relaxation() would use "
    "them as indices",
    "trajectories: every particle moves per appended frame by one letter of {0, +s e_x, -s e_y, +b e_x (, +s e_z in 3D)}, "
    "s ~ 0.2, b ~ 0.9 (inside / outside every mobility cutoff); base positions, s and b are multiples of 2^-20 picked by "
    "VERIF_SEED, so all displacements are exact in binary floating point; nothing is claimed about other real values",
    "evenly spaced timesteps 500+100k for Dynamics, 500+{0,1,10,100,1000} for LogDynamics, dt = 0.002 (C06.scale also (dt, step) = (0.001, 300), (0.005, 7))",
    "chi4 is compared only for selections with the same number of selected particles in every frame (otherwise its N is undefined); "
    "selections whose size changes per frame are compared in every other column (per-origin means averaged over the origins)",
    "neighbour files are written by the harness (k nearest by minimum image, k = 1, 2, or ragged: 1 / 2 nearest alternating; every particle has >= 1 neighbour); "
    "the file is an input, the neighbour search itself is C05's subject",
    "wrapped == unwrapped is claimed (and generated) only for trajectories whose displacements stay below L/2 (4 steps of b < 4)",
    "sq4: a (lag, state) whose mobile subset is empty at some origin is outside the domain (division by sqrt(0)) and is skipped; "
    "Sq is documented to be rounded to 8 decimals per wave vector: tolerance 0.5e-8; the wave-vector set is the documented "
    "default set (integer vectors in [-n/2, n/2)^d with integer modulus)",
    "a squared displacement closer than 1e-9 to a squared cutoff makes Qt / chi4 undecidable: those two columns are then not "
    "compared in that state (never happens for seeds 0..2)",
    "alpha2 of a lag with zero msd is NaN in implementation and reference alike (0/0)",
    "float tolerance rtol 1e-9 / atol 1e-11",
    "strictness at the mobility cutoff (C06.tie): the docstring says slow = 'moving shorter than', fast = 'moving further than' the distance a*sigma: a "
    "particle whose squared displacement EQUALS (a*sigma)^2 bit for bit is neither slow nor fast (code: < and >).  The tie alphabet (steps 0.5 / 1.0, "
    "a = 0.5, sigma 1.0 / 2.0, dyadic coordinates, xu input, no cage) makes every comparison exact, so Qt, X4_Qt and sq4 are compared there without "
    "the margin screen; the same holds for a = 0 given explicitly (cutoff 0: a particle that did not move is neither slow nor fast)",
    "triclinic cells (C06.triclinic): 'no displacement exceeds half a box length' is read for a tilted cell as: every FRACTIONAL coordinate of every "
    "displacement with respect to the cell of its origin frame is inside (-1/2, 1/2), and no Cartesian component reaches L/2.  When the cell changes "
    "from frame to frame (same edge lengths, tilt 0 / +-Lx/2) wrapped == unwrapped is only defined if the images are consistent: a particle may "
    "have crossed only faces whose cell vector is the same in both frames of the pair (otherwise the wrapped coordinates do not determine the "
    "displacement); states outside this domain are not driven with x-only input.  The x-only path is documented to reduce with the cell of the "
    "ORIGIN frame of each pair.  A first frame that is orthogonal while later frames are tilted cannot be told apart from a reduction with the "
    "orthogonal cell inside this domain (the orthogonal cell shares the constant cell vector); the reverse order and alternating tilts can",
    "absolute scale (C06.dilation): diameters, box and displacements dilated together by 2^-33 / 2^+27 leave isf (wavenumber qconst/sigma), Qt, chi4 and "
    "alpha2 unchanged and scale msd by f^2; the cutoff margin and the msd tolerance are scaled by f^2",
    "x input given as periodic images several boxes away (+2, -3, +4 box lengths per frame, particle and axis) is wrapped input in the sense of the "
    "statement (the reduction is the documented minimum image, C02); x input with ppp = 1 on some axes only is wrapped along those axes only",
    "unwrapped (xu) input together with non-zero ppp: PBC removal is documented to happen only when ONLY wrapped coordinates are supplied, so the "
    "result equals the ppp = 0 result also for displacements larger than half a box (relaxation with selections, LogDynamics, sq4; xu and xu + x)",
    "max_neighbors: a value >= every coordination number is irrelevant (also when equal to the largest one); a smaller value means the reader keeps "
    "the FIRST max_neighbors entries of a list (documented by read_neighbors: 'the maximum number of neighboring particles to consider'), so the "
    "cage is the mean over those",
    "storage forms (C06.forms): positions as float32 (the coordinates are exactly representable; tolerance 2e-6 relative there, cutoff margin 1e-5), "
    "Fortran-ordered and non-contiguous position arrays, int32 particle types, a diameters dict with int values, ppp as bool / int32 array, the "
    "condition as uint8 / int 0/1 array (the documentation 'prefers' bool; sq4 converts with astype(bool))",
    "C06.scale enumerates SIZES (frames 63..129 x 2/5 particles, 64..257(1000) particles x 3/5 frames) with ONE fixed value pattern per size "
    "(mc/ref/c06x.py: mixed / arrested / ballistic / hopping / diffusive particles from the step alphabet {0, +-s e_a, +-b e_a}); the cell "
    "is the same in every frame (displacements between frames with different cells are not defined by the statement; the x-only path "
    "reduces with the cell of the origin frame) and species stay attached to the ids (diameters are taken from frame 0)",
    "C06.scale / C06.sequence neighbour lists are harness-written formula lists (distinct other ids, 1..4 neighbours, one particle with "
    "30 = max_neighbors in the 'wide' variant), different in every frame; coordination numbers never exceed max_neighbors (truncation "
    "to the first max_neighbors entries is documented by the reader, not by this property)",
    "C06.sequence: the same call on a re-used object must agree with the call on a fresh object within twice the float tolerance "
    "(both are within one tolerance of the definition); the fresh results themselves are compared with the reference",
]

COLS = "t isf Qt X4_Qt msd alpha2".split()
DT = 0.002
LOGSTEPS = [0, 1, 10, 100, 1000, 10000]
TWO20 = float(1 << 20)


def qz(x):
    return round(x * TWO20) / TWO20


# ------------------------------------------------------------------------------------------ alphabets
def steps_sb(seed):
    s = qz(0.2 + A.jitter(seed, "c06s", 0, 0.01))
    b = qz(0.9 + A.jitter(seed, "c06b", 0, 0.02))
    return s, b


def letter_vectors(seed, d):
    s, b = steps_sb(seed)
    z = [0.0] * d
    ex = list(z)
    ex[0] = s
    ey = list(z)
    ey[1] = -s
    bx = list(z)
    bx[0] = b
    out = [z, ex, ey, bx]
    if d == 3:
        ez = list(z)
        ez[2] = s
        out.append(ez)
    return out


LAYOUTS = {
    # N, d -> designed positions (box edge 8): "bulk" away from the faces, "face" so that the steps cross faces,
    # "tri" three nearly equidistant particles across a face (neighbour ranks flip under the steps)
    ("bulk", 2): [[2.0, 2.0, 2.0], [5.0, 3.0, 4.0]],
    ("face", 2): [[7.9, 4.0, 7.95], [3.0, 0.1, 0.05]],
    ("bulk", 3): [[2.0, 2.0, 2.0], [2.9, 2.1, 2.2], [2.1, 2.95, 1.9]],
    ("tri", 3): [[7.6, 0.3, 7.9], [0.5, 0.35, 0.1], [7.7, 1.25, 7.8]],
    ("tri", 4): [[7.6, 0.3, 7.9], [0.5, 0.35, 0.1], [7.7, 1.25, 7.8], [0.6, 1.4, 0.3]],
    # exact positions (no jitter): particle 0 sits on the origin face x = 0, particle 1 exactly on the opposite face x = L (and on y = z = 0)
    ("edge", 2): [[0.0, 4.0, 8.0], [8.0, 0.0, 0.0]],
}
TYPES = {2: [1, 2], 3: [1, 2, 1], 4: [1, 2, 1, 2]}
DIAMS = {"mixed": {1: 1.0, 2: 1.5}, "eq": {1: 1.0, 2: 1.0}, "tie": dict(Y.TIE_DIAM), "int": {1: 1, 2: 2},
         # one integer and one float value (the first particle's species carries the integer): a dtype inferred from the first looked-up value truncates 1.5
         "mixint": {1: 1, 2: 1.5}}
QCONST = {"2pi": 2 * math.pi, "5": 5.0, "0.0": 0.0, "0": 0}

JOINT = {
    (3, 2): [(1, 0, 2), (3, 1, 0), (0, 3, 1), (2, 2, 3)],
    (3, 3): [(1, 4, 2), (3, 1, 0), (0, 3, 4), (4, 2, 3)],
    (4, 2): [(1, 0, 2, 3), (3, 1, 0, 0), (0, 3, 1, 2), (2, 2, 3, 1)],
    (4, 3): [(1, 4, 2, 3), (3, 1, 0, 4), (0, 3, 4, 2), (4, 2, 3, 1)],
}


def base_positions(seed, layout, N, d):
    pts = LAYOUTS[(layout, N)]
    if layout == "edge":
        return [[float(pts[i][c]) for c in range(d)] for i in range(N)]
    return [[qz(pts[i][c] + A.jitter(seed, f"c06p{layout}{i}", c, 0.03)) for c in range(d)] for i in range(N)]


def masks_of_count(N, c):
    out = []
    for comb in itertools.combinations(range(N), c):
        out.append([i in comb for i in range(N)])
    return out


def event_alphabet(case):
    """List of events; an event = [letters per particle] (+ [mask index] when masks are part of the history)."""
    N, d = case["N"], case["d"]
    nl = 5 if d == 3 else 4
    if case["alpha"] == "pp":
        moves = [list(m) for m in itertools.product(range(nl), repeat=N)]
    elif case["alpha"] == "tri2":
        moves = [list(m) for m in Y.TRI_EVENTS]
    else:
        moves = [list(m) for m in JOINT[(N, d)]]
    if case["opts"]["sel"] == "event":
        nm = len(masks_of_count(N, case["maskc"]))
        return [m + [k] for m in moves for k in range(nm)]
    return moves


DEFAULT = {"mode": "xu", "diam": "mixed", "a": 0.3, "cal": "slow", "sel": "none", "neigh": 0, "qconst": "2pi"}
OPT_DOMS = collections.OrderedDict(
    [
        ("d", [2, 3]),
        ("mode", ["xu", "x", "both"]),
        ("diam", ["mixed", "eq"]),
        ("a", [0.3, 0.5]),
        ("cal", ["slow", "fast"]),
        ("sel", ["none", "type", "vary"]),
        ("neigh", [0, 1, 2, 3]),  # 3 = ragged (1 or 2 nearest, alternating)
        ("qconst", ["2pi", "5"]),
    ]
)


def option_vectors(maxdev, doms=OPT_DOMS):
    keys = list(doms)
    for combo in itertools.product(*[doms[k] for k in keys]):
        dev = sum(1 for k, v in zip(keys, combo) if v != doms[k][0])
        if maxdev is not None and dev > maxdev:
            continue
        yield dict(zip(keys, combo))


def mkcase(sub, N, d, Tmax, alpha, layout, opts, prefix, calls, L=None, ppp_xu=0, maskc=2, **extra):
    o = dict(DEFAULT)
    o.update(opts)
    c = {"sub": sub, "N": N, "d": d, "Tmax": Tmax, "alpha": alpha, "layout": layout, "opts": o, "prefix": prefix,
         "calls": calls, "L": L or [8.0] * d, "ppp_xu": ppp_xu, "maskc": maskc}
    c.update(extra)
    return c


def roots(sub, N, d, Tmax, alpha, layout, opts, calls, **kw):
    """One harness case per first event (so that the search is sharded over the workers)."""
    proto = mkcase(sub, N, d, Tmax, alpha, layout, opts, [], calls, **kw)
    evs = event_alphabet(proto)
    first = evs
    if proto["opts"]["sel"] == "event":
        # frame 0 carries a mask as well: the first event is preceded by the choice of the mask of frame 0
        nm = len(masks_of_count(N, proto["maskc"]))
        for m0 in range(nm):
            for e in first:
                yield mkcase(sub, N, d, Tmax, alpha, layout, opts, [e], calls, mask0=m0, **kw)
        return
    for e in first:
        yield mkcase(sub, N, d, Tmax, alpha, layout, opts, [e], calls, **kw)


# ------------------------------------------------------------------------------------------ state
class World:
    """Everything that does not change along a search: alphabet, base frame, option values."""

    def __init__(self, case, seed):
        self.case = case
        self.N, self.d = case["N"], case["d"]
        self.o = case["opts"]
        # absolute scale: box, positions, steps and diameters multiplied by an exact power of two (isf, Qt, chi4, alpha2 are scale-free, msd ~ f^2)
        self.f = 2.0 ** case["dil"] if case.get("dil") else 1.0
        self.L = np.array(case["L"], float) * self.f
        self.H = np.diag(self.L)
        self.cells = case.get("cells")  # name of a per-frame cell pattern (2D triclinic slice) or None
        if case.get("letters") == "tri":
            self.letters = np.array(Y.tri_letters(seed)) * self.f
            self.base = np.array(Y.tri_base(seed)) * self.f
        elif case.get("letters") == "tie":
            self.letters = np.array(Y.tie_letters(self.d))
            self.base = np.array(base_positions(seed, case["layout"], self.N, self.d))
        else:
            self.letters = np.array(letter_vectors(seed, self.d)) * self.f
            self.base = np.array(base_positions(seed, case["layout"], self.N, self.d)) * self.f
        self.exact = bool(case.get("exact"))  # every cutoff comparison is exact by construction: no margin screen
        self.dt = case.get("dt", DT)
        self.ppp_x = np.array(case.get("ppp_x", [1] * self.d), dtype=int)
        self.xform = case.get("xform", "wrap")
        self.form = case.get("form")
        self.maxnb = case.get("maxnb")
        self.types = np.array(TYPES[self.N])
        self.diam = DIAMS[self.o["diam"]] if self.f == 1.0 else {t: v * self.f for t, v in DIAMS[self.o["diam"]].items()}
        self.sigma = [self.diam[int(t)] for t in self.types]
        self.fast = self.o["cal"] == "fast"
        self.a = self.o["a"]  # passed on as given (float, or the int 0)
        self.qconst = QCONST[self.o["qconst"]]
        self.events = event_alphabet(case)
        self.masks = masks_of_count(self.N, case["maskc"]) if self.o["sel"] == "event" else None

    def build(self, hist):
        """history -> (frames unwrapped, per-frame masks or None)"""
        xs = [self.base.copy()]
        for ev in hist:
            xs.append(xs[-1] + self.letters[np.array(ev[: self.N])])
        T = len(xs)
        sel = self.o["sel"]
        if sel == "none":
            m = None
        elif sel == "type":
            m = [list(self.types == 1) for _ in range(T)]
        elif sel == "vary":
            # a different particle is left out in every frame (constant count N-1)
            m = [[i != (t % self.N) for i in range(self.N)] for t in range(T)]
        elif sel == "count":
            # the NUMBER of selected particles changes from frame to frame (1, 2, .., N, 1, ..): every origin contributes its own
            # per-origin mean (mean of means, not a pooled mean); chi4's N is undefined then and X4_Qt is not compared
            m = [[i <= (t % self.N) for i in range(self.N)] for t in range(T)]
        elif sel == "countdown":
            m = [[i >= (t % self.N) for i in range(self.N)] for t in range(T)]
        else:
            m = [self.masks[self.case.get("mask0", 0)]] + [self.masks[ev[self.N]] for ev in hist]
        return xs, m

    def Hs(self, T):
        """one cell for all frames, or one cell per frame"""
        return self.H if not self.cells else np.array(Y.cell_seq(self.cells, T, list(self.L), tilt=Y.TRI_TILT * self.f))

    def x_frames(self, xs):
        """what a dump with x y z columns would contain for the unwrapped trajectory xs"""
        T = len(xs)
        if self.cells:
            Hs = self.Hs(T)
            return [Y.wrap_cell(x, Hs[t])[0] for t, x in enumerate(xs)]
        if self.xform == "img":
            n = Y.image_offsets(T, self.N, self.d, self.ppp_x)
            return [RD.wrap(x, self.L) + n[t] * self.L[None, :] for t, x in enumerate(xs)]
        if self.xform == "partial":
            return [np.where(self.ppp_x[None, :] > 0, RD.wrap(x, self.L), np.asarray(x, float)) for x in xs]
        return [RD.wrap(x, self.L) for x in xs]

    def x_domain(self, xs):
        """domain of the wrapped == unwrapped clause for this world"""
        if self.cells:
            return Y.x_domain(xs, self.Hs(len(xs)))
        m = 0.0
        bound = np.inf
        for c in range(self.d):
            if self.ppp_x[c]:
                m = max(m, RD.max_displacement([np.asarray(x)[:, c:c + 1] for x in xs]))
                bound = min(bound, float(self.L[c]) / 2.0)
        return m < bound - 1e-6 * self.f

    def ref_lists(self, nls):
        """the lists the reader keeps: the first max_neighbors entries"""
        if nls is None or self.maxnb is None:
            return nls
        return [[nb[: self.maxnb] for nb in fr] for fr in nls]

    def neighbour_lists(self, xs):
        k = self.o["neigh"]
        if not k:
            return None
        if k == 3:
            # ragged lists: particle i lists its 1 (even i) or 2 (odd i) nearest - unequal coordination numbers, so the table read
            # back from the file is zero-padded (and 0 is also the index of the first particle)
            out = []
            for x in xs:
                two = RD.knearest(RD.wrap(x, self.L), self.H, [1] * self.d, 2)
                out.append([nb[: 1 + (i % 2)] for i, nb in enumerate(two)])
            return out
        return [RD.knearest(RD.wrap(x, self.L), self.H, [1] * self.d, k) for x in xs]


def fresh_objects(W, xs, mode, steps, cls, nfile):
    """Fresh Snapshots + Dynamics/LogDynamics object for one state."""
    from PyMatterSim.dynamic.dynamics import Dynamics, LogDynamics

    C = Dynamics if cls == "lin" else LogDynamics
    kw = dict(dt=W.dt, diameters=dict(W.diam), a=W.a, cal_type="fast" if W.fast else "slow", neighborfile=nfile)
    if W.maxnb is not None:
        kw["max_neighbors"] = W.maxnb
    ones = W.ppp_x.copy()
    if W.form == "ppp_bool":
        ones = ones.astype(bool)
    elif W.form == "ppp_i32":
        ones = ones.astype(np.int32)
    Hs = W.Hs(len(xs))

    def mk(frames):
        sn = mk_snaps(frames, Hs, W.types, steps=steps)
        return Y.restore(sn, W.form) if W.form in ("f32", "fortran", "strided", "types_i32") else sn

    snaps = []
    if mode == "xu":
        xu = mk(xs)
        snaps.append(xu)
        ppp = ones if W.case["ppp_xu"] else np.zeros(W.d, dtype=int)
        D = C(xu_snapshots=xu, ppp=ppp, **kw)
    elif mode == "x":
        xw = mk(W.x_frames(xs))
        snaps.append(xw)
        D = C(x_snapshots=xw, ppp=ones, **kw)
    else:
        xu = mk(xs)
        xw = mk(W.x_frames(xs))
        snaps += [xu, xw]
        D = C(xu_snapshots=xu, x_snapshots=xw, ppp=ones, **kw)
    return D, snaps


def as_condition(W, masks, cls):
    """the selection argument in the storage form of the case"""
    if masks is None:
        return None
    m = np.array(masks[0] if cls == "log" else masks, dtype=bool)
    if W.form == "cond_u8":
        return m.astype(np.uint8)
    if W.form == "cond_int":
        return m.astype(np.int64)
    return m


def lin_steps(T):
    return [500 + 100 * t for t in range(T)]


def log_steps(T):
    return [500 + LOGSTEPS[t] for t in range(T)]


def table_diff(obs, ref, skipq, skipx4=False, rtol=1e-9, atol=1e-11, msd_scale=1.0):
    """First differing (row, column) or None."""
    if obs.shape != ref.shape:
        return ("shape", -1, obs.shape, ref.shape)
    for j, c in enumerate(COLS):
        if skipq and c in ("Qt", "X4_Qt"):
            continue
        if skipx4 and c == "X4_Qt":
            continue
        a_, b_ = obs[:, j], ref[:, j]
        ok = np.isclose(a_, b_, rtol=rtol, atol=atol * (msd_scale if c == "msd" else 1.0), equal_nan=True)
        if not ok.all():
            k = int(np.argmin(ok))
            return (c, k, float(a_[k]), float(b_[k]))
    return None


def csv_mismatch(path, res):
    """The requested output file must hold the returned table (same columns, same rows; pandas writes repr precision)."""
    import pandas as pd

    if not os.path.exists(path):
        return "file was not written"
    back = pd.read_csv(path)
    os.remove(path)
    if list(back.columns) != list(res.columns):
        return f"columns {list(back.columns)} != returned {list(res.columns)}"
    if back.shape != res.shape:
        return f"shape {back.shape} != returned {res.shape}"
    if not np.allclose(back.values.astype(float), res.values.astype(float), rtol=1e-12, atol=1e-14, equal_nan=True):
        return "values differ from the returned table"
    return None


# ------------------------------------------------------------------------------------------ relaxation
def run_relax(case):
    W = World(case, int(case["seed"]))
    R = Result()
    o = W.o
    sigbase = {"d": W.d, "mode": o["mode"], "cal": o["cal"], "sel": o["sel"], "neigh": o["neigh"], "diam": o["diam"]}
    for k_ in ("cells", "xform", "form", "letters", "dil"):
        if case.get(k_):
            sigbase[k_] = case[k_]
    if W.form in KNOWN_OPEN:
        return R.screen()
    rtol, atol, cutmargin = (2e-6, 2e-6, 1e-5) if W.form == "f32" else (1e-9, 1e-11, RD.CUT_MARGIN * W.f ** 2)
    h = hashlib.sha1()
    seen = set()
    queue = collections.deque([list(case["prefix"])])
    states = transitions = rows = 0
    x_calls = x_outside = 0
    ties = 0
    skipped_q = 0
    varied_nl = 0
    chi_nonzero = 0
    q_mixed = 0
    nfail = 0
    maxdisp_bound = float(W.L.min()) / 2.0
    modes_for = {"lin": o["mode"], "log": o["mode"], "x": "x", "both": "both", "xu": "xu", "logx": "x"}
    while queue:
        hist = queue.popleft()
        xs, masks = W.build(hist)
        T = len(xs)
        key = hashlib.sha1(np.asarray(xs).tobytes() + repr(masks).encode()).digest()
        if key in seen:
            continue
        seen.add(key)
        states += 1
        nls = W.neighbour_lists(xs)
        nfile = ""
        if nls is not None:
            nfile = "c06_nl.dat"
            write_neighbor_file(nfile, nls)
            if any(nls[t] != nls[0] for t in range(1, T - 1)):
                varied_nl += 1
        xl = [x.tolist() for x in xs]
        small = W.x_domain(xs)
        refs = {}
        for call in case["calls"]:
            cls = "log" if call in ("log", "logx") else "lin"
            mode = modes_for[call]
            if mode in ("x",):
                x_calls += 1
                if not small:
                    x_outside += 1
                    continue  # outside the stated domain of the wrapped == unwrapped clause
            if cls == "log" and isinstance(W.dt, int) and "log_int_dt" in KNOWN_OPEN:
                continue
            steps = log_steps(T) if cls == "log" else lin_steps(T)
            if cls not in refs:
                times = [(s_ - steps[0]) * W.dt for s_ in steps]
                refs[cls] = RD.ref_relaxation(xl, W.sigma, W.a, W.fast, W.qconst, times, sel=masks, nls=W.ref_lists(nls), log=(cls == "log"))
            ref, margin, nsel = refs[cls]
            ties += int(margin == 0.0)
            D, snaps = fresh_objects(W, xs, mode, steps, cls, nfile)
            before = [[s_.positions.copy() for s_ in sn.snapshots] for sn in snaps]
            cond = as_condition(W, masks, cls)
            csvf = "c06_out.csv" if case.get("csv") else ""
            if csvf and os.path.exists(csvf):
                os.remove(csvf)
            res = D.relaxation(qconst=W.qconst, condition=cond, **({"outputfile": csvf} if csvf else {}))
            clause = case["sub"].split(".", 1)[1]
            if csvf:
                msg = csv_mismatch(csvf, res)
                if msg:
                    R.fail(f"outputfile of {'LogDynamics' if cls == 'log' else 'Dynamics'}.relaxation: {msg}",
                           sig=dict(sigbase, clause="outputfile", cls=cls))
                    nfail += 1
            if list(res.columns) != COLS:
                R.fail(f"columns {list(res.columns)}", sig=dict(sigbase, clause=clause, col="columns"), exp=COLS, obs=list(res.columns))
                nfail += 1
                continue
            obs = res.values.astype(float)
            skipq = margin < cutmargin and not W.exact
            skipped_q += int(skipq)
            df = table_diff(obs, ref, skipq, skipx4=(cls == "lin" and len(nsel) > 1), rtol=rtol, atol=atol, msd_scale=W.f ** 2)
            rows += ref.shape[0]
            if df is not None:
                nfail += 1
                col, k, ov, rv = df
                R.fail(
                    f"{'LogDynamics' if cls == 'log' else 'Dynamics'}.relaxation[{mode}] T={T} history={hist}: column {col} row {k} "
                    f"(lag {k + 1}) = {ov!r}, reference {rv!r}",
                    sig=dict(sigbase, clause=clause, cls=cls, call_mode=mode, col=col),
                    exp={"table": ref, "history": hist}, obs=obs,
                )
            for sn, bf in zip(snaps, before):
                for s_, b_ in zip(sn.snapshots, bf):
                    if not np.array_equal(s_.positions, b_):
                        R.fail("snapshot positions modified by relaxation()", sig=dict(sigbase, clause="input_modified"))
                        nfail += 1
            if cls == "lin" and np.nanmax(np.abs(obs[:, 3])) > 1e-9:
                chi_nonzero += 1
            if np.any((obs[:, 2] > 0.0) & (obs[:, 2] < 1.0)):
                q_mixed += 1
            h.update(np.round(np.nan_to_num(obs, nan=-7.0), 9).tobytes())
        if nfile:
            os.remove(nfile)
        if nfail >= 3:
            break
        if T < case["Tmax"]:
            for ev in W.events:
                queue.append(hist + [ev])
                transitions += 1
    R.out = h.hexdigest()[:16]
    R.states = states
    R.transitions = transitions + len(case["prefix"])
    R.elem = rows
    # some state has a non-zero chi4 (needs origins with different overlap) / for the single-origin variant an overlap strictly
    # between 0 and 1 in some row
    R.nontrivial = (chi_nonzero > 0) if case["calls"] != ["log"] else (q_mixed > 0)
    if case.get("need_x"):
        # the x-only calls are the point of the case: at least a third of the states must be inside the domain of the clause
        R.nontrivial = R.nontrivial and x_calls > 0 and 3 * (x_calls - x_outside) >= x_calls
    if case.get("need_tie"):
        R.nontrivial = R.nontrivial and ties > 0
    R.notes = {"skipped_q": skipped_q, "varied_nl": varied_nl, "x_calls": x_calls, "x_outside": x_outside, "ties": ties}
    return R


# ------------------------------------------------------------------------------------------ S4
def run_s4(case):
    W = World(case, int(case["seed"]))
    R = Result()
    o = W.o
    sigbase = {"d": W.d, "mode": o["mode"], "cal": o["cal"], "sel": o["sel"], "neigh": o["neigh"], "clause": "s4"}
    for k_ in ("form", "letters"):
        if case.get(k_):
            sigbase[k_] = case[k_]
    qvecs = RD.qset(W.L, case["qrange"], W.d)
    h = hashlib.sha1()
    seen = set()
    queue = collections.deque([list(case["prefix"])])
    states = transitions = rows = 0
    ncalls = nskip = nties = 0
    multi = 0
    nfail = 0
    while queue:
        hist = queue.popleft()
        xs, masks = W.build(hist)
        T = len(xs)
        key = hashlib.sha1(np.asarray(xs).tobytes() + repr(masks).encode()).digest()
        if key in seen:
            continue
        seen.add(key)
        states += 1
        nls = W.neighbour_lists(xs)
        nfile = ""
        if nls is not None:
            nfile = "c06_nl4.dat"
            write_neighbor_file(nfile, nls)
        xl = [x.tolist() for x in xs]
        steps = lin_steps(T)
        for k in range(1, T):
            ref = RD.ref_sq4(xl, xl, W.L.tolist(), W.sigma, W.a, W.fast, k, qvecs, sel=masks, nls=W.ref_lists(nls))
            if ref is None or (ref[1] < RD.CUT_MARGIN and not W.exact):
                nskip += 1
                continue
            nties += int(ref[1] == 0.0)
            groups, margin, sizes = ref
            D, snaps = fresh_objects(W, xs, o["mode"], steps, "lin", nfile)
            cond = as_condition(W, masks, "lin")
            # the lag is passed the way a user would type it (0.6, not 3 * 0.2 = 0.6000000000000001)
            csvf = "c06_s4.csv" if case.get("csv") else ""
            if csvf and os.path.exists(csvf):
                os.remove(csvf)
            res = D.sq4(t=round(k * 100 * DT, 9), qrange=case["qrange"], condition=cond, **({"outputfile": csvf} if csvf else {}))
            ncalls += 1
            if csvf:
                msg = csv_mismatch(csvf, res)
                if msg:
                    R.fail(f"outputfile of Dynamics.sq4: {msg}", sig=dict(sigbase, col="outputfile"))
                    nfail += 1
            if max(sizes) >= 2 and len(set(sizes)) >= 1:
                multi += 1
            if list(res.columns) != ["q", "Sq"]:
                R.fail(f"columns {list(res.columns)}", sig=dict(sigbase, col="columns"))
                nfail += 1
                continue
            obs = res.values.astype(float)
            exp = np.array([[g[1], g[2]] for g in groups])
            rows += len(exp)
            bad = None
            if obs.shape != exp.shape:
                bad = f"{obs.shape[0]} distinct |q|, reference {exp.shape[0]}"
            elif not np.allclose(obs[:, 0], exp[:, 0], rtol=0, atol=0.6e-8):
                bad = f"q column differs: {obs[:, 0].tolist()} vs {exp[:, 0].tolist()}"
            elif not np.allclose(obs[:, 1], exp[:, 1], rtol=1e-9, atol=0.5000001e-8 + 1e-11):
                j = int(np.argmax(np.abs(obs[:, 1] - exp[:, 1])))
                bad = f"S4(q={exp[j, 0]:.6f}) = {obs[j, 1]!r}, reference {exp[j, 1]!r} (mobile subset sizes per origin {sizes})"
            if bad:
                nfail += 1
                R.fail(f"Dynamics.sq4[{o['mode']}] T={T} lag={k} history={hist}: {bad}", sig=dict(sigbase, col="Sq"),
                       exp={"table": exp, "history": hist, "lag": k}, obs=obs)
            h.update(np.round(obs, 7).tobytes())
        if nfile:
            os.remove(nfile)
        if nfail >= 3:
            break
        if T < case["Tmax"]:
            for ev in W.events:
                queue.append(hist + [ev])
                transitions += 1
    R.out = h.hexdigest()[:16]
    R.states = states
    R.transitions = transitions + len(case["prefix"])
    R.elem = rows
    R.nontrivial = multi > 0 and (nties > 0 or not case.get("need_tie"))
    R.notes = {"calls": ncalls, "outside_domain": nskip, "ties": nties}
    return R


# ------------------------------------------------------------------------------------------ generators
def gen_linear(tier, seed):
    S = "C06.linear"
    calls = ["lin"]
    for d in (2, 3):
        yield from roots(S, 2, d, 4, "pp", "bulk", {}, calls)
    # unwrapped input, periodic flags set, box smaller than the displacements: no reduction may happen
    yield from roots(S, 2, 2, 3, "pp", "bulk", {}, ["xu", "both"], L=[2.0, 2.0], ppp_xu=1)
    yield from roots(S, 2, 2, 3, "pp", "bulk", {"qconst": "5", "diam": "eq"}, calls, csv=True)
    if tier == "thorough":
        yield from roots(S, 3, 2, 4, "pp", "bulk", {}, calls)
        yield from roots(S, 2, 2, 5, "pp", "bulk", {}, calls)
        yield from roots(S, 3, 3, 3, "pp", "bulk", {}, calls)
        yield from roots(S, 2, 3, 5, "pp", "bulk", {}, calls)


def gen_log(tier, seed):
    S = "C06.log"
    calls = ["log"]
    for d in (2, 3):
        yield from roots(S, 2, d, 4, "pp", "bulk", {}, calls)
    for o in ({"cal": "fast"}, {"neigh": 1}, {"sel": "type"}, {"mode": "x"}, {"neigh": 2, "sel": "vary"}, {"neigh": 3}):
        yield from roots(S, 3, 2, 3, "pp", "tri", o, calls, csv=("sel" in o))
    if tier == "thorough":
        yield from roots(S, 3, 2, 5, "joint", "tri", {"neigh": 1}, calls)
        yield from roots(S, 3, 3, 3, "pp", "tri", {"neigh": 2}, calls)
        yield from roots(S, 2, 2, 5, "pp", "bulk", {}, calls)
        yield from roots(S, 2, 2, 5, "pp", "face", {"mode": "x"}, calls)
        yield from roots(S, 2, 3, 4, "pp", "face", {"mode": "x"}, calls)


def gen_wrapped(tier, seed):
    S = "C06.wrapped_eq_unwrapped"
    calls = ["xu", "x", "both"]
    yield from roots(S, 2, 2, 4, "pp", "face", {}, calls)
    yield from roots(S, 2, 3, 3, "pp", "face", {}, calls)
    yield from roots(S, 2, 2, 3, "pp", "face", {}, calls, L=[8.0, 16.0])
    yield from roots(S, 2, 2, 3, "pp", "edge", {}, calls)  # particles exactly on the box faces / at the origin
    if tier == "thorough":
        yield from roots(S, 2, 3, 3, "pp", "edge", {}, calls)
        yield from roots(S, 2, 2, 5, "pp", "face", {}, calls)
        yield from roots(S, 2, 3, 4, "pp", "face", {}, calls)
        yield from roots(S, 3, 2, 3, "pp", "tri", {}, calls)
        yield from roots(S, 3, 2, 5, "joint", "tri", {}, calls)
        yield from roots(S, 2, 3, 3, "pp", "face", {}, calls, L=[8.0, 16.0, 8.0])


def gen_cage(tier, seed):
    S = "C06.cage"
    for k in (1, 2, 3):
        yield from roots(S, 3, 2, 3, "pp", "tri", {"neigh": k}, ["xu", "x"])
    yield from roots(S, 4, 2, 4, "joint", "tri", {"neigh": 3}, ["xu", "x"])
    yield from roots(S, 3, 3, 4, "joint", "tri", {"neigh": 1}, ["xu", "x"])
    yield from roots(S, 4, 2, 4, "joint", "tri", {"neigh": 2}, ["xu", "x"])
    if tier == "thorough":
        yield from roots(S, 3, 2, 4, "pp", "tri", {"neigh": 2}, ["xu"])
        for k in (1, 2):
            yield from roots(S, 3, 3, 3, "pp", "tri", {"neigh": k}, ["xu", "x"])
            yield from roots(S, 4, 3, 5, "joint", "tri", {"neigh": k}, ["xu", "x"])
            yield from roots(S, 3, 2, 5, "joint", "tri", {"neigh": k}, ["xu", "x"])


def gen_selection(tier, seed):
    S = "C06.selection"
    # the mask of every frame is part of the appended event (all masks with c selected particles)
    for c in (1, 2):
        yield from roots(S, 3, 2, 4, "joint", "bulk", {"sel": "event"}, ["lin"], maskc=c)
    yield from roots(S, 3, 3, 3, "joint", "bulk", {"sel": "event"}, ["lin"], maskc=2)
    yield from roots(S, 2, 2, 3, "pp", "bulk", {"sel": "event"}, ["lin"], maskc=1)
    yield from roots(S, 3, 2, 3, "joint", "tri", {"sel": "event", "neigh": 1}, ["lin"], maskc=2)
    # selections whose SIZE changes from frame to frame (statement: "selections (per-frame boolean masks)")
    yield from roots(S, 3, 2, 4, "joint", "bulk", {"sel": "count"}, ["lin", "log"])
    yield from roots(S, 3, 3, 3, "joint", "bulk", {"sel": "countdown", "cal": "fast"}, ["lin"])
    yield from roots(S, 3, 2, 3, "joint", "tri", {"sel": "countdown", "neigh": 3}, ["lin"])
    if tier == "thorough":
        yield from roots(S, 4, 2, 4, "joint", "tri", {"sel": "count", "neigh": 1}, ["lin", "log"])
        yield from roots(S, 3, 2, 5, "joint", "bulk", {"sel": "countdown"}, ["lin"])
        yield from roots(S, 3, 2, 3, "pp", "bulk", {"sel": "event"}, ["lin"], maskc=2)
        yield from roots(S, 3, 2, 5, "joint", "bulk", {"sel": "event"}, ["lin"], maskc=2)
        yield from roots(S, 4, 2, 4, "joint", "tri", {"sel": "event", "neigh": 2}, ["lin"], maskc=2)


def gen_fast(tier, seed):
    S = "C06.fast"
    for a in (0.3, 0.5):
        for diam in ("mixed", "eq"):
            yield from roots(S, 2, 2, 4 if tier == "thorough" or (a, diam) == (0.3, "mixed") else 3, "pp", "bulk",
                             {"cal": "fast", "a": a, "diam": diam}, ["lin"])
    yield from roots(S, 2, 3, 3, "pp", "bulk", {"cal": "fast", "a": 0.5}, ["lin"])
    yield from roots(S, 2, 2, 3, "pp", "bulk", {"cal": "slow", "a": 0.5}, ["lin"])
    if tier == "thorough":
        yield from roots(S, 3, 2, 3, "pp", "bulk", {"cal": "fast"}, ["lin"])
        yield from roots(S, 2, 2, 5, "pp", "bulk", {"cal": "fast"}, ["lin"])
        yield from roots(S, 2, 3, 4, "pp", "bulk", {"cal": "fast", "a": 0.5}, ["lin"])


def gen_options(tier, seed):
    S = "C06.options"
    maxdev = None if tier == "thorough" else 2
    for ov in option_vectors(maxdev):
        d = ov.pop("d")
        yield from roots(S, 3, d, 4, "joint", "tri", ov, ["lin", "log"])


S4_DOMS = collections.OrderedDict(
    [
        ("d", [2, 3]),
        ("mode", ["xu", "x", "both"]),
        ("cal", ["slow", "fast"]),
        ("sel", ["none", "vary"]),
        ("neigh", [0, 1, 3]),
        ("a", [0.3, 0.5]),
        ("diam", ["mixed", "eq"]),
        ("qrange", [2.0, 3.2]),
    ]
)


def gen_s4(tier, seed):
    S = "C06.s4"
    yield from roots(S, 3, 2, 3, "pp", "tri", {"mode": "xu", "cal": "slow"}, [], qrange=2.0)
    for mode, cal in (("x", "fast"), ("both", "slow"), ("xu", "fast"), ("x", "slow")):
        yield from roots(S, 2, 2, 3, "pp", "face", {"mode": mode, "cal": cal}, [], qrange=3.2, csv=(mode == "both"))
    maxdev = None if tier == "thorough" else 2
    for ov in option_vectors(maxdev, S4_DOMS):
        d = ov.pop("d")
        qr = ov.pop("qrange")
        yield from roots(S, 4, d, 4, "joint", "tri", ov, [], qrange=qr)
    if tier == "thorough":
        for mode, cal in (("x", "fast"), ("both", "slow")):
            yield from roots(S, 3, 2, 3, "pp", "tri", {"mode": mode, "cal": cal}, [], qrange=2.0)
        yield from roots(S, 3, 3, 3, "pp", "tri", {"mode": "x"}, [], qrange=2.0)
        yield from roots(S, 2, 2, 4, "pp", "face", {"mode": "both"}, [], qrange=3.2, L=[8.0, 16.0])


# ------------------------------------------------------------------------------------------ round-4 slices
TRI = dict(L=list(Y.TRI_L), letters="tri", need_x=True)


def gen_triclinic(tier, seed):
    """wrapped input in a triclinic cell; the CLASS of the cell changes from frame to frame (tilted first / orthogonal later and the reverse,
    alternating tilt, tilted last frame only)"""
    S = "C06.triclinic"
    T = 5
    for cells in ("const", "to", "tt"):
        yield from roots(S, 2, 2, T, "tri2", "tri2", {}, ["xu", "x", "logx"], cells=cells, **TRI)
    for cells in ("ot", "late"):
        yield from roots(S, 2, 2, T if tier == "thorough" else 4, "tri2", "tri2", {}, ["xu", "x"], cells=cells, **TRI)
    yield from roots(S, 2, 2, 4, "tri2", "tri2", {"cal": "fast", "sel": "vary"}, ["x"], cells="const", **TRI)


def gen_dilation(tier, seed):
    """absolute scale: box, positions, steps and diameters multiplied by 2^-33 (SI-metre-like numbers ~1e-10) and by 2^+27"""
    S = "C06.dilation"
    for k in (-33, 27):
        yield from roots(S, 3, 2, 4, "joint", "tri", {"mode": "x", "neigh": 3}, ["lin", "log"], dil=k)
        yield from roots(S, 2, 2, 3, "pp", "face", {}, ["xu", "x"], dil=k, need_x=True)
        yield from roots(S, 2, 2, 4, "tri2", "tri2", {}, ["xu", "x", "logx"], cells="const", dil=k, **TRI)
        yield from roots(S, 3, 3, 3, "joint", "tri", {"cal": "fast", "sel": "vary"}, ["lin", "log"], dil=k)


def gen_images(tier, seed):
    """x input given as periodic images several boxes away (+2, -3, +4 boxes, changing with frame, particle and axis); x input that is periodic
    (and wrapped) along one axis only"""
    S = "C06.images"
    yield from roots(S, 2, 2, 4 if tier == "thorough" else 3, "pp", "face", {}, ["xu", "x", "logx"], xform="img", need_x=True)
    if tier == "thorough":
        yield from roots(S, 2, 3, 3, "pp", "face", {}, ["x"], xform="img", need_x=True)
    yield from roots(S, 3, 2, 4, "joint", "tri", {"neigh": 3}, ["x", "logx"], xform="img", need_x=True)
    yield from roots(S, 3, 3, 3, "joint", "tri", {"sel": "vary", "cal": "fast"}, ["x"], xform="img", need_x=True)
    # periodic along x only: y is neither wrapped nor reduced although the y displacements exceed Ly / 2
    yield from roots(S, 2, 2, 4 if tier == "thorough" else 3, "pp", "face", {}, ["xu", "x", "logx"], L=[8.0, 0.5], ppp_x=[1, 0], xform="partial", need_x=True)
    yield from roots(S, 3, 3, 3, "joint", "tri", {}, ["x"], L=[8.0, 8.0, 0.25], ppp_x=[1, 1, 0], xform="partial", need_x=True)


def gen_xu_ppp(tier, seed):
    """unwrapped input TOGETHER with periodic flags, box smaller than the displacements: nothing may be reduced (relaxation with selections,
    LogDynamics; xu only and xu + x)"""
    S = "C06.xu_ppp"
    small2, small3 = [2.0, 2.0], [2.0, 2.0, 2.0]
    for mode in ("xu", "both"):
        yield from roots(S, 3, 2, 4, "joint", "bulk", {"mode": mode, "sel": "count"}, ["lin", "log"], L=small2, ppp_xu=1)
        yield from roots(S, 3, 3, 3, "joint", "bulk", {"mode": mode, "sel": "vary", "cal": "fast"}, ["lin", "log"], L=small3, ppp_xu=1)
        yield from roots(S, 3, 2, 3, "joint", "tri", {"mode": mode, "neigh": 3}, ["lin", "log"], L=small2, ppp_xu=1)
    yield from roots(S, 2, 2, 3, "pp", "bulk", {}, ["xu", "both", "log"], L=small2, ppp_xu=1)
    if tier == "thorough":
        yield from roots(S, 2, 3, 3, "pp", "bulk", {}, ["xu", "both", "log"], L=small3, ppp_xu=1)


def gen_xu_ppp_s4(tier, seed):
    S = "C06.xu_ppp"
    for mode in ("xu", "both"):
        yield from roots(S, 2, 2, 3, "pp", "bulk", {"mode": mode}, [], qrange=7.0, L=[2.0, 2.0], ppp_xu=1)
        yield from roots(S, 4, 2, 4 if tier == "thorough" else 3, "joint", "tri", {"mode": mode, "cal": "fast", "sel": "vary"}, [], qrange=7.0, L=[2.0, 2.0], ppp_xu=1)
        yield from roots(S, 4, 3, 3, "joint", "tri", {"mode": mode}, [], qrange=5.0, L=[2.0, 2.0, 2.0], ppp_xu=1)


TIE = dict(letters="tie", exact=True, need_tie=True)


def gen_tie(tier, seed):
    """squared displacements that EQUAL the squared cutoff bit for bit (neither slow nor fast), and the explicit zeros of the numeric options"""
    S = "C06.tie"
    for cal in ("slow", "fast"):
        o = {"diam": "tie", "a": 0.5, "cal": cal}
        yield from roots(S, 2, 2, 4 if tier == "thorough" else 3, "pp", "bulk", o, ["lin", "log"], **TIE)
        yield from roots(S, 2, 3, 3 if tier == "thorough" else 2, "pp", "bulk", o, ["lin", "log"], **TIE)
        yield from roots(S, 3, 2, 4, "joint", "bulk", dict(o, sel="count"), ["lin", "log"], **TIE)
        # a = 0 given explicitly: cutoff 0, a particle that did not move is neither slow nor fast (xu input: the displacement is exactly 0)
        for a0 in (0.0, 0):
            yield from roots(S, 2, 2, 3, "pp", "bulk", {"a": a0, "cal": cal}, ["lin", "log"], exact=True, need_tie=True)
    # qconst = 0 / dt = 0 given explicitly: isf == 1 in every row / t == 0 in every row
    for qc in ("0.0", "0"):
        yield from roots(S, 2, 2, 3, "pp", "bulk", {"qconst": qc}, ["lin", "log"])
    for dt0 in (0.0, 0, 1):
        yield from roots(S, 2, 2, 3, "pp", "bulk", {}, ["lin", "log"], dt=dt0)


def gen_tie_s4(tier, seed):
    S = "C06.tie"
    for cal in ("slow", "fast"):
        o = {"diam": "tie", "a": 0.5, "cal": cal}
        yield from roots(S, 2, 2, 3, "pp", "bulk", o, [], qrange=2.0, **TIE)
        if tier == "thorough":
            yield from roots(S, 3, 2, 3, "pp", "bulk", o, [], qrange=2.0, **TIE)
        yield from roots(S, 4, 2, 4, "joint", "tri", dict(o, sel="vary"), [], qrange=2.0, **TIE)
        yield from roots(S, 4, 3, 3, "joint", "tri", o, [], qrange=2.0, **TIE)


FORM_OPTS = {
    "f32": [{"mode": "x", "neigh": 3}, {"mode": "both", "sel": "vary"}, {"cal": "fast"}],
    "fortran": [{"mode": "x", "neigh": 3}, {"mode": "both", "sel": "vary"}],
    "strided": [{"mode": "x"}, {"sel": "vary", "neigh": 1}],
    "types_i32": [{"mode": "x", "sel": "type"}, {}],
    "int_diam": [{"diam": "int"}, {"diam": "int", "cal": "fast", "mode": "x"}, {"diam": "mixint"}, {"diam": "mixint", "cal": "fast"}],
    "ppp_bool": [{"mode": "x"}, {"mode": "both"}],
    "ppp_i32": [{"mode": "x", "neigh": 3}],
    "cond_u8": [{"sel": "vary"}, {"sel": "count", "mode": "x"}],
    "cond_int": [{"sel": "vary"}, {"sel": "type", "cal": "fast"}],
}


def gen_forms(tier, seed):
    S = "C06.forms"
    for form in Y.FORMS:
        for o in FORM_OPTS[form]:
            for d in ((2, 3) if tier == "thorough" else (2,)):
                yield from roots(S, 3, d, 3, "joint", "tri", o, ["lin", "log"], form=form)


def gen_forms_s4(tier, seed):
    S = "C06.forms"
    for form in ("f32", "fortran", "strided", "types_i32", "int_diam", "ppp_bool", "cond_u8", "cond_int"):
        o = dict(FORM_OPTS[form][0])
        o.pop("neigh", None)
        if form.startswith("cond"):
            o = {"sel": "vary"}
        yield from roots(S, 4, 2, 3, "joint", "tri", o, [], qrange=2.0, form=form)


def gen_maxnb(tier, seed):
    """max_neighbors equal to / above / below the largest coordination number (ragged lists: 1 or 2 neighbours)"""
    S = "C06.cage"
    for mnb in (2, 3, 200, 1):
        yield from roots(S, 4, 2, 3, "joint", "tri", {"neigh": 3}, ["xu", "x", "log"], maxnb=mnb)
    yield from roots(S, 3, 2, 3, "pp", "tri", {"neigh": 2}, ["xu"], maxnb=1)


def chain(*gens):
    def g(tier, seed):
        for gg in gens:
            yield from gg(tier, seed)
    return g


def run_any(case):
    """cases of one sub-check that go to the relaxation or to the S4 search"""
    return run_s4(case) if "qrange" in case else run_relax(case)


# ------------------------------------------------------------------------------------------ scale slice
SCALE_DEFAULT = {"d": 2, "mode": "xu", "cal": "slow", "sel": "none", "neigh": "none", "diam": "mixed", "qconst": "2pi", "a": 0.3, "tgrid": 0}
TGRIDS = [(0.002, 100), (0.001, 300), (0.005, 7)]  # (dt, steps between frames): intervals 0.2, 0.3, 0.035
SCALE_DOMS = collections.OrderedDict(
    [
        ("d", [2, 3]),
        ("mode", ["xu", "x", "both"]),
        ("cal", ["slow", "fast"]),
        ("sel", ["none", "one", "most", "half"]),
        ("neigh", ["none", "first", "last", "formula", "wide"]),
        ("diam", ["mixed", "eq", "lone"]),  # lone: only the LAST particle belongs to species 2 (diameter 1.5)
        ("qconst", ["2pi", "5", "7.25"]),
        ("a", [0.3, 0.5]),
        ("tgrid", [0, 1, 2]),
    ]
)
QCONST["7.25"] = 7.25
DIAMS["lone"] = DIAMS["mixed"]
# hand-made covering list: every value of every option, and the pairs that matter (wrapped input x cage, changing mask x ragged list,
# fast x mixed diameters, count-1 mask x cage)
SCALE_CORE = [
    {},
    {"d": 3, "mode": "x", "cal": "fast", "sel": "most", "neigh": "first", "diam": "eq", "qconst": "5"},
    {"mode": "both", "sel": "one", "neigh": "last", "qconst": "5", "tgrid": 1},
    {"d": 3, "cal": "fast", "sel": "half", "neigh": "formula", "diam": "lone", "tgrid": 2},
    {"mode": "x", "sel": "most", "neigh": "formula", "a": 0.5},
    {"d": 3, "mode": "both", "cal": "fast", "neigh": "wide", "diam": "eq"},
    {"mode": "x", "sel": "one", "neigh": "first", "diam": "eq", "qconst": "5"},
    {"d": 3, "mode": "x", "sel": "half", "neigh": "last", "qconst": "7.25"},
]
SCALE_TN_QUICK = [(65, 5), (66, 2), (129, 5), (64, 2), (3, 64), (5, 65), (5, 130), (3, 257)]
SCALE_TN_FULL = [(T, N) for T in (63, 64, 65, 66, 129) for N in (2, 5)] + [(T, N) for N in (64, 65, 130, 257) for T in (3, 5)] + [(3, 1000)]


def scale_lags(T):
    if T <= 6:
        return list(range(1, T))
    return sorted({1, 3, 6, 7, T // 2, T - 2})


def gen_scale(tier, seed):
    sizes = SCALE_TN_QUICK if tier == "quick" else SCALE_TN_FULL
    vecs = [dict(SCALE_DEFAULT, **o) for o in SCALE_CORE]
    if tier == "thorough":
        for ov in option_vectors(1, SCALE_DOMS):
            if ov not in vecs:
                vecs.append(ov)
    for (T, N) in sizes:
        for ov in vecs:
            yield {"sub": "C06.scale", "T": T, "N": N, "opts": dict(ov), "lags": scale_lags(T)}


def scale_world(case):
    seed = int(case["seed"])
    T, N = case["T"], case["N"]
    o = case["opts"]
    d = o["d"]
    xs, L, maxdisp = X.trajectory(seed, T, N, d)
    types = X.types_for(N) if o["diam"] != "lone" else [1] * (N - 1) + [2]
    diam = DIAMS[o["diam"]]
    sigma = [diam[t] for t in types]
    masks = None if o["sel"] == "none" else X.masks_for(T, N, o["sel"])
    nls = None if o["neigh"] == "none" else [X.ragged_lists(N, t, o["neigh"]) for t in range(T)]
    return xs, L, maxdisp, types, diam, sigma, masks, nls


def scale_objects(cls, mode, xs, L, types, steps, kw):
    from PyMatterSim.dynamic.dynamics import Dynamics, LogDynamics

    C = Dynamics if cls == "lin" else LogDynamics
    d = xs.shape[2]
    H = np.diag(L)
    ones = np.ones(d, dtype=int)
    if mode == "xu":
        sn = [mk_snaps(list(xs), H, types, steps=steps)]
        return C(xu_snapshots=sn[0], ppp=np.zeros(d, dtype=int), **kw), sn
    if mode == "x":
        sn = [mk_snaps(list(X.wrap(xs, L)), H, types, steps=steps)]
        return C(x_snapshots=sn[0], ppp=ones, **kw), sn
    sn = [mk_snaps(list(xs), H, types, steps=steps), mk_snaps(list(X.wrap(xs, L)), H, types, steps=steps)]
    return C(xu_snapshots=sn[0], x_snapshots=sn[1], ppp=ones, **kw), sn


def run_scale(case):
    R = Result()
    T, N = case["T"], case["N"]
    o = case["opts"]
    d, mode = o["d"], o["mode"]
    xs, L, maxdisp, types, diam, sigma, masks, nls = scale_world(case)
    fast = o["cal"] == "fast"
    a = float(o["a"])
    qconst = QCONST[o["qconst"]]
    sig = {"d": d, "mode": mode, "cal": o["cal"], "sel": o["sel"], "neigh": o["neigh"], "diam": o["diam"], "scale": True,
           "regime": "frames" if T > N else "particles"}
    where = f"T={T} N={N} opts={o}"
    assert maxdisp < min(L) / 2.0 - 1e-6  # by construction of the box (domain of the wrapped == unwrapped clause)
    nfile = ""
    if nls is not None:
        nfile = "c06_nls.dat"
        write_neighbor_file(nfile, nls)
    dt, dstep = TGRIDS[o["tgrid"]]
    kw = dict(dt=dt, diameters=dict(diam), a=a, cal_type=o["cal"], neighborfile=nfile)
    ref = X.Ref(xs, sigma, a, fast, sel=masks, nls=nls)
    # sq4 takes its own selection argument: whenever the case carries masks, sq4 is driven with the N-1 masks (a count-1 mask makes the
    # mobile selected subset empty at some origin for almost every lag, which is outside the domain); none for N = 2
    masks4 = None if (masks is None or N < 3) else X.masks_for(T, N, "most")
    ref4 = X.Ref(xs, sigma, a, fast, sel=masks4, nls=nls)
    h = hashlib.sha1()
    rows = 0
    stats = {"q_mixed": 0, "chi": 0, "s4": 0, "s4_outside": 0, "s4_inexact": 0, "skipq": 0}
    for cls in ("lin", "log"):
        steps = [500 + dstep * t for t in range(T)] if cls == "lin" else [500 + 3 * t + (t * (t + 1)) // 2 for t in range(T)]
        times = [(s_ - steps[0]) * dt for s_ in steps]
        exp, margin = ref.relaxation(qconst, times, log=(cls == "log"))
        D, snaps = scale_objects(cls, mode, xs, L, types, steps, kw)
        before = [[s_.positions.copy() for s_ in sn.snapshots] for sn in snaps]
        cond = None if masks is None else (masks[0].copy() if cls == "log" else masks.copy())
        res = D.relaxation(qconst=qconst, condition=cond)
        name = ("LogDynamics" if cls == "log" else "Dynamics") + ".relaxation"
        if list(res.columns) != COLS:
            R.fail(f"{name}: columns {list(res.columns)} ({where})", sig=dict(sig, cls=cls, col="columns"))
            continue
        obs = res.values.astype(float)
        skipq = margin < X.CUT_MARGIN
        stats["skipq"] += int(skipq)
        df = table_diff(obs, exp, skipq)
        rows += exp.shape[0]
        if df is not None:
            col, k, ov, rv = df
            if col == "shape":
                R.fail(f"{name}[{mode}]: table shape {ov}, expected {rv} ({where})", sig=dict(sig, cls=cls, col="shape"))
            else:
                R.fail(f"{name}[{mode}]: column {col} row {k} (lag {k + 1} of {T - 1}) = {ov!r}, reference {rv!r} ({where})",
                       sig=dict(sig, cls=cls, col=col), exp=exp[max(0, k - 1):k + 2], obs=obs[max(0, k - 1):k + 2])
        for sn, bf in zip(snaps, before):
            for s_, b_ in zip(sn.snapshots, bf):
                if not np.array_equal(s_.positions, b_):
                    R.fail("snapshot positions modified by relaxation()", sig=dict(sig, clause="input_modified"))
                    break
        if masks is not None and not np.array_equal(cond, masks[0] if cls == "log" else masks):
            R.fail("condition modified by relaxation()", sig=dict(sig, clause="input_modified"))
        if obs.shape == exp.shape:
            stats["chi"] += int(cls == "lin" and np.nanmax(np.abs(obs[:, 3])) > 1e-9)
            stats["q_mixed"] += int(np.any((obs[:, 2] > 0.0) & (obs[:, 2] < 1.0)))
            h.update(np.round(np.nan_to_num(obs, nan=-7.0), 9).tobytes())
    # ---- four-point structure factor at several lags (incl. lags whose quotient t / interval is inexact in floating point)
    steps = [500 + dstep * t for t in range(T)]
    time0 = float(((np.array(steps)[1:] - steps[0]) * dt)[0])
    # numofq = int(f) for every box: 6 (10 / 39 wave vectors in 2D / 3D) for the long trajectories; for the wide ones (<= 4 origins) 24 in 2D
    # (70 wave vectors) and 12 in 3D (135 wave vectors), so that the wave-vector count straddles 64 / 128 as well
    qrange = round((6.5 if T > 6 else (24.5 if d == 2 else 12.5)) * math.pi / max(L), 9)
    qvecs = RD.qset(L, qrange, d)
    pos_sq = xs if mode == "xu" else X.wrap(xs, L)
    for k in case["lags"]:
        got = ref4.sq4(k, pos_sq, L, qvecs)
        if got is None or got[1] < X.CUT_MARGIN or X.key_gap(got[0]) < 1e-6:
            stats["s4_outside"] += 1
            continue
        groups, margin, sizes = got
        t_arg = round(k * dstep * dt, 9)  # the lag as a user would type it (0.6, not 3 * 0.2 = 0.6000000000000001)
        stats["s4_inexact"] += int(t_arg / time0 != float(k))
        D, snaps = scale_objects("lin", mode, xs, L, types, steps, kw)
        cond = None if masks4 is None else masks4.copy()
        res = D.sq4(t=t_arg, qrange=qrange, condition=cond)
        stats["s4"] += 1
        if list(res.columns) != ["q", "Sq"]:
            R.fail(f"sq4: columns {list(res.columns)}", sig=dict(sig, clause="s4", col="columns"))
            continue
        obs = res.values.astype(float)
        exp = np.array([[g[1], g[2]] for g in groups])
        rows += len(exp)
        bad = None
        if obs.shape != exp.shape:
            bad = f"{obs.shape[0]} distinct |q|, reference {exp.shape[0]}"
        elif not np.allclose(obs[:, 0], exp[:, 0], rtol=0, atol=0.6e-8):
            bad = "q column differs"
        elif not np.allclose(obs[:, 1], exp[:, 1], rtol=1e-9, atol=0.5000001e-8 + 1e-11):
            j = int(np.argmax(np.abs(obs[:, 1] - exp[:, 1])))
            bad = f"S4(q={exp[j, 0]:.6f}) = {obs[j, 1]!r}, reference {exp[j, 1]!r} (mobile subset sizes {min(sizes)}..{max(sizes)} over {len(sizes)} origins)"
        if bad:
            R.fail(f"Dynamics.sq4[{mode}] lag {k} (t={t_arg!r}): {bad} ({where})", sig=dict(sig, clause="s4", col="Sq"), exp=exp, obs=obs)
        if masks4 is not None and not np.array_equal(cond, masks4):
            R.fail("condition modified by sq4()", sig=dict(sig, clause="input_modified"))
        h.update(np.round(obs, 7).tobytes())
    if nfile:
        os.remove(nfile)
    R.out = h.hexdigest()[:16]
    R.elem = rows
    # rule: the overlap is strictly between 0 and 1 in some row and at least one S4 lag was inside the domain and compared
    R.nontrivial = stats["q_mixed"] > 0 and stats["s4"] > 0
    R.notes = stats
    return R


# ------------------------------------------------------------------------------------------ call sequences on one object
SEQ_EVENTS_LIN = ["r1", "r2", "rc", "rd", "s1", "s3", "sc", "B"]
SEQ_EVENTS_LOG = ["r1", "r2", "rc", "rd", "B"]


def gen_sequence(tier, seed):
    for cls in ("lin", "log"):
        evs = SEQ_EVENTS_LIN if cls == "lin" else SEQ_EVENTS_LOG
        for d in (2, 3):
            for mode in ("xu", "x", "both"):
                for neigh in ("none", "formula"):
                    if tier == "quick" and cls == "log" and mode == "both":
                        continue
                    for first in evs:
                        yield {"sub": "C06.sequence", "cls": cls, "d": d, "mode": mode, "neigh": neigh, "first": first, "depth": 3}


class SeqWorld:
    """two small trajectories (object A: T=5, N=5; object B: T=4, N=3, other dimension / diameters / cutoff / mode) and the call alphabet"""

    def __init__(self, case):
        seed = int(case["seed"])
        self.cls, self.d, self.mode, self.neigh = case["cls"], case["d"], case["mode"], case["neigh"]
        d = self.d
        self.T, self.N = 5, 5
        self.xs, self.L, _ = X.trajectory(seed, self.T, self.N, d)
        self.types = X.types_for(self.N)
        self.diam = DIAMS["mixed"]
        self.sigma = [self.diam[t] for t in self.types]
        self.nls = None if self.neigh == "none" else [X.ragged_lists(self.N, t, "formula") for t in range(self.T)]
        self.most = X.masks_for(self.T, self.N, "most")
        self.one = X.masks_for(self.T, self.N, "one")
        self.steps = [500 + 100 * t for t in range(self.T)] if self.cls == "lin" else [500 + 3 * t + (t * (t + 1)) // 2 for t in range(self.T)]
        self.nfile = ""
        if self.nls is not None:
            self.nfile = "c06_seq.dat"
            write_neighbor_file(self.nfile, self.nls)
        self.kw = dict(dt=DT, diameters=dict(self.diam), a=0.3, cal_type="slow", neighborfile=self.nfile)
        # object B: another trajectory of the OTHER dimension (2D <-> 3D), fast, a = 0.5, equal diameters, no neighbour file, always xu
        self.xsB, self.LB, _ = X.trajectory(seed + 17, 4, 3, 5 - d)
        self.kwB = dict(dt=DT, diameters=dict(DIAMS["eq"]), a=0.5, cal_type="fast", neighborfile="")
        self.stepsB = [0, 50, 100, 150] if self.cls == "lin" else [0, 1, 10, 100]
        self.qrange = {"s1": round(6.5 * math.pi / max(self.L), 9), "s3": round(8.5 * math.pi / max(self.L), 9)}

    def fresh_A(self):
        return scale_objects(self.cls, self.mode, self.xs, self.L, self.types, self.steps, self.kw)

    def fresh_B(self):
        return scale_objects(self.cls, "xu", self.xsB, self.LB, X.types_for(3), self.stepsB, self.kwB)

    def cond(self, m):
        return m[0].copy() if self.cls == "log" else m.copy()

    def call(self, ev, Aobj, Bobj):
        if ev == "r1":
            return Aobj.relaxation(qconst=2 * math.pi).values.astype(float)
        if ev == "r2":
            return Aobj.relaxation(qconst=5.0).values.astype(float)
        if ev == "rc":
            return Aobj.relaxation(qconst=2 * math.pi, condition=self.cond(self.most)).values.astype(float)
        if ev == "rd":
            return Aobj.relaxation(qconst=5.0, condition=self.cond(self.one)).values.astype(float)
        if ev == "s1":
            return Aobj.sq4(t=round(1 * 100 * DT, 9), qrange=self.qrange["s1"]).values.astype(float)
        if ev == "s3":
            return Aobj.sq4(t=round(3 * 100 * DT, 9), qrange=self.qrange["s3"]).values.astype(float)
        if ev == "sc":
            return Aobj.sq4(t=round(1 * 100 * DT, 9), qrange=self.qrange["s1"], condition=self.most.copy()).values.astype(float)
        if ev == "B":
            return Bobj.relaxation(qconst=3.3).values.astype(float)
        raise ValueError(ev)

    def reference(self, ev):
        """table of the definition for one event (None: not compared with the reference, only fresh vs re-used)"""
        log = self.cls == "log"
        times = [(s_ - self.steps[0]) * DT for s_ in self.steps]
        if ev in ("r1", "r2", "rc", "rd"):
            sel = {"r1": None, "r2": None, "rc": self.most, "rd": self.one}[ev]
            if log and sel is not None:
                sel = np.repeat(sel[:1], self.T, axis=0)
            ref = X.Ref(self.xs, self.sigma, 0.3, False, sel=sel, nls=self.nls)
            return ref.relaxation(5.0 if ev in ("r2", "rd") else 2 * math.pi, times, log=log)
        if ev == "B":
            ref = X.Ref(self.xsB, [1.0] * 3, 0.5, True)
            return ref.relaxation(3.3, [(s_ - self.stepsB[0]) * DT for s_ in self.stepsB], log=log)
        k = 3 if ev == "s3" else 1
        ref = X.Ref(self.xs, self.sigma, 0.3, False, sel=self.most if ev == "sc" else None, nls=self.nls)
        qv = RD.qset(self.L, self.qrange["s3" if ev == "s3" else "s1"], self.d)
        got = ref.sq4(k, self.xs if self.mode == "xu" else X.wrap(self.xs, self.L), self.L, qv)
        if got is None or got[1] < X.CUT_MARGIN:
            return None
        return np.array([[g[1], g[2]] for g in got[0]]), got[1]


def obj_state(D):
    """digest of everything the object carries (for counting distinct states of the search)"""
    hh = hashlib.sha1()
    for k in sorted(vars(D)):
        v = vars(D)[k]
        if isinstance(v, np.ndarray):
            hh.update(k.encode() + np.ascontiguousarray(v).tobytes())
        elif isinstance(v, (list, tuple)) and v and isinstance(v[0], np.ndarray):
            hh.update(k.encode() + b"".join(np.ascontiguousarray(x).tobytes() for x in v))
        elif isinstance(v, (int, float, str, bool)) or v is None:
            hh.update(f"{k}={v!r}".encode())
        else:
            hh.update(k.encode())
    return hh.hexdigest()[:12]


def run_sequence(case):
    R = Result()
    W = SeqWorld(case)
    evs = SEQ_EVENTS_LIN if W.cls == "lin" else SEQ_EVENTS_LOG
    sig = {"d": W.d, "mode": W.mode, "neigh": W.neigh, "cls": W.cls, "clause": "sequence"}
    # fresh-object result of every event, validated against the definition
    fresh = {}
    domain = {}
    for ev in evs:
        Aobj, _ = W.fresh_A()
        Bobj, _ = W.fresh_B()
        ref = W.reference(ev)
        domain[ev] = ref is not None
        if ref is None:
            continue  # sq4 outside its domain (empty mobile subset): the event is not executed
        fresh[ev] = W.call(ev, Aobj, Bobj)
        exp, margin = ref
        if ev[0] == "s":
            ok = fresh[ev].shape == exp.shape and np.allclose(fresh[ev][:, 0], exp[:, 0], rtol=0, atol=0.6e-8) and \
                np.allclose(fresh[ev][:, 1], exp[:, 1], rtol=1e-9, atol=0.5000001e-8 + 1e-11)
        else:
            ok = table_diff(fresh[ev], exp, margin < X.CUT_MARGIN) is None
        if not ok:
            R.fail(f"event {ev} on a fresh object differs from the definition", sig=dict(sig, event=ev, what="fresh_vs_reference"), exp=exp, obs=fresh[ev])
    live = [e for e in evs if domain[e]]
    states = set()
    calls = 0
    rows = 0
    nfail = 0
    h = hashlib.sha1()
    # breadth-first over call sequences; a state is (re)built by replaying the sequence on fresh objects, every call's result is
    # compared with the fresh-object result of the same call
    frontier = [[case["first"]]] if case["first"] in live else []
    while frontier and nfail < 3:
        nxt = []
        for seq in frontier:
            (Aobj, snaps), (Bobj, _) = W.fresh_A(), W.fresh_B()
            before = [[s_.positions.copy() for s_ in sn.snapshots] for sn in snaps]
            for pos, ev in enumerate(seq):
                out = W.call(ev, Aobj, Bobj)
                calls += 1
                rows += out.shape[0]
                f = fresh[ev]
                if out.shape != f.shape or not np.allclose(out, f, rtol=2e-9, atol=2e-11, equal_nan=True):
                    nfail += 1
                    R.fail(f"call sequence {seq}: call #{pos + 1} ({ev}) on the re-used object differs from the same call on a fresh object",
                           sig=dict(sig, event=ev, what="reused_vs_fresh", after=seq[pos - 1] if pos else "none"), exp=f, obs=out)
                    break
            for sn, bf in zip(snaps, before):
                for s_, b_ in zip(sn.snapshots, bf):
                    if not np.array_equal(s_.positions, b_):
                        R.fail(f"snapshot positions modified by the call sequence {seq}", sig=dict(sig, what="input_modified"))
                        nfail += 1
                        break
            st = obj_state(Aobj) + obj_state(Bobj)
            states.add(st)
            h.update(st.encode())
            if len(seq) < case["depth"]:
                for ev in live:
                    nxt.append(seq + [ev])
        frontier = nxt
    if W.nfile:
        os.remove(W.nfile)
    R.out = h.hexdigest()[:16]
    R.states = len(states)
    R.transitions = calls
    R.elem = rows
    R.nontrivial = calls > 1
    R.notes = {"events_in_domain": live}
    return R


# ------------------------------------------------------------------------------------------ entry point
def subs(tier, seed):
    def with_seed(g):
        def gg(t, s):
            for c in g(t, s):
                c["seed"] = int(s)
                yield c
        return gg

    q = tier == "quick"
    hist = "BFS over frame-append histories below each root (root = option vector + first event); per-particle step alphabet " \
           "{0,+s ex,-s ey,+b ex(,+s ez)}^N ('pp') or 4 asymmetric joint events ('joint'); every state (frame count 2..Tmax) " \
           "compared in every row with the all-origins reference; "
    return [
        Sub("C06.linear", with_seed(gen_linear), run_relax,
            rule=hist + "Dynamics.relaxation, xu input; N=2: 2D T<=4 (4368 states), 3D T<=4 (16275); xu with periodic flags in a box "
                        "smaller than the displacements; " + ("" if q else "N=3 2D T<=4, N=2 2D/3D T<=5, N=3 3D T<=3; ")
                 + "non-trivial = some state below the root has chi4 != 0",
            bounds={"N": 2 if q else 3, "Tmax": 4 if q else 5}),
        Sub("C06.log", with_seed(gen_log), run_relax,
            rule=hist + "LogDynamics.relaxation on unevenly spaced timesteps, single origin, chi4 == 0; default options N=2 2D/3D T<=4 "
                        "plus fast / 1-,2-nearest cage / selections / wrapped input on N=3 T<=3"
                        + ("" if q else "; N=3 joint T<=5 / 3D pp T<=3 with cage, N=2 T<=5 (xu and wrapped)"),
            bounds={"Tmax": 4 if q else 5}),
        Sub("C06.wrapped_eq_unwrapped", with_seed(gen_wrapped), run_relax,
            rule=hist + "particles start next to the box faces so that steps cross them; x-only (ppp=1), xu-only and both inputs of the "
                        "same trajectory all equal the reference of the unwrapped trajectory; boxes 8^d and 8x16; N=2 2D T<=4, 3D T<=3; particles starting exactly on the faces x = 0 / x = L"
                        + ("" if q else "; 2D T<=5, 3D T<=4, N=3 pp T<=3 / joint T<=5"),
            bounds={"Tmax": 4 if q else 5}),
        Sub("C06.cage", with_seed(chain(gen_cage, gen_maxnb)), run_relax,
            rule=hist + "three/four nearly equidistant particles across a face, neighbour file (1- and 2-nearest of every frame) written by "
                        "the harness; cage-relative displacement with the list of the origin frame; xu and x input; N=3 2D pp T<=3 (k=1,2), "
                        "N=3 3D / N=4 2D joint T<=4" + ("" if q else "; N=3 2D pp T<=4 (k=2), 3D pp T<=3, joint T<=5")
                 + "; max_neighbors 2 (= the largest coordination number of the ragged lists), 3, 200 (irrelevant) and 1 (the reader keeps the first entry)",
            bounds={"N": "3-4", "Tmax": 4 if q else 5}),
        Sub("C06.selection", with_seed(gen_selection), run_relax,
            rule=hist + "the boolean mask of every frame is part of the appended event: all masks with c selected particles (c=1,2), "
                        "mask of the origin frame selects, N = c in chi4",
            bounds={"Tmax": 4 if q else 5}),
        Sub("C06.fast", with_seed(gen_fast), run_relax,
            rule=hist + "fast/slow x a in {0.3,0.5} x diameters {mixed 1/1.5, equal}: per-type cutoff (a sigma)^2 and wavenumber qconst/sigma",
            bounds={"Tmax": 4}),
        Sub("C06.options", with_seed(gen_options), run_relax,
            rule="option alphabet d{2,3} x input{xu,x,both} x diameters{mixed,eq} x a{.3,.5} x {slow,fast} x selection{none,type==1,"
                 "per-frame changing mask} x neighbours{none,1,2} x qconst{2pi,5}: "
                 + ("all vectors with <= 2 deviations from the default (64)" if q else "full product (864)")
                 + " on the 84-state core (N=3, 4 joint events, T<=4); Dynamics and LogDynamics in every state",
            bounds={"max_deviations": 2 if q else None, "core_states": 84}),
        Sub("C06.s4", with_seed(gen_s4), run_s4,
            rule=hist + "Dynamics.sq4 at every lag of every state: mean over origins of S(q) of the mobile subset (reference: direct Fourier "
                        "sum over the documented default q set, exact-rational |q| grouping); N=3 pp T<=3 (xu, slow), N=2 pp T<=3 x input x slow/fast, option "
                        "vectors (" + ("<= 2 deviations" if q else "full product") + ") on the N=4 joint core; (lag,state) with an empty "
                        "mobile subset skipped; non-trivial = some subset has >= 2 particles",
            bounds={"max_deviations": 2 if q else None}),
        Sub("C06.triclinic", with_seed(gen_triclinic), run_relax,
            rule="BFS over frame-append histories of two particles in a 3.75 x 2 cell (4 joint events over {0, +b ex, -s ey, -b ex}, T <= 5): wrapped x input folded "
                 "into a TRICLINIC cell whose class changes from frame to frame - tilt Lx/2 in every frame; tilted first frame / orthogonal later frames; "
                 "alternating +-tilt; orthogonal first frame / tilted later; tilted last frame only - Dynamics and LogDynamics with x only == the reference of "
                 "the unwrapped trajectory in every state inside the domain (consistent images, fractional displacement inside the half cell of the origin "
                 "frame); non-trivial = at least a third of the states are inside that domain and chi4 != 0 somewhere",
            bounds={"Tmax": 5, "cells": ["const", "to", "tt", "ot", "late"]}),
        Sub("C06.dilation", with_seed(gen_dilation), run_relax,
            rule=hist + "box, positions, steps and diameters multiplied together by 2^-33 and by 2^+27 (exact): wrapped input with cage lists, xu / x on the face "
                        "layout, the TILTED cell of C06.triclinic at that absolute scale, 3D fast with a changing selection; isf, Qt, chi4, alpha2 against the "
                        "reference of the dilated trajectory (scale-free), msd with the absolute tolerance scaled by f^2; sq4 is not dilated (its |q| column is "
                        "documented to be rounded to 8 decimals, which is not scale-free)",
            bounds={"Tmax": 4, "factors": ["2^-33", "2^27"]}),
        Sub("C06.images", with_seed(gen_images), run_relax,
            rule=hist + "x input given as periodic images +2 / -3 / +4 boxes away (different per frame, particle and axis), with cage lists / selections; "
                        "x input that is periodic and wrapped along some axes only (ppp = [1,0], [1,1,0]; the open axis has an edge shorter than the displacements)",
            bounds={"Tmax": 4}),
        Sub("C06.xu_ppp", with_seed(chain(gen_xu_ppp, gen_xu_ppp_s4)), run_any,
            rule=hist + "unwrapped input TOGETHER with ppp = 1 in a 2^d box (every displacement larger than half a box occurs): relaxation with selections of "
                        "changing size / fast / cage lists, LogDynamics, sq4; xu only and xu + x: equal to the reference of the unwrapped trajectory",
            bounds={"Tmax": 4, "box": 2.0}),
        Sub("C06.tie", with_seed(chain(gen_tie, gen_tie_s4)), run_any,
            rule=hist + "step alphabet {0, +h ex, -h ey, +2h ex(, +h ez)} with h = 1/2, a = 0.5, diameters 1 / 2: squared displacements EQUAL the squared cutoff "
                        "bit for bit - such a particle is neither slow nor fast; Qt, X4_Qt (Dynamics, LogDynamics, selections of changing size) and sq4 compared "
                        "without margin screen, slow and fast; plus the explicit zeros a = 0.0 / 0, qconst = 0.0 / 0, dt = 0.0 / 0 (and the int dt = 1); non-trivial = a tie occurs",
            bounds={"Tmax": 4}),
        Sub("C06.forms", with_seed(chain(gen_forms, gen_forms_s4)), run_any,
            rule=hist + "storage forms of the input: positions float32 / Fortran-ordered / non-contiguous, particle types int32, diameters dict with int values, "
                        "ppp as bool / int32 array, condition as uint8 / int64 0/1 array; Dynamics, LogDynamics and sq4 on the 3-/4-particle joint core",
            bounds={"forms": list(Y.FORMS), "Tmax": 3}),
        Sub("C06.scale", with_seed(gen_scale), run_scale,
            rule="SIZE enumeration (one fixed value pattern per size, no value alphabet): (frames, particles) in "
                 + str(SCALE_TN_QUICK if q else SCALE_TN_FULL) + " x "
                 + ("8 hand-made option vectors" if q else "8 hand-made option vectors + all vectors with <= 1 deviation from the default")
                 + " over d{2,3} x input{xu, x wrapped, both} (box edges (m+4, m, m+2): the shortest edge is y) x {slow,fast} x selection{none, "
                 "1 / N-1 / N/2 particles, a different set in every frame} x neighbour file{none, ragged lists changing every frame with the maximum "
                 "coordination number at the first / last particle only, formula, one particle with 30 = max_neighbors} x diameters {mixed, equal, a species "
                 "with ONE member} x qconst x a x (dt, step) {(0.002,100),(0.001,300),(0.005,7)}; "
                 "every row of Dynamics.relaxation and LogDynamics.relaxation and Dynamics.sq4 at lags {1,3,6,7,T/2,T-2} (t/interval inexact for "
                 "3,6,7; default wave-vector sets of 10 / 39 vectors for the long and 70 / 135 vectors for the wide trajectories) against a vectorised transcription of the definitions organised by origin frame; non-trivial = some overlap strictly "
                 "between 0 and 1 and some S4 lag inside the domain",
            bounds={"sizes": len(SCALE_TN_QUICK if q else SCALE_TN_FULL), "max_frames": 129, "max_particles": 257 if q else 1000}),
        Sub("C06.sequence", with_seed(gen_sequence), run_sequence,
            rule="explicit-state search over call sequences of length <= 3 on ONE Dynamics / LogDynamics object (plus a second live object B of the "
                 "other dimension with other diameters / cutoff / mode): events relaxation(2pi), relaxation(5), relaxation(2pi, mask N-1), relaxation(5, mask 1), "
                 "sq4(lag 1), sq4(lag 3, other qrange), sq4(lag 1, mask), B.relaxation(3.3); all 8+64+512 sequences per world "
                 "(d x input mode x {no, ragged} neighbour file), split by first event; every call's result == the same call on a fresh object "
                 "(which is compared with the definition); snapshots unchanged; states = distinct digests of the objects' attributes",
            bounds={"depth": 3, "events": 8}),
    ]
