"""C13 - conditional g(r) and conditional S(q): weighted definitions and reductions (E1, differential).

One case = one geometry (cell, bin width / wave-vector list, mask, placement) and one condition kind; inside the case
EVERY assignment of the kind's three-letter value alphabet to the N particles is executed on the real code and compared
with the loop reference.  The differential sub-checks compare the conditional routines with gr()/sq() themselves."""
import functools
import itertools
import math

import numpy as np

from mc import alphabets as A
from mc.harness import Result, Sub
from mc.ref.base import mk_snap, mk_snaps, shell_volumes
from mc.ref.c04c13 import cond_gr_loops, cond_sq_loops, group_norms
from mc.ref.grsq import pair_bins
from mc.ref import c03x as X3
from mc.ref import c03y as Y3
from mc.ref import c04y as Y4
from mc.ref import c13y as Y
import json

SEQ_MODS = X3.LIB_MODULES

ASSUMPTIONS = [
    "documented normalisation of conditional g(r): gA = 2 V sum_{i<j} w_ij / (M^2 shell) with M = number of selected "
    "particles for a boolean condition and M = N otherwise; column gr is the unconditional total; bins int(Lmin/2/width)",
    "complex conditions are complex128 or complex64, real ones float64 or int64 (values exact in every storage type); vectors have as "
    "many components as the dimension, tensors are real symmetric d x d",
    "C13.sequence: the result of a call must not depend on the calls made before it in the same process (oracle: the same call made "
    "first in a process whose library modules were freshly imported; that single call is what the other sub-checks compare with the definition)",
    "placements with a pair closer than 1e-9 to a bin edge are screened out before the run",
    "gA_norm is only demanded for float scalars with non-zero variance (the documented formula is 0/0 otherwise)",
    "conditional S(q): per-vector values and the per-|q| averages are compared with tolerance 0.5e-8 + 1e-9 rel (the "
    "routine rounds its table to 8 decimals; the property does not document that rounding, so it is only tolerated); "
    "wave-vector lists whose |q| clusters straddle an 8-decimal rounding boundary are screened out; orthogonal cells",
    "reductions to sq(): tolerance 0.5e-6 + 0.5e-8 + 1e-9 (documented per-vector rounding of sq() to 1e-6); species ids 1..K",
    "float tolerance rtol 1e-9, atol 1e-11 x max(1, largest expected entry)",
    "storage forms: conditions float32 / int32 besides float64 / int64 (float32: every value compared with 2e-6 x the largest expected entry - "
    "the precision of the stored condition; the reference is evaluated on exactly the stored values); positions float64 or float32, any strides "
    "(float32 positions: a pair within 2e-5 of a bin edge or a minimum-image tie margin < 1e-5 screens the placement); wave vectors an integer "
    "ndarray of any integer dtype / memory order (documented as 'NDArray of int'; lists are not demanded)",
    "conditiontype names the shape of the condition ('vector': (N, d), 'tensor': (N, d, d)); giving 'vector' / 'tensor' together with a "
    "one-dimensional bool / complex / float condition contradicts the documentation (the unchanged tree raises) and is outside the domain",
    "documented defaults of conditional_gr: ppp = (1, 1, 1), rdelta = 0.01, conditiontype = None",
    "coincident particles are a pair at distance 0 (first bin); positions may lie any number of cell vectors outside the cell",
    "conditional g(r) does not depend on the unit of length (positions, cell, bin width x 2^k); conditional S(q) for integer wave vectors neither, as "
    "long as the documented 8-decimal rounding of the q columns keeps different |q| apart (box <= ~1e3)",
]

GR_KINDS = ["bool", "float", "complex", "vector", "cvector", "tensor"]
SQ_KINDS = ["bool", "float", "complex", "vector", "cvector"]

BOX = {3: {"sqr": [8.0, 8.0, 10.0], "uneq": [7.0, 9.0, 11.0]}, 2: {"sqr": [8.0, 8.0], "uneq": [7.0, 9.0]}}
QL3 = {
    "six": [[1, 0, 0], [0, 1, 0], [-1, 0, 0], [1, 1, 0], [2, 0, 1], [0, 0, 3]],
    "shell1": [list(v) for v in itertools.product((-1, 0, 1), repeat=3) if any(v)],
    "pyth": [[3, 4, 0], [5, 0, 0], [0, -5, 0], [4, -3, 0], [0, 0, 5], [-3, 0, 4]],
}


def qlist(name, d):
    if d == 3:
        return QL3[name]
    return [v[:2] for v in QL3[name] if any(v[:2])]


# ------------------------------------------------------------------------------ value alphabets
def letters(kind, d):
    s2 = 1.0 / math.sqrt(2.0)
    if kind == "bool":
        return [False, True]
    if kind == "float":
        return [-1.0, 0.5, 2.0, 0.0]  # exact zeros: a field that vanishes on some particles still counts them in N
    if kind == "complex":
        return [1.0 + 0j, 1j, -1.0 + 2j, 0j]
    if kind == "vector":
        if d == 2:
            return [[1.0, 0.0], [0.0, -1.0], [s2, s2]]
        return [[1.0, 0.0, 0.0], [0.0, 0.0, -1.0], [1.0 / 3, 2.0 / 3, -2.0 / 3]]
    if kind == "cvector":
        if d == 2:
            return [[1.0 + 0j, 1j], [1j, -1.0 + 0j], [-1.0 + 2j, 1.0 - 1j]]
        return [[1.0 + 0j, 1j, 0j], [1j, 0j, -1.0 + 0j], [-1.0 + 2j, 1.0 - 1j, 2j]]
    if kind == "tensor":
        if d == 2:
            return [[[1.0, 0.0], [0.0, 1.0]], [[1.0, 0.0], [0.0, -1.0]], [[0.0, 1.0], [1.0, 0.0]]]
        return [np.eye(3).tolist(), np.diag([1.0, -1.0, 2.0]).tolist(), [[0.0, 1.0, 0.0], [1.0, 0.0, 2.0], [0.0, 2.0, 0.0]]]
    raise ValueError(kind)


def assignments(kind, d, n, dtype=None, nletters=None):
    """Every assignment of the kind's alphabet to n particles (bool: every non-empty selection).  dtype: another storage type of
    the same kind (complex64 for the complex kinds, int64 for the real ones - 0.5 is then stored as 0); the values stay exact.
    nletters: only the first letters of the alphabet (the forms slices use three letters per kind)."""
    al = letters(kind, d)[:nletters]
    dt = {"bool": bool, "float": np.float64, "complex": np.complex128, "vector": np.float64, "cvector": np.complex128,
          "tensor": np.float64}[kind]
    if dtype:
        dt = np.dtype(dtype)
        al = np.array(al).astype(dt).tolist()
    for combo in itertools.product(range(len(al)), repeat=n):
        if kind == "bool" and not any(combo):
            continue
        if kind in ("float", "complex") and all(al[k] == 0 for k in combo):
            continue  # the identically vanishing field: every normalised quantity is 0/0
        yield combo, np.array([al[k] for k in combo], dtype=dt)


def ctype(kind):
    return {"vector": "vector", "cvector": "vector", "tensor": "tensor"}.get(kind)


# ----------------------------------------------------------------------------------- geometry
def cell_for(d, cell):
    L = [8.0, 9.0, 10.0][:d]
    if cell == "orth":
        return A.hmat_tri(L, [0, 0, 0][: (1 if d == 2 else 3)])
    if cell == "tri+":
        return A.hmat_tri(L, [1.5] if d == 2 else [1.5, 1.0, -2.0])
    if cell == "tri-":
        return A.hmat_tri(L, [-2.0] if d == 2 else [-1.5, -1.0, 1.0])
    raise ValueError(cell)


def gr_placements(seed, d, H, tier):
    """(name, points): subsets of a jittered 3^d lattice that spans the whole (possibly tilted) cell - sites 0 and 2 of an
    axis are neighbours only through the periodic face - and generic points spread over the cell."""
    H = np.array(H, float)
    frac = np.array(A.jl_points(seed, 3, d, [1.0] * d, tag=f"c13{d}"))
    idx = list(itertools.product(range(3), repeat=d))
    pick = [(0, 0), (2, 0), (0, 2), (1, 1), (2, 2)] if d == 2 else [(0, 0, 0), (2, 0, 0), (0, 2, 0), (0, 0, 2), (1, 1, 1)]
    pts = [(frac[idx.index(p)] @ H).tolist() for p in pick]
    out = []
    c3 = list(itertools.combinations(range(4), 3))
    c4 = [(0, 1, 2, 3)]
    if tier == "thorough":
        c3 = list(itertools.combinations(range(5), 3))
        c4 = list(itertools.combinations(range(5), 4))
    else:
        c3 = c3[:2]
    for sub in c3:
        out.append(("jl3", [pts[i] for i in sub]))
    for sub in c4:
        out.append(("jl4", [pts[i] for i in sub]))
    for n in (3, 4) + ((5,) if tier == "thorough" else ()):
        out.append((f"gen{n}", corner_cloud(seed, n, d, H, f"c13g{d}{n}")))
    if tier == "thorough":
        out.append(("jl5", pts))
    return out


def corner_cloud(seed, n, d, H, tag):
    """n generic points scattered around the cell corner THROUGH the periodic faces (fractional coordinates in
    (-1/4, 1/4) taken modulo 1): every close pair is close only via the minimum image."""
    f = (np.array(A.generic_points(seed, n, d, tag=tag)) - 0.5) * 0.5
    return ((f % 1.0) @ np.array(H, float)).tolist()


def gr_geometries(seed, tier, placements_filter=None, masks=True):
    for d in (2, 3):
        for cell in ("orth", "tri+", "tri-"):
            H = cell_for(d, cell)
            pls = gr_placements(seed, d, H, tier)
            for w in (0.25, 0.3):
                for name, pts in pls:
                    if placements_filter and not placements_filter(name):
                        continue
                    yield {"d": d, "cell": cell, "H": H.tolist(), "w": w, "ppp": [1] * d, "placement": name, "pos": pts}
            if masks:
                for m in A.masks(d)[1:]:
                    if cell == "tri+":
                        continue
                    for name, pts in pls:
                        if name != "gen4":
                            continue
                        yield {"d": d, "cell": cell, "H": H.tolist(), "w": 0.25, "ppp": m, "placement": name, "pos": pts}


ALT_DTYPE = {"float": "int64", "complex": "complex64", "vector": "int64", "cvector": "complex64", "tensor": "int64"}


def gen_gr_kind(kind, tier, seed):
    for g in gr_geometries(seed, tier):
        yield dict(g, part="gr", kind=kind)
        # the same kind in another storage type (the statement speaks of real / complex quantities, not of float64 / complex128)
        if kind in ALT_DTYPE and g["placement"] in ("gen3", "gen4") and g["w"] == 0.25 and (tier == "thorough" or g["cell"] != "tri+"):
            yield dict(g, part="gr", kind=kind, dtype=ALT_DTYPE[kind])


def sq_placements(seed, d, L, tier):
    out = []
    for n in (3, 4) + ((5,) if tier == "thorough" else ()):
        out.append((f"gen{n}", (np.array(A.generic_points(seed, n, d, tag=f"c13s{d}{n}")) * np.array(L)).tolist()))
    pts = (np.array(A.jl_points(seed, 2, d, [5.0] * d, tag=f"c13sj{d}")) + 1.0).tolist()
    out.append(("jl4", pts[:4]))
    if tier == "thorough":
        g4 = out[1][1]
        for sub in itertools.combinations(range(4), 3):
            out.append(("sub3", [g4[i] for i in sub]))
    return out


def sq_geometries(seed, tier):
    for d in (2, 3):
        for box in ("sqr", "uneq"):
            L = BOX[d][box]
            for name, pts in sq_placements(seed, d, L, tier):
                for ql in QL3:
                    yield {"d": d, "box": box, "L": L, "placement": name, "pos": pts, "qlist": ql, "q": qlist(ql, d)}


def gen_sq_kind(kind, tier, seed):
    for g in sq_geometries(seed, tier):
        yield dict(g, part="sq", kind=kind)
        if kind in ALT_DTYPE and g["placement"] == "gen3" and g["qlist"] in ("six", "neg"):
            yield dict(g, part="sq", kind=kind, dtype=ALT_DTYPE[kind])


# ------------------------------------------------------------------------------------ helpers
def near(a, b, scale=None):
    a = np.asarray(a, float)
    b = np.asarray(b, float)
    if a.shape != b.shape:
        return False
    s = max(1.0, float(np.max(np.abs(b))) if b.size and np.isfinite(b).all() else 1.0) if scale is None else scale
    return bool(np.allclose(a, b, rtol=1e-9, atol=1e-11 * s))


def edge_ambiguous(pos, H, ppp, w):
    Lmin = float(np.diag(np.array(H)).min())
    nb = int(Lmin / 2.0 / w)
    for (_, _, _, k, amb) in pair_bins(pos, H, ppp, w, nb):
        if amb is not None and (k < nb or amb < nb):
            return True
    return False


# ----------------------------------------------------------------------------------------- C13.sequence
# Letters are complete argument tuples chosen so that pairs of them collide in plausible INCOMPLETE memo keys: same number of bins /
# different bin width (g0-g1), same bins and width / different dimension (g0-g2), same cell diagonal / different tilt (g0-g3), same
# geometry / different condition kind or values (g0-g4-g5), same wave-vector list / different box (s0-s1), different dimension (s0-s2),
# different condition (s0-s3), same box / different list (s0-s4).
def _seq_letters():
    L = []
    H3 = np.diag([8.0, 9.0, 10.0])
    L.append({"id": "g0", "fn": "gr", "d": 3, "H": H3.tolist(), "w": 0.25, "kind": "float", "ppp": [1, 1, 1]})           # 16 bins
    L.append({"id": "g1", "fn": "gr", "d": 3, "H": np.diag([9.6, 10.0, 11.0]).tolist(), "w": 0.3, "kind": "float", "ppp": [1, 1, 1]})  # 16 bins
    L.append({"id": "g2", "fn": "gr", "d": 2, "H": np.diag([8.0, 9.0]).tolist(), "w": 0.25, "kind": "float", "ppp": [1, 1]})
    L.append({"id": "g3", "fn": "gr", "d": 3, "H": A.hmat_tri([8.0, 9.0, 10.0], [1.5, 1.0, -2.0]).tolist(), "w": 0.25, "kind": "float", "ppp": [1, 1, 1]})
    L.append({"id": "g4", "fn": "gr", "d": 3, "H": H3.tolist(), "w": 0.25, "kind": "complex", "ppp": [1, 1, 1]})
    L.append({"id": "g5", "fn": "gr", "d": 3, "H": H3.tolist(), "w": 0.25, "kind": "bool", "ppp": [1, 0, 1]})
    L.append({"id": "s0", "fn": "sq", "d": 3, "L": [8.0, 8.0, 10.0], "q": "six", "kind": "float"})
    L.append({"id": "s1", "fn": "sq", "d": 3, "L": [7.0, 9.0, 11.0], "q": "six", "kind": "float"})
    L.append({"id": "s2", "fn": "sq", "d": 2, "L": [8.0, 8.0], "q": "six", "kind": "float"})
    L.append({"id": "s3", "fn": "sq", "d": 3, "L": [8.0, 8.0, 10.0], "q": "six", "kind": "complex"})
    L.append({"id": "s4", "fn": "sq", "d": 3, "L": [8.0, 8.0, 10.0], "q": "pyth", "kind": "bool"})
    return L


SEQ_LETTERS = _seq_letters()
SEQ_N = 5


def _seq_args(seed, lt):
    d = lt["d"]
    H = np.array(lt["H"], float) if lt["fn"] == "gr" else np.diag(lt["L"])
    pos = (np.array(A.generic_points(seed, SEQ_N, d, tag=f"c13q{d}")) @ H)
    al = letters(lt["kind"], d)
    dt = {"bool": bool, "float": np.float64, "complex": np.complex128}[lt["kind"]]
    pick = {"bool": [1, 0, 1, 1, 0], "float": [0, 1, 2, 3, 1], "complex": [0, 1, 2, 1, 3]}[lt["kind"]]
    cond = np.array([al[k] for k in pick], dtype=dt)
    return pos, H, cond


def _seq_call(seed, lt):
    from PyMatterSim.static.gr import conditional_gr
    from PyMatterSim.static.sq import conditional_sq

    pos, H, cond = _seq_args(seed, lt)
    snap = mk_snap(pos, H, [1] * SEQ_N)
    if lt["fn"] == "gr":
        res = conditional_gr(snap, cond, conditiontype=None, ppp=np.array(lt["ppp"]), rdelta=lt["w"])
        return [X3.frame_to_json(res)]
    per, ave = conditional_sq(snap, np.array(qlist(lt["q"], lt["d"]), dtype=int), cond)
    return [X3.frame_to_json(per), X3.frame_to_json(ave)]


def _seq_eval(case):
    return [_seq_call(case["seed"], SEQ_LETTERS[k]) for k in case["word"]]


def gen_sequence(tier, seed):
    depth = 2 if tier == "quick" else 3
    nl = len(SEQ_LETTERS)
    for Lw in range(1, depth + 1):
        for word in itertools.product(range(nl), repeat=Lw):
            if Lw == 3 and len(set(word)) == 1:
                continue
            yield {"part": "sequence", "word": list(word), "seed": seed}


_SEQ_FRESH = {}


def run_sequence(case):
    R = Result()
    seed = case["seed"]
    names = [SEQ_LETTERS[k]["id"] for k in case["word"]]
    payload = X3.fresh_child(_seq_eval, case, SEQ_MODS)
    if "err" in payload:
        R.fail(f"call sequence {names} raised {payload['err']}", sig={"part": "sequence", "exception": True})
        return R
    for k in set(case["word"]):
        if (seed, k) not in _SEQ_FRESH:
            one = X3.fresh_child(_seq_eval, {"seed": seed, "word": [k]}, SEQ_MODS)
            if "err" in one:
                R.fail(f"single call {SEQ_LETTERS[k]['id']} raised {one['err']}", sig={"part": "sequence", "exception": True})
                return R
            _SEQ_FRESH[(seed, k)] = one["ok"][0]
    states = set()
    for pos_, (k, got) in enumerate(zip(case["word"], payload["ok"])):
        ref = _SEQ_FRESH[(seed, k)]
        lt = SEQ_LETTERS[k]
        same = len(got) == len(ref) and all(
            g["columns"] == r["columns"] and np.array_equal(np.array(g["values"]), np.array(r["values"]), equal_nan=True) for g, r in zip(got, ref))
        if not same:
            prev = names[:pos_]
            R.fail(f"call #{pos_ + 1} ({lt['id']}: {lt['fn']}, d={lt['d']}, kind={lt['kind']}) of the sequence {names} differs from the same call made first "
                   f"in a fresh process (earlier calls: {prev})",
                   sig={"part": "sequence", "fn": lt["fn"], "position": "later" if pos_ else "first"},
                   exp=ref[0]["values"][:6], obs=got[0]["values"][:6] if got else None)
        states.add(json.dumps(got, sort_keys=True)[:4000])
    R.outcome(sorted(states), nd=9)
    R.states = len(case["word"]) + 1
    R.transitions = len(case["word"])
    R.elem = sum(len(t["values"]) for g in payload["ok"] for t in g)
    R.nontrivial = True
    return R


def gsig(case, **kw):
    s = {"part": case.get("part", "gr"), "d": case["d"]}
    if "cell" in case:
        s["cell"] = case["cell"]
        s["masked"] = bool(0 in case["ppp"])
    if "box" in case:
        s["box"] = case["box"]
    s.update(kw)
    return s


# ------------------------------------------------------------- C13.gr.<kind> (+ C13.gr.norm)
def run_gr_kind(case):
    from PyMatterSim.static.gr import conditional_gr

    R = Result()
    d, kind, w = case["d"], case["kind"], case["w"]
    H = np.array(case["H"], float)
    pos = np.array(case["pos"], float)
    ppp = np.array(case["ppp"])
    n = len(pos)
    if edge_ambiguous(pos, H, ppp, w):
        return R.screen()
    snap = mk_snap(pos, H, [1] * n)
    p0 = snap.positions.copy()
    sig = gsig(case, kind=kind)
    outs = []
    populated = 0
    nonzero = False
    ncmp = 0
    if case.get("dtype"):
        sig["dtype"] = case["dtype"]
    for combo, cond in assignments(kind, d, n, case.get("dtype")):
        c0 = cond.copy()
        res = conditional_gr(snap, cond, conditiontype=ctype(kind), ppp=ppp, rdelta=w)
        ref = cond_gr_loops(pos, H, ppp, w, cond.tolist(), kind, pair_bins, shell_volumes)
        need = ["r", "gr", "gA"] + (["gA_norm"] if kind == "float" else [])
        if any(c not in res.columns for c in need) or len(res) != len(ref["r"]):
            R.fail(f"columns {list(res.columns)} / {len(res)} rows; need {need} / {len(ref['r'])} rows", sig=dict(sig, clause="columns"))
            return R
        if not near(res["r"].values, ref["r"]):
            R.fail("bin centres differ", sig=dict(sig, clause="bins"))
        if not near(res["gr"].values, ref["gr"]):
            R.fail(f"unconditional gr column wrong for condition {combo}", sig=dict(sig, clause="gr_total"), exp=ref["gr"], obs=res["gr"].values)
        if not near(res["gA"].values, ref["gA"]):
            k = int(np.argmax(np.abs(res["gA"].values - ref["gA"])))
            R.fail(f"gA differs from the weighted pair histogram for condition letters {combo}: bin {k} got {res['gA'].values[k]!r}, expected {ref['gA'][k]!r}",
                   sig=dict(sig, clause="gA"), exp=ref["gA"], obs=res["gA"].values)
        if kind == "float" and ref["gA_norm"] is not None:
            a = cond.astype(float)
            m1 = a.mean() ** 2
            m2 = (a * a).mean()
            own = (res["gA"].values - m1) / (m2 - m1)
            if not near(res["gA_norm"].values, own) or not near(res["gA_norm"].values, ref["gA_norm"]):
                R.fail(f"gA_norm != (gA - <A>^2)/(<A^2> - <A>^2) for condition letters {combo}", sig=dict(sig, clause="gA_norm"), sub="C13.gr.norm",
                       exp=ref["gA_norm"], obs=res["gA_norm"].values)
        if not np.array_equal(cond, c0):
            R.fail("condition array modified", sig=dict(sig, clause="input_modified"))
        populated = int((ref["count"] > 0).sum())
        nonzero = nonzero or bool(np.any(ref["gA"] != 0))
        outs.append(np.round(res["gA"].values, 7))
        ncmp += len(res) * len(need)
    if not np.array_equal(snap.positions, p0):
        R.fail("snapshot positions modified", sig=dict(sig, clause="input_modified"))
    R.outcome(np.array(outs), nd=7)
    R.elem = ncmp
    R.nontrivial = populated >= 2 and nonzero and len({o.tobytes() for o in outs}) >= 2
    return R


# ------------------------------------------------------------------- C13.gr.reduce_partial
def gen_gr_partial(tier, seed):
    npart = 5 if tier == "thorough" else 4
    seen = set()
    for g in gr_geometries(seed, tier, placements_filter=lambda nm: nm in ("gen4", "jl4", "gen5"), masks=True):
        n = len(g["pos"])
        if n != npart and g["placement"] != "gen4":
            continue
        if 0 in g["ppp"] and g["cell"] != "orth" and tier == "quick":
            continue
        if g["placement"] == "jl4" and g["w"] != 0.25:
            continue
        key = (g["d"], g["cell"], g["w"], tuple(g["ppp"]), g["placement"])
        if key in seen:  # thorough has five jl4 subsets: the first one is enough here
            continue
        seen.add(key)
        for K in range(1, min(n, 5 if tier == "thorough" else 3) + 1):
            yield dict(g, part="gr", K=K)


def run_gr_partial(case):
    from PyMatterSim.static.gr import conditional_gr, gr

    R = Result()
    d, w, K = case["d"], case["w"], case["K"]
    H = np.array(case["H"], float)
    pos = np.array(case["pos"], float)
    ppp = np.array(case["ppp"])
    n = len(pos)
    if edge_ambiguous(pos, H, ppp, w):
        return R.screen()
    sig = gsig(case, K=K)
    outs = []
    nz = 0
    for types in A.surjections(n, K):
        t = np.array(types)
        snaps = mk_snaps([pos], H, t)
        G = gr(snaps, ppp=ppp, rdelta=w).getresults()
        s = snaps.snapshots[0]
        for a in range(1, K + 1):
            c = conditional_gr(s, t == a, ppp=ppp, rdelta=w)
            col = f"gr{a}{a}" if K > 1 else "gr"
            if col not in G.columns:
                R.fail(f"gr() has no column {col}", sig=dict(sig, clause="columns"))
                return R
            if not near(c["gA"].values, G[col].values):
                R.fail(f"boolean selection of species {a} (types {types}) != {col} of gr()", sig=dict(sig, clause="reduce_partial"),
                       exp=G[col].values, obs=c["gA"].values)
            if not near(c["gr"].values, G["gr"].values):
                R.fail("gr column of conditional_gr != total of gr()", sig=dict(sig, clause="reduce_total_column"))
            nz += int(np.any(G[col].values != 0))
            outs.append(np.round(c["gA"].values, 7))
            R.elem += len(G)
    R.outcome(np.array(outs), nd=7)
    R.nontrivial = nz >= 1
    return R


# --------------------------------------------------------------------- C13.gr.reduce_total
def gen_gr_total(tier, seed):
    for g in gr_geometries(seed, tier):
        yield dict(g, part="gr")
    # a larger configuration as well
    for d in (2, 3):
        for cell in ("orth", "tri-"):
            H = cell_for(d, cell)
            g6 = corner_cloud(seed, 6, d, H, f"c13t{d}")
            for w in (0.25, 0.3):
                yield {"part": "gr", "d": d, "cell": cell, "H": H.tolist(), "w": w, "ppp": [1] * d, "placement": "gen6", "pos": g6}


def run_gr_total(case):
    from PyMatterSim.static.gr import conditional_gr, gr

    R = Result()
    d, w = case["d"], case["w"]
    H = np.array(case["H"], float)
    pos = np.array(case["pos"], float)
    ppp = np.array(case["ppp"])
    n = len(pos)
    if edge_ambiguous(pos, H, ppp, w):
        return R.screen()
    sig = gsig(case)
    snaps = mk_snaps([pos], H, [1] * n)
    G = gr(snaps, ppp=ppp, rdelta=w).getresults()
    s = snaps.snapshots[0]
    ones = {"float": np.ones(n), "complex": np.ones(n, dtype=np.complex128), "bool": np.ones(n, dtype=bool)}
    for name, cond in ones.items():
        c = conditional_gr(s, cond, ppp=ppp, rdelta=w)
        if len(c) != len(G) or not near(c["gA"].values, G["gr"].values):
            R.fail(f"A = 1 ({name}) does not reproduce the total g(r) of gr()", sig=dict(sig, clause="reduce_total", kind=name),
                   exp=G["gr"].values, obs=c["gA"].values)
        elif not near(c["gA"].values, c["gr"].values):
            R.fail(f"A = 1 ({name}): gA != own gr column", sig=dict(sig, clause="reduce_total_own", kind=name))
        if not near(c["r"].values, G["r"].values):
            R.fail("bin centres differ from gr()", sig=dict(sig, clause="bins"))
    R.elem = 3 * len(G)
    R.outcome(G["gr"].values, nd=7)
    R.nontrivial = int((G["gr"].values > 0).sum()) >= 2
    return R


# ---------------------------------------------- C13.gr.vector_sum and C13.gr.tensor_scalar
def gen_gr_vsum(tier, seed):
    seen = set()
    for g in gr_geometries(seed, tier, placements_filter=lambda nm: nm in ("gen3", "gen4", "jl4", "gen5"), masks=False):
        if tier == "quick" and (g["w"] != 0.25 or g["cell"] == "tri+" or g["placement"] == "jl4"):
            continue
        key = (g["d"], g["cell"], g["w"], g["placement"])
        if key in seen:
            continue
        seen.add(key)
        for kind in ("vector", "cvector", "tensor"):
            yield dict(g, part="gr", kind=kind)


def run_gr_vsum(case):
    from PyMatterSim.static.gr import conditional_gr

    R = Result()
    d, w, kind = case["d"], case["w"], case["kind"]
    H = np.array(case["H"], float)
    pos = np.array(case["pos"], float)
    ppp = np.array(case["ppp"])
    n = len(pos)
    if edge_ambiguous(pos, H, ppp, w):
        return R.screen()
    snap = mk_snap(pos, H, [1] * n)
    sig = gsig(case, kind=kind)
    outs = []
    if kind == "tensor":
        # A_i = a_i * identity  ==  d * (scalar a)
        for combo, a in assignments("float", d, n):
            T = np.array([x * np.eye(d) for x in a])
            ct = conditional_gr(snap, T, conditiontype="tensor", ppp=ppp, rdelta=w)["gA"].values
            cs = conditional_gr(snap, a.copy(), ppp=ppp, rdelta=w)["gA"].values
            if not near(ct, d * cs):
                R.fail(f"tensor a_i*I != d * scalar variant for letters {combo}", sig=dict(sig, clause="tensor_scalar"), sub="C13.gr.tensor_scalar",
                       exp=d * cs, obs=ct)
            outs.append(np.round(ct, 7))
            R.elem += len(ct)
    else:
        for combo, v in assignments(kind, d, n):
            cv = conditional_gr(snap, v, conditiontype="vector", ppp=ppp, rdelta=w)["gA"].values
            cs = sum(conditional_gr(snap, np.ascontiguousarray(v[:, k]), ppp=ppp, rdelta=w)["gA"].values for k in range(v.shape[1]))
            if not near(cv, cs):
                R.fail(f"vector field != sum over components of the scalar variant for letters {combo}", sig=dict(sig, clause="vector_sum"),
                       exp=cs, obs=cv)
            outs.append(np.round(cv, 7))
            R.elem += len(cv)
    R.outcome(np.array(outs), nd=7)
    R.nontrivial = len({o.tobytes() for o in outs}) >= 2
    return R


# ------------------------------------------------------------------------- C13.sq.<kind>
def run_sq_kind(case):
    from PyMatterSim.static.sq import conditional_sq

    R = Result()
    d, kind = case["d"], case["kind"]
    L = [float(x) for x in case["L"]]
    pos = np.array(case["pos"], float)
    qint = [list(v) for v in case["q"]]
    n = len(pos)
    qvec = np.array(qint, float) * (2 * math.pi / np.array(L))
    qn = np.linalg.norm(qvec, axis=1)
    groups = group_norms(qn, 8)
    if groups is None:
        return R.screen()
    keys = np.array([k for k, _ in groups])
    snap = mk_snap(pos, np.diag(L), [1] * n)
    sig = gsig(case, kind=kind)
    qarr = np.array(qint, dtype=int)
    outs = []
    if case.get("dtype"):
        sig["dtype"] = case["dtype"]
    for combo, cond in assignments(kind, d, n, case.get("dtype")):
        c0 = cond.copy()
        per, ave = conditional_sq(snap, qarr, cond)
        ref, _ = cond_sq_loops(pos.tolist(), L, qint, cond.tolist(), kind)
        qc = [f"q{i}" for i in range(d)]
        if any(c not in per.columns for c in qc + ["q", "Sq"]) or len(per) != len(qint) or any(c not in ave.columns for c in ("q", "Sq")):
            R.fail(f"returned tables: {list(per.columns)} ({len(per)} rows), {list(ave.columns)}", sig=dict(sig, clause="columns"))
            return R
        if not np.allclose(per[qc].values, qvec, rtol=0, atol=0.5000001e-8 + 1e-12) or not np.allclose(per["q"].values, qn, rtol=0, atol=0.5000001e-8 + 1e-12):
            R.fail("per-vector table: q = 2 pi n / L columns wrong", sig=dict(sig, clause="qvectors"))
        v = per["Sq"].values.astype(float)
        tol = 0.5000001e-8 + 1e-9 * np.abs(ref)
        if (np.abs(v - ref) > tol).any() or not np.isfinite(v).all():
            k = int(np.argmax(np.abs(v - ref) - tol))
            R.fail(f"S(q) of wave vector {qint[k]} for condition letters {combo}: got {v[k]!r}, |sum A exp(-iqr)|^2/N = {ref[k]!r}",
                   sig=dict(sig, clause="Sq"), exp=ref, obs=v)
        gm = np.array([ref[idx].mean() for _, idx in groups])
        if len(ave) != len(groups) or not np.allclose(ave["q"].values, keys, rtol=0, atol=1e-9) \
                or (np.abs(ave["Sq"].values - gm) > 0.5000001e-8 + 1e-9 * np.abs(gm)).any():
            R.fail(f"per-|q| average wrong for condition letters {combo}", sig=dict(sig, clause="average"), exp=gm, obs=ave["Sq"].values)
        if not np.array_equal(cond, c0):
            R.fail("condition array modified", sig=dict(sig, clause="input_modified"))
        outs.append(np.round(v, 6))
        R.elem += len(v) + len(groups)
    if not np.array_equal(qarr, np.array(qint, dtype=int)):
        R.fail("wave-vector array modified", sig=dict(sig, clause="input_modified"))
    R.outcome(np.array(outs), nd=6)
    R.nontrivial = len({o.tobytes() for o in outs}) >= 2 and len(groups) >= 2
    return R


# --------------------------------------------------------------------------- C13.sq.reduce
def gen_sq_reduce(tier, seed):
    for g in sq_geometries(seed, tier):
        n = len(g["pos"])
        if g["placement"] not in ("gen4", "gen5", "jl4"):
            continue
        if tier == "quick" and g["qlist"] == "shell1" and g["placement"] == "jl4":
            continue
        for K in range(1, min(n, 5 if tier == "thorough" else 3) + 1):
            yield dict(g, part="sq", K=K)


def run_sq_reduce(case):
    from PyMatterSim.static.sq import conditional_sq, sq

    R = Result()
    d, K = case["d"], case["K"]
    L = [float(x) for x in case["L"]]
    pos = np.array(case["pos"], float)
    qint = [list(v) for v in case["q"]]
    n = len(pos)
    qn = np.linalg.norm(np.array(qint, float) * (2 * math.pi / np.array(L)), axis=1)
    if group_norms(qn, 8) is None or group_norms(qn, 6) is None:
        return R.screen()
    sig = gsig(case, K=K)
    qarr = np.array(qint, dtype=int)
    tol = 0.5e-6 + 0.5e-8 + 1e-9
    outs = []
    for types in A.surjections(n, K):
        t = np.array(types)
        snaps = mk_snaps([pos], np.diag(L), t)
        S = sq(snaps, qvector=qarr.copy()).getresults()
        s = snaps.snapshots[0]
        for a in range(1, K + 1):
            ave = conditional_sq(s, qarr, t == a)[1]
            col = f"Sq{a}{a}" if K > 1 else "Sq"
            if col not in S.columns or len(ave) != len(S):
                R.fail(f"sq() has no column {col} or row counts differ ({len(ave)} vs {len(S)})", sig=dict(sig, clause="columns"))
                return R
            if not np.allclose(ave["Sq"].values, S[col].values, rtol=1e-9, atol=tol) or not np.allclose(ave["q"].values, S["q"].values, rtol=0, atol=0.51e-6):
                R.fail(f"boolean selection of species {a} (types {types}) != {col} of sq()", sig=dict(sig, clause="reduce_partial"),
                       exp=S[col].values, obs=ave["Sq"].values)
            outs.append(np.round(ave["Sq"].values, 5))
            R.elem += len(S)
        if K == 1:
            for name, cond in (("float", np.ones(n)), ("complex", np.ones(n, dtype=np.complex128))):
                ave = conditional_sq(s, qarr, cond)[1]
                if len(ave) != len(S) or not np.allclose(ave["Sq"].values, S["Sq"].values, rtol=1e-9, atol=tol):
                    R.fail(f"A = 1 ({name}) does not reproduce the total S(q) of sq()", sig=dict(sig, clause="reduce_total", kind=name),
                           exp=S["Sq"].values, obs=ave["Sq"].values)
                R.elem += len(S)
    R.outcome(np.array(outs), nd=5)
    R.nontrivial = len({o.tobytes() for o in outs}) >= 2 or K == 1
    return R


# ----------------------------------------------------------------------- C13.sq.vector_sum
def gen_sq_vsum(tier, seed):
    for g in sq_geometries(seed, tier):
        if tier == "quick" and (g["placement"] not in ("gen3", "gen4") or g["qlist"] == "shell1"):
            continue
        for kind in ("vector", "cvector"):
            yield dict(g, part="sq", kind=kind)


def run_sq_vsum(case):
    from PyMatterSim.static.sq import conditional_sq

    R = Result()
    d, kind = case["d"], case["kind"]
    L = [float(x) for x in case["L"]]
    pos = np.array(case["pos"], float)
    qarr = np.array(case["q"], dtype=int)
    n = len(pos)
    snap = mk_snap(pos, np.diag(L), [1] * n)
    sig = gsig(case, kind=kind)
    outs = []
    for combo, v in assignments(kind, d, n):
        sv = conditional_sq(snap, qarr, v)[0]["Sq"].values
        ss = sum(conditional_sq(snap, qarr, np.ascontiguousarray(v[:, k]))[0]["Sq"].values for k in range(d))
        if not np.allclose(sv, ss, rtol=1e-9, atol=(d + 1) * 0.5000001e-8):
            R.fail(f"vector field != sum over components of the scalar variant for letters {combo}", sig=dict(sig, clause="vector_sum"), exp=ss, obs=sv)
        outs.append(np.round(sv, 6))
        R.elem += len(sv)
    R.outcome(np.array(outs), nd=6)
    R.nontrivial = len({o.tobytes() for o in outs}) >= 2
    return R


# ----------------------------------------------- C13.gr.forms / C13.sq.forms: storage forms, exact values, unwrapped, defaults
FORM_POS = Y3.POS_FORMS


def _form_pairs(kind, tier, qforms=None):
    """(condition form, position form[, wave-vector form]) vectors with <= 1 (quick) / <= 2 (thorough) deviations from the first entries"""
    doms = [Y.COND_FORMS[kind], FORM_POS] + ([qforms] if qforms else [])
    maxdev = 1 if tier == "quick" else 2
    for combo in itertools.product(*doms):
        if sum(1 for v, dom in zip(combo, doms) if v != dom[0]) <= maxdev:
            yield combo


FORM_LETTERS = 3  # letters per kind in the forms slices (the exact zeros are enumerated by C13.gr.<kind> / C13.sq.<kind>)


def gen_gr_forms(tier, seed):
    quick = tier == "quick"
    for d in (2, 3):
        for cell in ("orth", "tri-") if quick else ("orth", "tri+", "tri-"):
            H = cell_for(d, cell)
            for pset in ("dyadic", "generic", "unwrapped"):
                if quick and pset == "generic" and (d, cell) not in ((2, "tri-"), (3, "orth")):
                    continue
                for mask in ([1] * d, [0, 1, 1][:d]) if (quick and pset != "generic") else (([1] * d,) if quick else A.masks(d)[:-1]):
                    for kind in GR_KINDS:
                        for cform, pform in _form_pairs(kind, tier):
                            base = (cform, pform) == (Y.COND_FORMS[kind][0], "f64")
                            if quick and not base and pset == "unwrapped" and not (pform == "f32" and kind == "float"):
                                continue
                            if quick and not base and pform != "f64" and kind in ("bool", "complex", "cvector"):
                                continue  # the positions go through three code branches (scalar, vector, tensor): one kind per branch
                            yield {"part": "gr", "d": d, "cell": cell, "H": H.tolist(), "w": 0.27, "ppp": mask, "pset": pset, "kind": kind,
                                   "cform": cform, "pform": pform, "seed": seed, "defaults": False}
            # the documented defaults (3D): conditional_gr(snapshot, condition) = all directions periodic, bin width 0.01, scalar condition
            if d == 3:
                for pset in ("generic", "dyadic"):
                    for kind in ("bool", "float", "complex"):
                        if quick and (pset, cell) not in (("generic", "orth"), ("dyadic", "tri-")):
                            continue
                        yield {"part": "gr", "d": d, "cell": cell, "H": H.tolist(), "w": 0.01, "ppp": [1, 1, 1], "pset": pset, "kind": kind,
                               "cform": Y.COND_FORMS[kind][0], "pform": "f64", "seed": seed, "defaults": True}


def _forms_positions(case, H, frac=False):
    d = case["d"]
    if case["pset"] == "dyadic":
        wrapped = Y.dyadic4_frac(d, np.diag(H)) if frac else Y.dyadic4(d, np.diag(H))
    else:
        wrapped = Y.generic4(case["seed"], H, tag=f"c13f{case['part']}{d}")
        if frac:  # S(q): points spread over the box
            wrapped = np.array(A.generic_points(case["seed"], 3, d, tag=f"c13fs{d}")) * np.diag(H)
    given = Y.unwrap(wrapped, H, case.get("ppp", [1] * d)) if case["pset"] == "unwrapped" else wrapped
    stored = Y3.store_positions(given, case["pform"])
    exact_store = case["pform"] in ("f64", "strided")
    return stored, (wrapped if exact_store else Y3.stored_values(stored))


def near_rt(a, b, rt):
    a = np.asarray(a, float)
    b = np.asarray(b, float)
    if a.shape != b.shape or not np.isfinite(a).all():
        return False
    if rt <= 1e-9:
        return near(a, b)
    s = max(1.0, float(np.max(np.abs(b)))) if b.size else 1.0
    return bool(np.allclose(a, b, rtol=rt, atol=rt * s))


def run_gr_forms(case):
    from PyMatterSim.static.gr import conditional_gr

    R = Result()
    d, kind, w = case["d"], case["kind"], case["w"]
    H = np.array(case["H"], float)
    ppp = np.array(case["ppp"])
    stored, src = _forms_positions(case, H)
    n = len(src)
    single = case["pform"] in ("f32", "f32view")
    edge_tol = 2e-5 if (single and case["pset"] != "dyadic") else 1e-9
    if Y3.tie_margin([src], [H], case["ppp"]) < (1e-5 if single else 1e-9) or Y.ambiguous(src, H, ppp, w, edge_tol):
        return R.screen()
    rt = 2e-6 if case["cform"] == "float32" else 1e-9
    snap = Y3.raw_snap(stored, H, np.ones(n, dtype=int))
    p0 = np.array(stored, copy=True)
    sig = gsig(case, kind=kind, cform=case["cform"], pform=case["pform"], pset=case["pset"], defaults=case["defaults"])
    pb = Y.pair_bins_tol(edge_tol)
    outs = []
    populated = 0
    ncmp = 0
    for combo, cond in assignments(kind, d, n, None if case["cform"] == Y.COND_FORMS[kind][0] else case["cform"], FORM_LETTERS):
        c0 = cond.copy()
        if case["defaults"]:
            res = conditional_gr(snap, cond)
        else:
            res = conditional_gr(snap, cond, conditiontype=ctype(kind), ppp=ppp, rdelta=w)
        ref = cond_gr_loops(src, H, ppp, w, cond.tolist(), kind, pb, shell_volumes)
        norm_due = kind == "float" and ref["gA_norm"] is not None
        need = ["r", "gr", "gA"] + (["gA_norm"] if kind == "float" else [])
        if any(c not in res.columns for c in need) or len(res) != len(ref["r"]):
            R.fail(f"columns {list(res.columns)} / {len(res)} rows; need {need} / {len(ref['r'])} rows", sig=dict(sig, clause="columns"))
            return R
        if not near(res["r"].values, ref["r"]):
            R.fail("bin centres differ", sig=dict(sig, clause="bins"))
        if not near(res["gr"].values, ref["gr"]):
            R.fail(f"unconditional gr column wrong for condition {combo}", sig=dict(sig, clause="gr_total"), exp=ref["gr"], obs=res["gr"].values)
        if not near_rt(res["gA"].values, ref["gA"], rt):
            k = int(np.argmax(np.abs(res["gA"].values - ref["gA"])))
            R.fail(f"gA differs from the weighted pair histogram for condition letters {combo}: bin {k} got {res['gA'].values[k]!r}, expected {ref['gA'][k]!r}",
                   sig=dict(sig, clause="gA"), exp=ref["gA"], obs=res["gA"].values)
        if norm_due and not near_rt(res["gA_norm"].values, ref["gA_norm"], rt):
            R.fail(f"gA_norm != (gA - <A>^2)/(<A^2> - <A>^2) for condition letters {combo}", sig=dict(sig, clause="gA_norm"),
                   exp=ref["gA_norm"], obs=res["gA_norm"].values)
        if not np.array_equal(cond, c0) or cond.dtype != c0.dtype:
            R.fail("condition array modified", sig=dict(sig, clause="input_modified"))
        populated = int((ref["count"] > 0).sum())
        outs.append(np.round(res["gA"].values, 5))
        ncmp += len(res) * len(need)
    if not np.array_equal(snap.positions, p0):
        R.fail("snapshot positions modified", sig=dict(sig, clause="input_modified"))
    R.outcome(np.array(outs), nd=5)
    R.elem = ncmp
    R.nontrivial = populated >= 2 and len({o.tobytes() for o in outs}) >= 2
    return R


SQ_QFORMS = Y4.Q_FORMS


def gen_sq_forms(tier, seed):
    quick = tier == "quick"
    for d in (2, 3):
        for box in ("sqr", "uneq"):
            L = BOX[d][box]
            for pset in ("dyadic", "generic", "unwrapped"):
                for ql in (("six",) if quick else ("six", "pyth")):
                    for kind in SQ_KINDS:
                        for cform, pform, qform in _form_pairs(kind, tier, SQ_QFORMS):
                            base = (cform, pform, qform) == (Y.COND_FORMS[kind][0], "f64", "int64")
                            if quick and not base:
                                # positions go through three branches (selection, vector, scalar), the wave-vector table through common code
                                if (pform != "f64" and kind not in ("bool", "float", "vector")) or (qform != "int64" and kind != "float"):
                                    continue
                                if pset == "unwrapped" and not (pform == "f32" and kind == "float"):
                                    continue
                            yield {"part": "sq", "d": d, "box": box, "L": L, "pset": pset, "qlist": ql, "q": qlist(ql, d), "kind": kind,
                                   "cform": cform, "pform": pform, "qform": qform, "seed": seed}
            # narrow integer storage whose SQUARES overflow (int8: |n| >= 12, uint8: n >= 16, int16: n >= 182 or a sum of squares > 32767)
            for name in Y4.BIG_Q:
                qv, qforms = Y4.big_q(name, d)
                for kind in ("bool", "float", "vector") if quick else SQ_KINDS:
                    for qform in qforms:
                        yield {"part": "sq", "d": d, "box": box, "L": L, "pset": "generic", "qlist": name, "q": qv, "kind": kind,
                               "cform": Y.COND_FORMS[kind][0], "pform": "f64", "qform": qform, "seed": seed}


def run_sq_forms(case):
    from PyMatterSim.static.sq import conditional_sq

    R = Result()
    d, kind = case["d"], case["kind"]
    L = [float(x) for x in case["L"]]
    H = np.diag(L)
    stored, src = _forms_positions(case, H, frac=True)
    n = len(src)
    qint = [list(v) for v in case["q"]]
    qvec = np.array(qint, float) * (2 * math.pi / np.array(L))
    qn = np.linalg.norm(qvec, axis=1)
    groups = group_norms(qn, 8)
    if groups is None:
        return R.screen()
    keys = np.array([k for k, _ in groups])
    snap = Y3.raw_snap(stored, H, np.ones(n, dtype=int))
    p0 = np.array(stored, copy=True)
    qarr = Y3.store_int(qint, case["qform"])
    sig = gsig(case, kind=kind, cform=case["cform"], pform=case["pform"], qform=case["qform"], pset=case["pset"])
    outs = []
    for combo, cond in assignments(kind, d, n, None if case["cform"] == Y.COND_FORMS[kind][0] else case["cform"], FORM_LETTERS):
        c0 = cond.copy()
        per, ave = conditional_sq(snap, qarr, cond)
        ref, _ = cond_sq_loops(np.asarray(src, float).tolist(), L, qint, cond.tolist(), kind)
        qc = [f"q{i}" for i in range(d)]
        if any(c not in per.columns for c in qc + ["q", "Sq"]) or len(per) != len(qint) or any(c not in ave.columns for c in ("q", "Sq")):
            R.fail(f"returned tables: {list(per.columns)} ({len(per)} rows), {list(ave.columns)}", sig=dict(sig, clause="columns"))
            return R
        if not np.allclose(per[qc].values, qvec, rtol=0, atol=0.5000001e-8 + 1e-12) or not np.allclose(per["q"].values, qn, rtol=0, atol=0.5000001e-8 + 1e-12):
            R.fail("per-vector table: q = 2 pi n / L columns wrong", sig=dict(sig, clause="qvectors"))
        v = per["Sq"].values.astype(float)
        tol = 0.5000001e-8 + 1e-9 * np.abs(ref)
        if (np.abs(v - ref) > tol).any() or not np.isfinite(v).all():
            k = int(np.argmax(np.abs(v - ref) - tol))
            R.fail(f"S(q) of wave vector {qint[k]} for condition letters {combo}: got {v[k]!r}, |sum A exp(-iqr)|^2/N = {ref[k]!r}",
                   sig=dict(sig, clause="Sq"), exp=ref, obs=v)
        gm = np.array([ref[idx].mean() for _, idx in groups])
        if len(ave) != len(groups) or not np.allclose(ave["q"].values, keys, rtol=0, atol=1e-9) \
                or (np.abs(ave["Sq"].values - gm) > 0.5000001e-8 + 1e-9 * np.abs(gm)).any():
            R.fail(f"per-|q| average wrong for condition letters {combo}", sig=dict(sig, clause="average"), exp=gm, obs=ave["Sq"].values)
        if not np.array_equal(cond, c0) or cond.dtype != c0.dtype:
            R.fail("condition array modified", sig=dict(sig, clause="input_modified"))
        outs.append(np.round(v, 6))
        R.elem += len(v) + len(groups)
    if not np.array_equal(qarr, np.array(qint)) or not np.array_equal(snap.positions, p0):
        R.fail("wave-vector / position array modified", sig=dict(sig, clause="input_modified"))
    R.outcome(np.array(outs), nd=6)
    R.nontrivial = len({o.tobytes() for o in outs}) >= 2 and len(groups) >= 2
    return R


# -------------------------------------------------------------- C13.gr.dilated / C13.sq.dilated: absolute scale
DIL_SCALES = {"2^-33": 2.0 ** -33, "2^+27": 2.0 ** 27}
SQ_DIL_SCALES = {"2^-33": 2.0 ** -33, "2^+6": 2.0 ** 6}  # the routine rounds its q columns to 8 decimals: a box of 1e9 would round every q to 0


def gen_gr_dilated(tier, seed):
    for d in (2, 3):
        for cell in ("orth", "tri+", "tri-"):
            H = cell_for(d, cell)
            for kind in (("bool", "float", "vector", "tensor") if tier == "quick" else GR_KINDS):
                for mask in ([1] * d,) if tier == "quick" else ([1] * d, [0, 1, 1][:d]):
                    for sname in DIL_SCALES:
                        yield {"part": "gr", "d": d, "cell": cell, "H": H.tolist(), "w": 0.27, "ppp": mask, "kind": kind, "scale": sname, "seed": seed}


def run_gr_dilated(case):
    from PyMatterSim.static.gr import conditional_gr

    R = Result()
    d, kind, w = case["d"], case["kind"], case["w"]
    sc = DIL_SCALES[case["scale"]]
    H = np.array(case["H"], float)
    ppp = np.array(case["ppp"])
    pos = Y.generic4(case["seed"], H, tag=f"c13dl{d}")
    n = len(pos)
    if edge_ambiguous(pos, H, ppp, w):
        return R.screen()
    snap = mk_snap(pos * sc, H * sc, [1] * n)
    sig = gsig(case, kind=kind, scale=case["scale"])
    outs = []
    populated = 0
    for combo, cond in assignments(kind, d, n, None, FORM_LETTERS):
        res = conditional_gr(snap, cond, conditiontype=ctype(kind), ppp=ppp, rdelta=w * sc)
        ref = cond_gr_loops(pos, H, ppp, w, cond.tolist(), kind, pair_bins, shell_volumes)  # the UNDILATED configuration
        if any(c not in res.columns for c in ("r", "gr", "gA")) or len(res) != len(ref["r"]):
            R.fail(f"columns {list(res.columns)} / {len(res)} rows, expected {len(ref['r'])} rows", sig=dict(sig, clause="columns"))
            return R
        if not np.allclose(res["r"].values, ref["r"] * sc, rtol=1e-12, atol=0):
            R.fail("bin centres are not the scaled ones", sig=dict(sig, clause="bins"))
        if not near(res["gr"].values, ref["gr"]):
            R.fail("unconditional gr column changes with the unit of length", sig=dict(sig, clause="gr_total"), exp=ref["gr"], obs=res["gr"].values)
        if not near(res["gA"].values, ref["gA"]):
            R.fail(f"gA changes with the unit of length (condition letters {combo})", sig=dict(sig, clause="gA"), exp=ref["gA"], obs=res["gA"].values)
        if kind == "float" and ref["gA_norm"] is not None and not near(res["gA_norm"].values, ref["gA_norm"]):
            R.fail("gA_norm changes with the unit of length", sig=dict(sig, clause="gA_norm"))
        populated = int((ref["count"] > 0).sum())
        outs.append(np.round(res["gA"].values, 7))
        R.elem += 3 * len(res)
    R.outcome(np.array(outs), nd=7)
    R.nontrivial = populated >= 2 and len({o.tobytes() for o in outs}) >= 2
    return R


def gen_sq_dilated(tier, seed):
    for d in (2, 3):
        for box in ("sqr", "uneq"):
            for ql in ("six", "pyth"):
                for kind in (("bool", "float", "vector") if tier == "quick" else SQ_KINDS):
                    for sname in SQ_DIL_SCALES:
                        yield {"part": "sq", "d": d, "box": box, "L": BOX[d][box], "qlist": ql, "q": qlist(ql, d), "kind": kind, "scale": sname, "seed": seed}


def run_sq_dilated(case):
    """differential: the dilated call against the undilated one (which C13.sq.<kind> compares with the definition): integer wave vectors,
    so every phase q.r is the same number and S must agree bit for bit; the q columns scale by 1 / scale"""
    from PyMatterSim.static.sq import conditional_sq

    R = Result()
    d, kind = case["d"], case["kind"]
    sc = SQ_DIL_SCALES[case["scale"]]
    L = np.array(case["L"], float)
    pos = np.array(A.generic_points(case["seed"], 3, d, tag=f"c13ds{d}")) * L
    qarr = np.array(case["q"], dtype=int)
    qvec = qarr.astype(float) * (2 * math.pi / L)
    base = mk_snap(pos, np.diag(L), [1] * 3)
    dil = mk_snap(pos * sc, np.diag(L * sc), [1] * 3)
    sig = gsig(case, kind=kind, scale=case["scale"])
    outs = []
    for combo, cond in assignments(kind, d, 3, None, FORM_LETTERS):
        pb, ab = conditional_sq(base, qarr, cond)
        pd_, ad = conditional_sq(dil, qarr, cond)
        if list(pd_.columns) != list(pb.columns) or len(pd_) != len(pb):
            R.fail("per-vector table changes shape with the unit of length", sig=dict(sig, clause="columns"))
            return R
        if not np.array_equal(pd_["Sq"].values, pb["Sq"].values):
            k = int(np.argmax(np.abs(pd_["Sq"].values - pb["Sq"].values)))
            R.fail(f"S(q) of wave vector {case['q'][k]} changes with the unit of length: {pd_['Sq'].values[k]!r} vs {pb['Sq'].values[k]!r} (letters {combo})",
                   sig=dict(sig, clause="Sq"), exp=pb["Sq"].values, obs=pd_["Sq"].values)
        qc = [f"q{i}" for i in range(d)]
        if not np.allclose(pd_[qc].values, qvec / sc, rtol=1e-12, atol=0.5000001e-8) or \
                not np.allclose(pd_["q"].values, np.linalg.norm(qvec, axis=1) / sc, rtol=1e-12, atol=0.5000001e-8):
            R.fail("q columns are not 2 pi n / L of the dilated box", sig=dict(sig, clause="qvectors"))
        if len(ad) != len(ab) or not np.allclose(ad["Sq"].values, ab["Sq"].values, rtol=1e-12, atol=1e-14):
            R.fail(f"per-|q| average changes with the unit of length ({len(ad)} rows vs {len(ab)})", sig=dict(sig, clause="average"),
                   exp=ab["Sq"].values, obs=ad["Sq"].values)
        outs.append(np.round(pd_["Sq"].values, 6))
        R.elem += len(pb) + len(ab)
    R.outcome(np.array(outs), nd=6)
    R.nontrivial = len({o.tobytes() for o in outs}) >= 2
    return R


# ------------------------------------------------------------------------------ C13.scale
def gen_scale(tier, seed):
    """dense configurations with coarse bins: one particle has > 255 selected partners in a single bin and a bin total > 65 535"""
    for d, L, n, w in ((3, [6.0, 6.5, 7.0], 1000, 1.5), (2, [6.0, 7.0], 900, 1.5)) + (((3, [6.0, 6.0, 6.0], 1400, 1.0),) if tier == "thorough" else ()):
        for kind in ("bool", "float", "complex", "vector"):
            for ppp in ([1] * d, [1] + [0] * (d - 1)):
                yield {"part": "gr", "d": d, "L": L, "n": n, "w": w, "kind": kind, "ppp": ppp, "seed": seed, "cell": "orth"}


def run_scale(case):
    from PyMatterSim.static.gr import conditional_gr, gr
    from mc.ref import scale as SC

    R = Result()
    d, n, w, kind = case["d"], case["n"], case["w"], case["kind"]
    H = np.diag(case["L"])
    ppp = np.array(case["ppp"])
    for t in range(50):
        pos = SC.dense_points(case["seed"], n, d, case["L"], tag=f"c13scale{t}_")
        cnt, _, amb, nb = SC.weighted_hist(pos, H, ppp, w)
        if not amb:
            break
    else:
        return R.screen()
    V = float(np.prod(case["L"]))
    types = np.array([1 if (i * 7) % 20 < 13 else 2 for i in range(n)])  # 65 % species 1
    sig = gsig(case, kind=kind, scale=True)
    snap = mk_snap(pos, H, types)
    if kind == "bool":
        cond = types == 1
        wfun = lambda i, j: (cond[i] & cond[j]).astype(float)
        M = int(cond.sum())
    elif kind == "float":
        cond = np.array([[-1.0, 0.5, 2.0][(i * i + i // 3) % 3] for i in range(n)])
        wfun = lambda i, j: cond[i] * cond[j]
        M = n
    elif kind == "complex":
        cond = np.array([[1.0 + 0j, 1j, -1.0 + 2j][(i * i + i // 3) % 3] for i in range(n)], dtype=np.complex128)
        wfun = lambda i, j: (cond[i] * np.conj(cond[j])).real
        M = n
    else:
        e = np.eye(d)
        letters = [e[0], -e[1], (e[0] + e[1]) / math.sqrt(2)]
        cond = np.array([letters[(i * i + i // 3) % 3] for i in range(n)])
        wfun = lambda i, j: (cond[i] * cond[j]).sum(axis=1)
        M = n
    cnt, ws, amb, nb = SC.weighted_hist(pos, H, ppp, w, wfun)
    g_ref, r_ref = SC.gr_norm(cnt, n, n, V, w, d, True)
    gA_ref, _ = SC.gr_norm(ws, M, M, V, w, d, True)
    c0 = cond.copy()
    res = conditional_gr(snap, cond, conditiontype=ctype(kind), ppp=ppp, rdelta=w)
    if len(res) != nb or not near(res["r"].values, r_ref):
        R.fail(f"{len(res)} bins / bin centres differ (expected {nb})", sig=dict(sig, clause="bins"))
        return R
    if not near(res["gr"].values, g_ref):
        R.fail(f"N={n}: unconditional gr column differs from the pair histogram", sig=dict(sig, clause="gr_total"), exp=g_ref, obs=res["gr"].values)
    if not near(res["gA"].values, gA_ref):
        R.fail(f"N={n}, width {w}: gA differs from the weighted pair histogram (largest per-bin pair count {int(cnt.max())})",
               sig=dict(sig, clause="gA"), exp=gA_ref, obs=res["gA"].values)
    if kind == "bool":
        G = gr(mk_snaps([pos], H, types), ppp=ppp, rdelta=w).getresults()
        if not near(res["gA"].values, G["gr11"].values):
            R.fail(f"N={n}: boolean selection of species 1 != gr11 of gr()", sig=dict(sig, clause="reduce_partial"), exp=G["gr11"].values, obs=res["gA"].values)
        if not near(G["gr"].values, g_ref):
            R.fail(f"N={n}: total of gr() differs from the pair histogram", sig=dict(sig, clause="gr_total_gr"))
    if not np.array_equal(cond, c0):
        R.fail("condition array modified", sig=dict(sig, clause="input_modified"))
    R.outcome(np.round(res["gA"].values, 7))
    R.elem = 3 * nb
    R.nontrivial = bool(cnt.max() > 65535 and (cnt > 0).sum() >= 2)
    return R


def shell_vectors(d, nq):
    """the first nq non-zero integer vectors ordered by |n|^2 then lexicographically (whole shells first, so |q| groups occur)"""
    import itertools as it

    r = 1
    while True:
        vs = sorted((v for v in it.product(range(-r, r + 1), repeat=d) if any(v)), key=lambda v: (sum(x * x for x in v), v))
        if len(vs) >= nq:
            return [list(v) for v in vs[:nq]]
        r += 1


def gen_sq_scale(tier, seed):
    Ns = [65, 257] if tier == "quick" else [64, 65, 130, 257, 600]
    NQ = [64, 65, 129] if tier == "quick" else [63, 64, 65, 128, 129, 257]
    for d, boxes in ((3, {"cube": [7.0, 7.0, 7.0], "uneq": [7.0, 9.0, 11.0]}), (2, {"sqr": [8.0, 8.0], "uneq": [7.0, 9.0]})):
        for box, L in boxes.items():
            for n in Ns:
                for nq in NQ:
                    if tier == "quick" and (n, nq) not in ((65, 64), (65, 129), (257, 65)):
                        continue
                    for kind in ("bool", "float", "complex", "vector", "cvector"):
                        yield {"part": "sq", "d": d, "box": box, "L": L, "n": n, "nq": nq, "kind": kind, "seed": seed}


def run_sq_scale(case):
    from PyMatterSim.static.sq import conditional_sq
    from mc.ref import scale as SC

    R = Result()
    d, n, kind, L = case["d"], case["n"], case["kind"], [float(x) for x in case["L"]]
    qint = shell_vectors(d, case["nq"])
    pos = SC.dense_points(case["seed"], n, d, L, tag=f"c13sq{d}{case['box']}_")
    qvec = np.array(qint, float) * (2 * math.pi / np.array(L))
    qn = np.linalg.norm(qvec, axis=1)
    groups = group_norms(qn, 8)
    if groups is None:
        return R.screen()
    keys = np.array([k for k, _ in groups])
    sig = gsig(case, kind=kind, scale=True)
    if kind == "bool":
        cond = np.array([(i * 7) % 20 < 13 for i in range(n)])
        A_ = cond.astype(float)[:, None]
        M = int(cond.sum())
    elif kind == "float":
        cond = np.array([[-1.0, 0.5, 2.0][(i * i + i // 3) % 3] for i in range(n)])
        A_, M = cond[:, None], n
    elif kind == "complex":
        cond = np.array([[1.0 + 0j, 1j, -1.0 + 2j][(i * i + i // 3) % 3] for i in range(n)], dtype=np.complex128)
        A_, M = cond[:, None], n
    else:
        e = np.eye(d)
        lv = [e[0], -e[1], (e[0] + e[1]) / math.sqrt(2)]
        cond = np.array([lv[(i * i + i // 3) % 3] for i in range(n)])
        if kind == "cvector":
            cond = cond * np.array([[1.0 + 0j, 1j, -1.0 + 1j][i % 3] for i in range(n)])[:, None]
        A_, M = cond, n
    ph = np.exp(-1j * (pos @ qvec.T))  # (n, nq)
    ref = (np.abs(np.einsum("ic,iq->cq", A_, ph)) ** 2).sum(axis=0) / M
    snap = mk_snap(pos, np.diag(L), [1] * n)
    qarr = np.array(qint, dtype=int)
    c0 = cond.copy()
    per, ave = conditional_sq(snap, qarr, cond)
    if len(per) != len(qint) or "Sq" not in per.columns or "Sq" not in ave.columns:
        R.fail(f"returned tables: {list(per.columns)} ({len(per)} rows), {list(ave.columns)}", sig=dict(sig, clause="columns"))
        return R
    v = per["Sq"].values.astype(float)
    tol = 0.5000001e-8 + 1e-9 * np.abs(ref)
    if (np.abs(v - ref) > tol).any() or not np.isfinite(v).all():
        k = int(np.argmax(np.abs(v - ref) - tol))
        R.fail(f"N={n}, {len(qint)} wave vectors: S(q) of vector #{k} {qint[k]}: got {v[k]!r}, |sum A exp(-iqr)|^2/N = {ref[k]!r}", sig=dict(sig, clause="Sq"))
    gm = np.array([ref[idx].mean() for _, idx in groups])
    if len(ave) != len(groups) or not np.allclose(ave["q"].values, keys, rtol=0, atol=1e-9) \
            or (np.abs(ave["Sq"].values - gm) > 0.5000001e-8 + 1e-9 * np.abs(gm)).any():
        R.fail(f"N={n}, {len(qint)} wave vectors: per-|q| average wrong ({len(ave)} rows, {len(groups)} groups)", sig=dict(sig, clause="average"))
    if not np.array_equal(cond, c0) or not np.array_equal(qarr, np.array(qint, dtype=int)):
        R.fail("input array modified", sig=dict(sig, clause="input_modified"))
    R.outcome(np.round(v, 6))
    R.elem = len(v) + len(groups)
    R.nontrivial = len(groups) >= 2 and float(np.ptp(v)) > 1e-6
    return R


# --------------------------------------------------------------------------------------- subs
def subs(tier, seed):
    out = []
    nmax = 5 if tier == "thorough" else 4
    for kind in GR_KINDS:
        out.append(Sub(f"C13.gr.{kind}", functools.partial(gen_gr_kind, kind), run_gr_kind,
                       rule=f"conditional_gr, condition kind {kind}: one case = (2D/3D, orth/tri+/tri-, width 0.25/0.3, mask, placement of "
                            f"N=3..{nmax} particles); inside it EVERY assignment of the three-letter value alphabet to the particles "
                            "(bool: every non-empty selection) is run and r, gr, gA" + (", gA_norm" if kind == "float" else "")
                            + " compared bin by bin with the weighted-pair-histogram loop; non-trivial = >= 2 populated bins and >= 2 different gA",
                       bounds={"N": [3, nmax], "letters": 3 if kind != "bool" else 2}))
    out.append(Sub("C13.gr.reduce_partial", gen_gr_partial, run_gr_partial,
                   rule=f"every surjective type map of N={nmax} (and 4) particles onto K=1..{'min(N,5)' if tier == 'thorough' else 3} species x geometries x masks: "
                        "conditional_gr(types==a).gA == gr().getresults()['graa'] (K=1: 'gr') and its gr column == total",
                   bounds={"N": nmax}))
    out.append(Sub("C13.gr.reduce_total", gen_gr_total, run_gr_total,
                   rule="A = 1 as float64 / complex128 / all-True bool on every geometry (and a 6-particle one): gA == total g(r) of gr() == own gr column"))
    out.append(Sub("C13.gr.vector_sum", gen_gr_vsum, run_gr_vsum,
                   rule="every assignment of the real / complex vector alphabets: gA(vector) == sum_c gA(component c as scalar); "
                        "every float assignment a: gA(tensor a_i I) == d * gA(scalar a)  (reported as C13.gr.tensor_scalar)"))
    out.append(Sub("C13.gr.scale", gen_scale, run_scale,
                   rule="dense configurations (N = 900 / 1000" + ("" if tier == "quick" else " / 1400") + " particles, bin width 1.5 / 1.0: a particle has > 255 partners in one bin, "
                        "a bin holds > 65 535 pairs) x {bool, float, complex, vector} x {periodic, x-only}: gr, gA against a vectorised weighted pair "
                        "histogram; boolean selection == gr11 of gr(); non-trivial = a bin with > 65 535 pairs",
                   bounds={"N": [900, 1000] + ([] if tier == "quick" else [1400])}))
    for kind in SQ_KINDS:
        out.append(Sub(f"C13.sq.{kind}", functools.partial(gen_sq_kind, kind), run_sq_kind,
                       rule=f"conditional_sq, condition kind {kind}: one case = (2D/3D, Lx=Ly / unequal box, placement of N=3..{nmax}, "
                            "wave-vector list); EVERY assignment of the value alphabet run; per-vector S and per-|q| average compared with "
                            "|sum_i A_i exp(-i q.r_i)|^2 / N (selected count for bool) from explicit loops",
                       bounds={"N": [3, nmax], "qlists": list(QL3)}))
    out.append(Sub("C13.sq.scale", gen_sq_scale, run_sq_scale,
                   rule="size slice: N in " + ("{65, 257}" if tier == "quick" else "{64, 65, 130, 257, 600}") + " particles x the first nq integer wave vectors ordered by shell, nq in "
                        + ("{64, 65, 129}" if tier == "quick" else "{63, 64, 65, 128, 129, 257}") + " x 2D/3D x equal / unequal edges x {bool, float, complex, vector, complex vector}: every per-vector "
                        "value and every per-|q| average against a vectorised Fourier sum (one fixed value pattern per size)",
                   bounds={"N": [65, 257] if tier == "quick" else [64, 65, 130, 257, 600]}))
    out.append(Sub("C13.gr.forms", gen_gr_forms, run_gr_forms,
                   rule="conditional_gr, STORAGE FORMS / exact values / unwrapped / defaults: condition dtype {float64, float32, int32} (scalar, vector, "
                        "tensor kinds) x positions {float64, float32, strided float64 view, float32 column slice}, "
                        + ("<= 1 deviation" if tier == "quick" else "full product") + " x all six kinds x {2D,3D} x cells x masks x point sets of four particles "
                        "{DYADIC: one at the origin, one on the face x = L_x, two coincident; generic through the periodic faces; the generic ones displaced by "
                        "whole cell vectors n H, n in {0,+2,-3,+4}}; plus conditional_gr(snapshot, condition) with the documented DEFAULTS (3D); inside a case "
                        "EVERY assignment of the first three letters of the value alphabet; r, gr, gA, gA_norm against the loop reference on exactly the stored values",
                   bounds={"N": 4, "form_deviations": 1 if tier == "quick" else 2}))
    out.append(Sub("C13.sq.forms", gen_sq_forms, run_sq_forms,
                   rule="conditional_sq, STORAGE FORMS / exact values / unwrapped: condition dtype {float64, float32, int32} x positions {float64, float32, strided, "
                        "float32 column slice} x wave-vector table {int64, int32, int16, Fortran-ordered int32, strided int64 view; lists with components up to 16 / 300 stored as "
                        "int8 / uint8 / int16 / uint16, whose squares overflow the storage type}, "
                        + ("<= 1 deviation" if tier == "quick" else "<= 2 deviations") + " x five kinds x {2D,3D} x boxes x point sets {four particles at dyadic "
                        "fractions of the box incl. origin / face / coincident pair; three generic ones; the generic ones displaced by whole box vectors}; EVERY assignment of the "
                        "first three letters of the value alphabet; per-vector S and per-|q| average against the loop reference",
                   bounds={"N": 4, "form_deviations": 1 if tier == "quick" else 2}))
    out.append(Sub("C13.gr.dilated", gen_gr_dilated, run_gr_dilated,
                   rule="ABSOLUTE SCALE: positions, cell (orth / tri+ / tri-) and bin width multiplied by 2^-33 and 2^+27; four generic particles; every assignment of "
                        "three letters; r scaled, gr / gA / gA_norm equal to the loop reference of the UNDILATED configuration",
                   bounds={"scales": list(DIL_SCALES)}))
    out.append(Sub("C13.sq.dilated", gen_sq_dilated, run_sq_dilated,
                   rule="ABSOLUTE SCALE, differential: positions and box multiplied by 2^-33 and 2^+6 (integer wave vectors: every phase is the same number): per-vector S "
                        "bit for bit the one of the undilated call, q columns = 2 pi n / L of the dilated box, the per-|q| table has the same rows",
                   bounds={"scales": list(SQ_DIL_SCALES)}))
    out.append(Sub("C13.sq.reduce", gen_sq_reduce, run_sq_reduce,
                   rule=f"every surjective type map of N=4{',5' if tier == 'thorough' else ''} particles onto K=1..{'min(N,5)' if tier == 'thorough' else 3} species: conditional_sq(types==a) average == sq()['Sqaa'] within the "
                        "documented 1e-6 rounding; A = 1 (float, complex) == sq()['Sq']"))
    out.append(Sub("C13.sequence", gen_sequence, run_sequence,
                   rule=f"explicit-state search over call words of length <= {2 if tier == 'quick' else 3} over {len(SEQ_LETTERS)} complete argument tuples of "
                        "conditional_gr / conditional_sq (pairs collide in plausible incomplete memo keys: same bin count / different width, same bins / "
                        "other dimension, same diagonal / other tilt, same geometry / other condition kind, same wave-vector list / other box); every word "
                        "in a forked child whose library modules were re-imported; every call must return bit for bit what the same call returns when "
                        "made first", bounds={"letters": len(SEQ_LETTERS), "depth": 2 if tier == "quick" else 3}))
    out.append(Sub("C13.sq.vector_sum", gen_sq_vsum, run_sq_vsum,
                   rule="every assignment of the real / complex vector alphabets: S(vector) == sum_c S(component c as scalar), per wave vector"))
    return out
