"""C07 - symmetry (E2): breadth-first search over WORDS of symmetry generators applied to base configurations.
In every reached state every applicable observable must equal the base value mapped through the group element
(identity; row permutation for per-particle outputs; column renaming for species swaps; r -> s r for dilations).

One Sub per observable family; a runner case is (base id, generator word).  The states are enumerated by
mc.ref.symm.bfs (de-duplicated by the exact bytes of the configuration), the observable of the base is computed
once per worker and cached."""
import itertools
import json
import os

import numpy as np

from mc import harness
from mc.harness import Result, Sub
from mc.ref import symm as S
from mc.ref import c03x as X3
from mc.ref import c07y as Y
from mc.ref.base import mk_snaps, write_neighbor_file, write_weight_file

ASSUMPTIONS = [
    "an axis permutation acts on coordinates, on rows AND columns of the h-matrix, on boxlength/boxbounds and on ppp",
    "species-indexed parameters (cutoff, sigma, epsilon, mass, diameter tables) are relabelled together with the species",
    "bases are screened (deterministically) so that every discrete decision has a margin: rint ties > 1e-4, neighbour rank "
    "gaps and cutoff distances > 1e-4, overlap thresholds > 1e-6, no pair within 1e-9 of a g(r) bin edge; on the repository "
    "samples the same margins are evaluated per particle / per bin and only the particles / bins with margin are compared",
    "S(q) is rounded to 6 decimals by the library before grouping: tolerance 1e-6 on S and on q",
    "rotations are applied only with ppp = 0 and only to the invariants the statement lists; odd axis permutations are "
    "reflections, w-hat_l is compared for even l only (w-hat_l vanishes identically for odd l)",
    "bond-order observables read a neighbour file written by the check (k nearest of the base, mapped through the relabelling)",
    "float tolerance rtol 1e-9 / atol 1e-11 (Hessian eigenvalues: 1e-9 of the largest |eigenvalue|; mode participation "
    "ratios only for eigenvalues isolated by 1e-4 of the largest)",
    "the dump reader is trusted for loading the repository samples (C01)",
    "multi-cell shifts (a particle moved by +2, -3, +4 whole cell vectors along a periodic axis, in every frame or - for the routines that "
    "take wrapped trajectories - in the last frame only) are whole-cell shifts in the sense of the statement; the tolerance stays the same",
    "species-PAIR tables may be asymmetric where the routine indexes them by the ordered pair (centre species, partner species): the type-pair "
    "cutoff (documented layout [[A-A, A-B], [B-A, B-B]]) and the S2 Gaussian widths are also driven with r[a,b] != r[b,a]; per-bond weights of "
    "the bond-order classes are unequal and asymmetric (w_ij != w_ji); all are relabelled together with the species / the ids.  The asymmetric "
    "cutoff matrix is the first of a fixed candidate list that keeps a 1e-4 margin to every pair distance of the base",
    "absolute scale: the dilation generators 2, 1/2 (3) are joined by 2^-33 and 2^+27 (exact in binary floating point; orthogonal and tilted bases): "
    "g(r) values are unchanged with r and the bin width scaled (statement); neighbour SETS (cutoffs scaled with the coordinates), q_l, w-hat_l, |psi_l| "
    "and the tetrahedral order are scale-free and are driven with the same dilations; S(q), S2, the Hessian and the relaxation functions are not",
    "C07.sequence: in the other sub-checks the base value is computed once per worker process and every image after it in the SAME process; "
    "the explicit search runs words (base, image), (image, base), (2D, 3D) ... in a forked child with re-imported library modules and demands "
    "that every call returns bit for bit what the same call returns when made first in a fresh child",
]

DATA = os.path.join(harness.REPO, "tests", "sample_test_data")

# ------------------------------------------------------------------------------------- bases
SAMPLES = {
    "unary": dict(path="unary.dump", d=3, frames=[0], obs=["gr", "sq", "neigh", "boo3d", "tetra", "s2"]),
    "quart": dict(path="quarternary.dump", d=3, frames=[0], obs=["gr", "sq"]),
    "ipl2d": dict(path="IS.2DIPL.atom", d=2, frames=[0], obs=["gr", "sq", "neigh", "boo2d", "s2"]),
    "2ds": dict(path="2d/2ddump.s.atom", d=2, frames=[0, 1, 2], obs=["relaxx"]),
    "2du": dict(path="2d/2ddump.u.atom", d=2, frames=[0, 1, 2], obs=["relaxu"]),
    "3ds": dict(path="3d/3dkaljdump.s.atom", d=3, frames=[0, 1, 2], obs=["relaxx", "boo3d"]),
    "3du": dict(path="3d/3dkaljdump.u.atom", d=3, frames=[0, 1, 2], obs=["relaxu"]),
    "nematic": dict(path="2d/dump.nematic.atom", d=2, frames=[0], obs=["gr", "neigh", "boo2d"]),
    "tri2d": dict(path="2d_triclinic.atom", d=2, frames=[0], obs=["gr", "neigh"], thorough=True),
}
NFRAMES = {"gr": 2, "sq": 2, "neigh": 2, "boo3d": 1, "boo2d": 1, "tetra": 2, "s2": 1, "hessian": 1, "relaxx": 3, "relaxu": 3,
           "shape": 3, "pr": 3}

_CACHE = {}


def _load_sample(name):
    key = ("file", name)
    if key not in _CACHE:
        from PyMatterSim.reader.dump_reader import DumpReader

        sp = SAMPLES[name]
        rd = DumpReader(os.path.join(DATA, sp["path"]), ndim=sp["d"])
        rd.read_onefile()
        sn = [rd.snapshots.snapshots[f] for f in sp["frames"]]
        s0 = sn[0]
        _CACHE[key] = {"d": sp["d"], "H": np.array(s0.hmatrix, float), "lo": np.array(s0.boxbounds, float)[:, 0].copy(),
                       "frames": [np.array(s.positions, float) for s in sn], "types": np.array(s0.particle_type, dtype=int),
                       "ppp": [1] * sp["d"], "steps": [int(s.timestep) for s in sn]}
    return _CACHE[key]


def sample_params(name, cfg, obs):
    """observable parameters for a repository sample (lengths in units of the mean spacing) + the per-particle
    margins (computed once per file)"""
    d = cfg["d"]
    n = len(cfg["types"])
    K = int(cfg["types"].max())
    L = np.diag(cfg["H"])
    ell = round(float((np.prod(L) / n) ** (1.0 / d)), 2)
    par = {"rdelta": [0.05 if n <= 1000 else 0.1], "knn": 12 if d == 3 else 6, "nn_N": [12 if d == 3 else 6], "rcut": 1.5 * ell,
           "rcut_type": None, "qrange": 3.0 if n <= 1000 else 1.5, "qexplicit": False,
           "s2": {"rdelta": 0.05 * ell, "ndelta": 40, "sigmas": (np.full((K, K), 0.15) + 0.01 * np.add.outer(np.arange(K), np.arange(K))) * ell},
           "dyn": {"diameters": {t: 1.0 + 0.1 * (t - 1) for t in range(1, K + 1)}, "a": 0.3}, "bool_l": [6], "w_l": []}
    if obs in ("neigh", "boo3d", "boo2d", "tetra", "s2"):
        rmax = (par["s2"]["ndelta"] - 1) * par["s2"]["rdelta"] + par["s2"]["rdelta"] / 2
        ks = sorted({par["knn"], par["nn_N"][0], 4})
        if ("stats", name) not in _CACHE:
            _CACHE["stats", name] = S.pair_stats({**cfg, "frames": cfg["frames"][:1]}, 0, knn=ks, cuts=[par["rcut"], rmax])
        st = _CACHE["stats", name]
        par["ok_nn"] = {k: st["gap"][k] > 1e-7 for k in ks}
        par["ok_cut"] = st["cutgap"][0] > 1e-7
        par["ok_s2"] = st["cutgap"][1] > 1e-7
        par["ok_tetra"] = par["ok_nn"][4]
        par["nl"] = [st["knn"][par["knn"]]]
    if obs in ("relaxx", "relaxu"):
        dia = np.array([par["dyn"]["diameters"][int(t)] for t in cfg["types"]])
        a2 = (dia * par["dyn"]["a"]) ** 2
        marg = 1.0
        F = len(cfg["frames"])
        for f0 in range(F):
            for f1 in range(f0 + 1, F):
                dr = cfg["frames"][f1] - cfg["frames"][f0]
                v = S.minimg_rows(dr, cfg["H"], cfg["ppp"]) if obs == "relaxx" else dr
                if obs == "relaxx":
                    marg = min(marg, S.tie_margin(dr, cfg["H"], cfg["ppp"]))
                marg = min(marg, float(np.abs((v * v).sum(axis=1) - a2).min()))
        par["dyn_margin"] = marg
    assert S.maxbin_ok(L, par["rdelta"][0])
    return par


def synthetic_params(cfg):
    d = cfg["d"]
    return {"rdelta": S.SYN["rdelta"], "knn": S.SYN["knn"][d], "nn_N": S.SYN["nn_N"][d], "rcut": S.SYN["rcut"][d],
            "rcut_type": S.SYN["rcut_type"], "qrange": 7.0, "qexplicit": True, "s2": S.SYN["s2"], "dyn": S.SYN["dyn"],
            "bool_l": [4, 6], "w_l": [4]}


def get_base(bid, seed, obs, tier="quick"):
    """Base record for (base id, observable): configuration restricted to the frames the observable uses,
    parameters, neighbour lists for the bond-order files, caches."""
    key = (bid, seed, obs, tier if obs == "boo3d" else "")
    if key in _CACHE:
        return _CACHE[key]
    if bid.startswith("file:"):
        name = bid[5:]
        full = _load_sample(name)
        cfg = {k: (v if k != "frames" else [f.copy() for f in v]) for k, v in full.items() if k != "steps"}
        par = sample_params(name, cfg, obs)
        steps = full["steps"]
    else:
        k3 = ("syn", bid, seed)
        if k3 not in _CACHE:
            _CACHE[k3] = S.synthetic(bid, seed, 3)
        full = _CACHE[k3]
        cfg = S.copy_cfg(full)
        cfg["frames"] = cfg["frames"][: NFRAMES[obs]]
        par = dict(synthetic_params(cfg))
        if obs in ("boo3d", "boo2d"):
            par["nl"] = [S.pair_stats(cfg, f, knn=[par["knn"]])["knn"][par["knn"]] for f in range(len(cfg["frames"]))]
        if obs in ("relaxx", "relaxu"):
            # cage-relative displacements: ragged lists (1 or 2 nearest of the base frame, alternating by base particle) - unequal
            # coordination numbers, so the table read from the file is zero-padded (0 is also the first particle's index)
            par["cage_nl"] = [[nb[: 1 + (b % 2)] for b, nb in enumerate(S.pair_stats(cfg, f, knn=[2])["knn"][2])] for f in range(len(cfg["frames"]))]
        if obs == "boo3d" and tier == "thorough" and depth_for(obs, bid, tier) == 2:
            par["w_l"] = [4, 6]  # sympy 3j symbols at l=6 cost 0.2 s per call: only on the depth-2 bases
        steps = [100 * (f + 1) for f in range(len(cfg["frames"]))]
    B = {"bid": bid, "cfg": cfg, "par": par, "steps": steps, "val": None, "aux": {}}
    _CACHE[key] = B
    return B


def snaps_of(B, cfg):
    return mk_snaps(cfg["frames"], cfg["H"], cfg["types"], cfg["lo"], steps=B["steps"][: len(cfg["frames"])])


def nspecies(cfg):
    return int(max(cfg["types"]))


# ------------------------------------------------------------------------------- observables
# each o_<name>(B, cfg, el) runs the REAL implementation on the (image) configuration with the parameters mapped
# through the group element and returns {key: value}; x_<name> compares with the cached base value.
def o_gr(B, cfg, el):
    from PyMatterSim.static.gr import gr

    out = {}
    for w in B["par"]["rdelta"]:
        res = gr(snaps_of(B, cfg), ppp=np.array(cfg["ppp"]), rdelta=w * el["scale"]).getresults()
        out[w] = {c: res[c].values.astype(float) for c in res.columns}
    return out


def x_gr(R, B, bv, iv, el, fail):
    pop = 0
    for w in B["par"]["rdelta"]:
        if ("amb", w) not in B["aux"]:
            nb = int(np.diag(B["cfg"]["H"]).min() / 2.0 / w)
            B["aux"]["amb", w] = S.ambiguous_bins(B["cfg"], w, nb)
        amb, popb = B["aux"]["amb", w]
        exp = {S.map_colname(c, "gr", el["smap"]): v for c, v in bv[w].items() if c != "r"}
        got = {c: v for c, v in iv[w].items() if c != "r"}
        if sorted(exp) != sorted(got):
            fail("gr", f"columns {sorted(got)} expected {sorted(exp)}", "columns")
            continue
        if len(iv[w]["r"]) != len(bv[w]["r"]) or not S.close(iv[w]["r"], bv[w]["r"] * el["scale"], 1e-12, 1e-13):
            fail("gr", f"r column is not the base column times {el['scale']}", "r")
            continue
        keep = ~amb
        for c in sorted(exp):
            R.elem += int(keep.sum())
            if not S.close(got[c][keep], exp[c][keep]):
                k = int(np.argmax(np.abs(np.nan_to_num(got[c] - exp[c])) * keep))
                fail("gr", f"width {w} column {c}: bin {k} is {got[c][k]!r}, base (mapped) {exp[c][k]!r}", c if len(c) <= 2 else "partial",
                     exp=exp[c][k], obs=got[c][k])
        pop += int((popb > 0).sum())
    return pop >= 3


def _qexplicit(d):
    if d == 2:
        return np.array([[1, 0], [0, 1], [2, 1], [1, 3], [3, 2], [0, 2], [4, 1], [-1, 2], [2, -3]])
    return np.array([[1, 0, 0], [0, 1, 0], [0, 0, 1], [2, 1, 0], [0, 2, 1], [1, 0, 2], [1, 2, 3], [3, 1, 2], [2, -1, 1], [-1, 3, 0]])


def o_sq(B, cfg, el):
    from PyMatterSim.static.sq import sq

    out = {}
    res = sq(snaps_of(B, cfg), qrange=B["par"]["qrange"]).getresults()
    out["default"] = {c: res[c].values.astype(float) for c in res.columns}
    if B["par"]["qexplicit"]:
        Q = _qexplicit(cfg["d"])[:, el["axes"]]
        res = sq(snaps_of(B, cfg), qvector=Q).getresults()
        out["explicit"] = {c: res[c].values.astype(float) for c in res.columns}
    return out


def x_sq(R, B, bv, iv, el, fail):
    nrow = 0
    for mode in bv:
        exp = {S.map_colname(c, "Sq", el["smap"]): v for c, v in bv[mode].items() if c != "q"}
        got = {c: v for c, v in iv[mode].items() if c != "q"}
        if sorted(exp) != sorted(got):
            fail("sq", f"{mode}: columns {sorted(got)} expected {sorted(exp)}", "columns")
            continue
        qb, qi = bv[mode]["q"], iv[mode]["q"]
        if len(qb) != len(qi) or not S.close(qb, qi, 0, 2.1e-6):
            fail("sq", f"{mode}: the set of wave numbers changed ({len(qi)} rows, base {len(qb)})", "q")
            continue
        nrow += len(qb)
        for c in sorted(exp):
            R.elem += len(qb)
            if not S.close(got[c], exp[c], 1e-9, 1.0000001e-6):
                k = int(np.argmax(np.abs(got[c] - exp[c])))
                fail("sq", f"{mode} column {c}: q={qi[k]:.6f} gives {got[c][k]!r}, base (mapped) {exp[c][k]!r}", c if len(c) <= 2 else "partial",
                     exp=exp[c][k], obs=got[c][k])
    return nrow >= 4


def o_neigh(B, cfg, el):
    from PyMatterSim.neighbors.calculate_neighbors import Nnearests, cutoffneighbors, cutoffneighbors_particletype

    n = len(cfg["types"])
    sn = snaps_of(B, cfg)
    ppp = np.array(cfg["ppp"])
    out = {}
    for k in B["par"]["nn_N"]:
        Nnearests(sn, N=k, ppp=ppp, fnfile="c07_nn.dat")
        out[f"nearest{k}"] = S.parse_neighbor_file("c07_nn.dat", n)
    sc = el["scale"]  # a dilation scales every cutoff with the coordinates (the neighbour SETS are scale-free)
    cutoffneighbors(sn, r_cut=B["par"]["rcut"] * sc, ppp=ppp, fnfile="c07_nn.dat")
    out["cutoff"] = S.parse_neighbor_file("c07_nn.dat", n)
    if B["par"]["rcut_type"] is not None:
        K = nspecies(cfg)
        rc = S.map_matrix(B["par"]["rcut_type"][:K, :K], el["smap"]) * sc
        cutoffneighbors_particletype(sn, r_cut=rc, ppp=ppp, fnfile="c07_nn.dat")
        out["cutoff_type"] = S.parse_neighbor_file("c07_nn.dat", n)
        if K >= 2:
            if "rcut_asym" not in B["aux"]:
                B["aux"]["rcut_asym"] = Y.asym_rcut(B["cfg"], B["par"]["rcut_type"])
            rc = S.map_matrix(B["aux"]["rcut_asym"][0], el["smap"]) * sc
            cutoffneighbors_particletype(sn, r_cut=rc, ppp=ppp, fnfile="c07_nn.dat")
            out["cutoff_typeasym"] = S.parse_neighbor_file("c07_nn.dat", n)
    os.remove("c07_nn.dat")
    return out


def x_neigh(R, B, bv, iv, el, fail):
    perm = el["perm"]
    inv = S.inv_perm(perm)
    n = len(perm)
    total = 0
    for key in bv:
        ok = None
        if "ok_nn" in B["par"]:
            ok = B["par"]["ok_cut"] if key == "cutoff" else B["par"]["ok_nn"][int(key[7:])]
        if len(iv[key]) != len(bv[key]):
            fail("neigh", f"{key}: {len(iv[key])} frames written, base {len(bv[key])}", key.rstrip("0123456789"))
            continue
        for f, (fb, fi) in enumerate(zip(bv[key], iv[key])):
            if sorted(fi) != list(range(n)):
                fail("neigh", f"{key}: ids in the file are not 1..N", key.rstrip("0123456789"))
                break
            bad = None
            for j in range(n):
                b = perm[j]
                if ok is not None and not ok[b]:
                    continue
                exp = sorted(inv[x] for x in fb[b][1])
                got = sorted(fi[j][1])
                R.elem += 1
                total += len(exp)
                if got != exp or fi[j][0] != fb[b][0]:
                    bad = (j, exp, got)
                    break
            if bad:
                fail("neigh", f"{key} frame {f}: neighbour set of image particle {bad[0]} is {bad[2]}, base set mapped is {bad[1]}",
                     key.rstrip("0123456789"), exp=bad[1], obs=bad[2])
                break
    return total > 0


def _write_nl(B, cfg, el):
    nl = [S.map_neighbors(fr, el["perm"]) for fr in B["par"]["nl"]]
    write_neighbor_file("c07_nl.dat", nl)
    # unequal, asymmetric per-bond weights tied to the (base particle, neighbour slot), carried along by the relabelling
    write_weight_file("c07_w.dat", [Y.map_weights(Y.bond_weights(fr), el["perm"]) for fr in B["par"]["nl"]])


def o_boo3d(B, cfg, el):
    from PyMatterSim.static.boo import boo_3d

    _write_nl(B, cfg, el)
    nf = len(B["par"]["nl"])
    c1 = dict(cfg, frames=cfg["frames"][:nf])
    out = {}
    for l in B["par"]["bool_l"]:
        b = boo_3d(snaps_of(B, c1), l=l, neighborfile="c07_nl.dat", ppp=np.array(cfg["ppp"]), Nmax=30)
        out[f"q{l}"] = b.ql_Ql(coarse_graining=False)
        out[f"Q{l}"] = b.ql_Ql(coarse_graining=True)
        if l in B["par"]["w_l"]:
            out[f"what{l}"] = b.w_W_cap(coarse_graining=False)[1]
            out[f"What{l}"] = b.w_W_cap(coarse_graining=True)[1]
        if l == B["par"]["bool_l"][-1] and not B["bid"].startswith("file:"):
            bw = boo_3d(snaps_of(B, c1), l=l, neighborfile="c07_nl.dat", weightsfile="c07_w.dat", ppp=np.array(cfg["ppp"]), Nmax=30)
            out[f"qw{l}"] = bw.ql_Ql(coarse_graining=False)
            out[f"Qw{l}"] = bw.ql_Ql(coarse_graining=True)
    os.remove("c07_nl.dat")
    os.remove("c07_w.dat")
    return out


def o_boo2d(B, cfg, el):
    from PyMatterSim.static.boo import boo_2d

    _write_nl(B, cfg, el)
    nf = len(B["par"]["nl"])
    c1 = dict(cfg, frames=cfg["frames"][:nf])
    out = {}
    for l in [3] + B["par"]["bool_l"]:
        b = boo_2d(snaps_of(B, c1), l=l, neighborfile="c07_nl.dat", ppp=np.array(cfg["ppp"]), Nmax=30)
        out[f"abspsi{l}"] = np.abs(b.ParticlePhi)
        if l == B["par"]["bool_l"][-1] and not B["bid"].startswith("file:"):
            bw = boo_2d(snaps_of(B, c1), l=l, neighborfile="c07_nl.dat", weightsfile="c07_w.dat", ppp=np.array(cfg["ppp"]), Nmax=30)
            out[f"abspsiw{l}"] = np.abs(bw.ParticlePhi)
    os.remove("c07_nl.dat")
    os.remove("c07_w.dat")
    return out


def x_perparticle(name, rtol=1e-9, atol=1e-11, okkey=None):
    def cmp(R, B, bv, iv, el, fail):
        perm = el["perm"]
        good = False
        for key in bv:
            exp = np.asarray(bv[key])[..., perm]
            got = np.asarray(iv[key])
            if key.lower().startswith("what") and el["parity"] < 0 and int(key[4:]) % 2 == 1:
                continue  # reflections flip the sign of odd-l w-hat
            if exp.shape != got.shape:
                fail(name, f"{key}: shape {got.shape}, base {exp.shape}", key.rstrip("0123456789"))
                continue
            m = np.ones(exp.shape[-1], bool)
            if okkey and okkey in B["par"]:
                m = np.asarray(B["par"][okkey])[perm]
            R.elem += int(m.sum()) * int(np.prod(exp.shape[:-1]))
            if not np.isfinite(got[..., m]).all():
                fail(name, f"{key}: non-finite values", key.rstrip("0123456789"))
                continue
            good = good or float(np.ptp(exp[..., m])) > 1e-6
            if not S.close(got[..., m], exp[..., m], rtol, atol):
                d = np.abs(got - exp) * m
                j = int(np.argmax(d.reshape(-1, d.shape[-1]).max(axis=0)))
                fail(name, f"{key}: image particle {j} (base particle {perm[j]}) has {got[..., j].ravel()[:3]}, base {exp[..., j].ravel()[:3]}",
                     key.rstrip("0123456789"), exp=exp[..., j], obs=got[..., j])
        return good

    return cmp


def o_tetra(B, cfg, el):
    from PyMatterSim.static.geometric import q8_tetrahedral

    return {"q8": q8_tetrahedral(snaps_of(B, cfg), ppp=np.array(cfg["ppp"]))}


def o_s2(B, cfg, el):
    from PyMatterSim.static.pairentropy import S2

    K = nspecies(cfg)
    p = B["par"]["s2"]
    sig = S.map_matrix(p["sigmas"][:K, :K], el["smap"])
    out = {"s2": S2(snaps_of(B, cfg), sigmas=sig, ppp=np.array(cfg["ppp"]), rdelta=p["rdelta"], ndelta=p["ndelta"]).particle_s2()}
    if K >= 2 and not B["bid"].startswith("file:"):
        # widths indexed by the ORDERED pair (centre species, partner species): sigma[a, b] != sigma[b, a]
        sig = S.map_matrix(Y.asym_sigmas(p["sigmas"][:K, :K]), el["smap"])
        out["s2asym"] = S2(snaps_of(B, cfg), sigmas=sig, ppp=np.array(cfg["ppp"]), rdelta=p["rdelta"], ndelta=p["ndelta"]).particle_s2()
    return out


def o_hessian(B, cfg, el):
    import pandas as pd
    from PyMatterSim.static.hessians import HessianMatrix, InteractionParams, ModelName

    K = nspecies(cfg)
    hp = S.SYN["hess"]
    sm = el["smap"]
    sn = snaps_of(B, cfg).snapshots[0]
    masses = S.map_dict({t: hp["masses"][t] for t in range(1, K + 1)}, sm)
    eps = S.map_matrix(hp["eps"][:K, :K], sm)
    out = {}
    for model, ip, shift in (("lj", InteractionParams(ModelName.lennard_jones), True),
                             ("hertz", InteractionParams(ModelName.harmonic_hertz, harmonic_hertz_alpha=2.5), True),
                             ("ipl", InteractionParams(ModelName.inverse_power_law, ipl_n=8.0, ipl_A=1.0), False)):
        rc = S.hess_rc("hertz" if model == "hertz" else "lj")[:K, :K]
        sig = rc if model == "hertz" else hp["sig"][:K, :K]
        h = HessianMatrix(sn, masses, eps, S.map_matrix(sig, sm), S.map_matrix(rc, sm), np.array(cfg["ppp"]), shiftpotential=shift)
        h.diagonalize_hessian(ip, saveevecs=False, savehessian=False, outputfile="c07_h")
        t = pd.read_csv("c07_h.omega_PR.csv")
        om = t["omega"].values.astype(float)
        out[model] = {"eval": np.where(om > 0, om * om, om), "PR": t["PR"].values.astype(float)}
        os.remove("c07_h.omega_PR.csv")
    return out


def x_hessian(R, B, bv, iv, el, fail):
    good = False
    for model in bv:
        eb, ei = bv[model]["eval"], iv[model]["eval"]
        scale = float(np.abs(eb).max())
        R.elem += len(eb)
        good = good or scale > 1e-3
        if eb.shape != ei.shape or not S.close(np.sort(ei), np.sort(eb), 0, 1e-9 * max(scale, 1e-30)):
            fail("hessian", f"{model}: eigenvalues differ by {S.worst(np.sort(ei), np.sort(eb))} (largest |eigenvalue| {scale:.4g})", "eigenvalues",
                 exp=np.sort(eb), obs=np.sort(ei))
            continue
        o = np.argsort(eb)
        es = eb[o]
        gap = np.minimum(np.diff(es, prepend=-np.inf), np.diff(es, append=np.inf))
        iso = gap > 1e-4 * scale
        pb, pi = bv[model]["PR"][o][iso], iv[model]["PR"][np.argsort(ei)][iso]
        R.elem += int(iso.sum())
        if not S.close(pi, pb, 1e-6, 1e-9):
            fail("hessian", f"{model}: participation ratio of an isolated mode differs by {S.worst(pi, pb)}", "PR")
    return good


def _o_relax(mode):
    def o(B, cfg, el):
        from PyMatterSim.dynamic.dynamics import Dynamics

        K = nspecies(cfg)
        dp = B["par"]["dyn"]
        dia = S.map_dict({t: dp["diameters"][t] for t in range(1, K + 1)}, el["smap"])
        sn = snaps_of(B, cfg)
        F, n = len(cfg["frames"]), len(cfg["types"])
        # a per-frame selection tied to the PARTICLES (base rows 0,2,3,5,...), carried along by the relabelling
        sel = np.array([[(b + f) % 3 != 1 for b in el["perm"]] for f in range(F)])
        out = {}
        runs = [("slow", None, None), ("fast", sel, None)]
        if "cage_nl" in B["par"]:
            write_neighbor_file("c07_cage.dat", [S.map_neighbors(fr, el["perm"]) for fr in B["par"]["cage_nl"]])
            runs.append(("cage", None, "c07_cage.dat"))
        for name, cond, nfile in runs:
            cal = "fast" if name == "fast" else "slow"
            if mode == "x":
                dyn = Dynamics(x_snapshots=sn, dt=0.002, ppp=np.array(cfg["ppp"]), diameters=dia, a=dp["a"], cal_type=cal, neighborfile=nfile or "")
            else:
                dyn = Dynamics(xu_snapshots=sn, dt=0.002, ppp=np.zeros(cfg["d"], dtype=int), diameters=dia, a=dp["a"], cal_type=cal, neighborfile=nfile or "")
            res = dyn.relaxation(qconst=2 * np.pi, condition=cond)
            out[name] = {c: res[c].values.astype(float) for c in res.columns}
        if "cage_nl" in B["par"]:
            os.remove("c07_cage.dat")
        return out

    return o


def x_relax(R, B, bv, iv, el, fail):
    good = False
    for cal in bv:
        for c in bv[cal]:
            R.elem += len(bv[cal][c])
            good = good or (c == "msd" and bv[cal][c].min() > 1e-6)
            if not S.close(iv[cal][c], bv[cal][c], 1e-9, 1e-10):
                fail("relax", f"{cal} dynamics, column {c}: {iv[cal][c]} base {bv[cal][c]}", c, exp=bv[cal][c], obs=iv[cal][c])
    return good


def o_shape(B, cfg, el):
    from PyMatterSim.static.shape import gyration_tensor

    out = {}
    for f, pos in enumerate(cfg["frames"]):
        out[f"frame{f}"] = np.array(gyration_tensor(pos.copy()), float)
        out[f"head{f}"] = np.array(gyration_tensor(pos[:5].copy()), float)
    return out


def o_pr(B, cfg, el):
    from PyMatterSim.static.vector import participation_ratio

    f = cfg["frames"]
    return {"disp01": np.array([participation_ratio(f[1] - f[0])]), "disp02": np.array([participation_ratio(f[2] - f[0])]),
            "disp12": np.array([participation_ratio((f[2] - f[1])[:6])])}


def x_invariant(name, rtol=1e-9, atol=1e-11):
    def cmp(R, B, bv, iv, el, fail):
        for key in bv:
            R.elem += np.size(bv[key])
            if not S.close(iv[key], bv[key], rtol, atol):
                fail(name, f"{key}: {iv[key]} base {bv[key]}", "descriptor", exp=bv[key], obs=iv[key])
        return True

    return cmp


OBS = {
    "gr": (o_gr, x_gr),
    "sq": (o_sq, x_sq),
    "neigh": (o_neigh, x_neigh),
    "boo3d": (o_boo3d, x_perparticle("boo3d", 1e-8, 1e-10)),
    "boo2d": (o_boo2d, x_perparticle("boo2d", 1e-9, 1e-11)),
    "tetra": (o_tetra, x_perparticle("tetra", 1e-9, 1e-11, okkey="ok_tetra")),
    "s2": (o_s2, x_perparticle("s2", 1e-8, 1e-10, okkey="ok_s2")),
    "hessian": (o_hessian, x_hessian),
    "relaxx": (_o_relax("x"), x_relax),
    "relaxu": (_o_relax("u"), x_relax),
    "shape": (o_shape, x_invariant("shape", 1e-9, 1e-11)),
    "pr": (o_pr, x_invariant("pr", 1e-10, 1e-12)),
}

# which generators apply to which observable (the statement's clauses)
GEN = {
    "gr": dict(frameshift=True, dil=True),
    "sq": dict(frameshift=True),
    "neigh": dict(frameshift=True, dil=True),
    "boo3d": dict(rot=True, dil=True),
    "boo2d": dict(rot=True, dil=True),
    "tetra": dict(rot=True, frameshift=True, dil=True),
    "s2": dict(),
    "hessian": dict(),
    "relaxx": dict(frameshift=True),
    "relaxu": dict(),
    "shape": dict(trans=False, shift=False, idperm=False, swap=False, axperm=False, rot=True),
    "pr": dict(trans=False, shift=False, idperm=False, swap=False, axperm=False, rot=True),
}


def bases_for(obs, tier):
    full = tier == "thorough"
    b3 = ["3o2", "3t3", "3m2"] + (["3o3", "3t2", "3m3"] if full else [])
    b2 = ["2o2", "2t3", "2m2"] + (["2o3", "2t2", "2m3"] if full else [])
    c3 = ["3c2"] + (["3c3"] if full else [])
    c2 = ["2c3"] + (["2c2"] if full else [])
    if obs == "sq":
        return ["3o2", "2o3", "3o3", "2o2"]
    if obs == "boo3d":
        return b3 + c3
    if obs == "tetra":
        return b3 + c3
    if obs == "boo2d":
        return b2 + c2
    if obs == "relaxx":
        return b3 + b2
    if obs == "relaxu":
        return b3[:2] + b2[:2] + c3[:1]
    if obs in ("shape", "pr"):
        return ["3c2", "2c3", "3c3", "2c2"]
    return b3 + b2


def depth_for(obs, bid, tier):
    if tier == "quick":
        return 2
    # thorough: depth 3 on one base per dimension and cell kind (K alternating), depth 2 on the others
    return 3 if bid in ("3o2", "3t3", "2o2", "2t3", "2m2", "3c2", "2c3") or obs in ("shape", "pr") else 2


def make_gen(obs):
    def gen(tier, seed):
        for bid in bases_for(obs, tier):
            B = get_base(bid, seed, obs, tier)
            gens = Y.generators(B["cfg"], tier, **GEN[obs])
            depth = depth_for(obs, bid, tier)
            if depth <= 2:
                states, _ = Y.bfs(B["cfg"], gens, depth, seed)
            else:
                # depth 3: all words of the single-cell generator set, plus all words up to depth 2 that contain a multi-cell shift
                states, _ = Y.bfs(B["cfg"], S.generators(B["cfg"], tier, **GEN[obs]), depth, seed)
                have = {tuple(w) for w, _ in states}
                states = states + [(w, n) for w, n in Y.bfs(B["cfg"], gens, 2, seed)[0] if tuple(w) not in have and any(g[0] in "MG" for g in w)]
            for word, n_in in states:
                yield {"obs": obs, "base": bid, "seed": seed, "tier": tier, "word": word, "n_in": n_in}

    return gen


def gen_samples(tier, seed):
    for name, sp in SAMPLES.items():
        if sp.get("thorough") and tier != "thorough":
            continue
        for obs in sp["obs"]:
            bid = "file:" + name
            B = get_base(bid, seed, obs, tier)
            if obs.startswith("relax") and B["par"]["dyn_margin"] < 1e-9:
                continue
            opts = dict(GEN[obs])
            opts["rot"] = False
            gens = Y.generators(B["cfg"], "thorough", **opts)
            if tier == "quick" or len(B["cfg"]["types"]) > 4000:
                # one or two generators of every kind (all axis permutations, both translations, three of the shifts)
                d = sp["d"]
                keep = {"T0", "T1", "S0+0", "Sm-1", f"Sl+{d - 1}", f"Fm{'+-'[(d - 1) % 2]}{d - 1}", "Prev", "Pcyc", "X12", "X1K", "D2", "Dh",
                        "M0+02", f"Ml-{d - 1}3", f"G0-{d - 1}3"}
                gens = [g for g in gens if g in keep or g[0] == "A"]
            states, _ = Y.bfs(B["cfg"], gens, 1, seed)
            words = [(w, n) for w, n in states]
            if tier == "thorough" and len(B["cfg"]["types"]) <= 4000:
                # selected depth-2 words: one generator of every kind composed with every other kind
                rep = {}
                for g in gens:
                    rep.setdefault(Y.kind_of(g), g)
                reps = [rep[k] for k in sorted(rep)]
                words += [([a, b], 1) for a in reps for b in reps if Y.kind_of(a) != Y.kind_of(b)]
            for word, n_in in words:
                yield {"obs": obs, "base": bid, "seed": seed, "tier": tier, "word": word, "n_in": n_in}


def run(case):
    R = Result()
    obs = case["obs"]
    B = get_base(case["base"], case["seed"], obs, case.get("tier", "quick"))
    compute, compare = OBS[obs]
    ident = S.identity(B["cfg"])
    if B["val"] is None:
        B["val"] = compute(B, B["cfg"], ident)
    cfg, el = Y.apply_word(B["cfg"], case["word"], case["seed"])
    kinds = [Y.kind_of(g) for g in case["word"]]
    cell = case["base"][1] if not case["base"].startswith("file:") else "sample"
    subid = f"C07.{obs}." + "-".join(kinds)

    def fail(name, msg, key, exp=None, obs=None, _o=None):
        R.fail(f"{case['base']} word {'.'.join(case['word'])}: {msg}", sig={"obs": name, "what": key, "word": "-".join(sorted(set(kinds))), "cell": cell,
                                                                        "d": B["cfg"]["d"]}, exp=exp, obs=obs, sub=subid)

    R.elem = 0
    iv = compute(B, cfg, el)
    R.nontrivial = bool(compare(R, B, B["val"], iv, el, fail))
    R.outcome(_flat(iv), nd=6)
    R.states = 1
    R.transitions = int(case["n_in"])
    return R


def _flat(v):
    if isinstance(v, dict):
        return {str(k): _flat(x) for k, x in v.items()}
    if isinstance(v, (list, tuple)):
        return [_flat(x) for x in v]
    return v


# ----------------------------------------------------------------------------------------- C07.sequence
# Letters = complete calls (observable, base, generator word).  The images are chosen so that base and image collide in plausible incomplete
# memo keys: an axis permutation of the anisotropic cell keeps the longest edge (hence numofq, the bin count, the volume), an id permutation
# keeps every count and shape, a species swap keeps N and the number of species, a whole-cell shift keeps everything but one coordinate, the
# other-dimension base keeps the particle types; the triclinic base shares the cell diagonal of the orthogonal one.
SEQ_OBS = {
    "gr": ("3o2", "2o2"), "sq": ("3o2", "2o2"), "neigh": ("3o2", "2o2"), "s2": ("3o2", "2o2"), "hessian": ("3o2", "2o2"),
    "relaxx": ("3o2", "2o2"), "boo3d": ("3o2", "3t3"), "boo2d": ("2o2", "2t3"), "tetra": ("3o2", "3t3"),
}


def seq_letters(obs):
    b1, b2 = SEQ_OBS[obs]
    d = int(b1[0])
    rot = "A201" if d == 3 else "A10"
    L = [(b1, []), (b1, [rot]), (b1, ["Prev"]), (b1, ["X12"]), (b1, [f"Ml-{d - 1}3"]), (b2, [])]
    if b2[0] != b1[0]:
        L.append((b2, ["A10" if b2[0] == "2" else "A201"]))
    else:
        L.append((b2, ["Pcyc"]))
    return L


def _seq_eval(case):
    """executed in the forked child: the calls of one word, in order"""
    obs = case["obs"]
    out = []
    for k in case["word"]:
        bid, word = seq_letters(obs)[k]
        B = get_base(bid, case["seed"], obs, "quick")
        cfg, el = Y.apply_word(B["cfg"], word, case["seed"])
        out.append(Y.to_json(OBS[obs][0](B, cfg, el)))
    return out


def gen_sequence(tier, seed):
    depth = 2 if tier == "quick" else 3
    for obs in SEQ_OBS:
        nl = len(seq_letters(obs))
        for Lw in range(1, depth + 1):
            for word in itertools.product(range(nl), repeat=Lw):
                if Lw == 3 and (len(set(word)) == 1 or obs in ("boo3d", "hessian") and word[0] == word[2]):
                    continue
                yield {"obs": obs, "word": list(word), "seed": seed, "part": "sequence"}


_SEQ_FRESH = {}


def run_sequence(case):
    R = Result()
    obs, seed = case["obs"], case["seed"]
    letters = seq_letters(obs)
    names = [letters[k][0] + ":" + (".".join(letters[k][1]) or "id") for k in case["word"]]
    payload = X3.fresh_child(_seq_eval, case, Y.SEQ_MODS)
    if "err" in payload:
        R.fail(f"{obs}: call sequence {names} raised {payload['err']}", sig={"part": "sequence", "obs": obs, "exception": True}, sub="C07.sequence")
        return R
    for k in set(case["word"]):
        if (obs, seed, k) not in _SEQ_FRESH:
            one = X3.fresh_child(_seq_eval, dict(case, word=[k]), Y.SEQ_MODS)
            if "err" in one:
                R.fail(f"{obs}: single call {letters[k]} raised {one['err']}", sig={"part": "sequence", "obs": obs, "exception": True}, sub="C07.sequence")
                return R
            _SEQ_FRESH[(obs, seed, k)] = one["ok"][0]
    states = set()
    for pos_, (k, got) in enumerate(zip(case["word"], payload["ok"])):
        ref = _SEQ_FRESH[(obs, seed, k)]
        if not Y.same_json(got, ref):
            R.fail(f"{obs}: call #{pos_ + 1} ({names[pos_]}) of the sequence {names} differs at {Y.first_difference(ref, got)} from the same call made first in a "
                   f"fresh process (earlier calls: {names[:pos_]})",
                   sig={"part": "sequence", "obs": obs, "position": "later" if pos_ else "first"}, sub="C07.sequence")
        states.add(json.dumps(got, sort_keys=True)[:4000])
    R.outcome(sorted(states), nd=9)
    R.states = len(case["word"]) + 1
    R.transitions = len(case["word"])
    R.elem = len(case["word"])
    R.nontrivial = True
    return R


RULES = {
    "gr": "gr().getresults(), widths 0.125 and 0.22, two frames, all columns, every bin without an edge-ambiguous pair",
    "sq": "sq().getresults() with the default wave-vector set (qrange 7) and an explicit asymmetric integer list (columns permuted with the axes); orthogonal cells",
    "neigh": "Nnearests (two N), cutoffneighbors, cutoffneighbors_particletype (symmetric and asymmetric r_cut[a,b] != r_cut[b,a] tables): neighbour SETS parsed from the files they write, two frames",
    "boo3d": "boo_3d q_l, Q_l (l=4,6), w-hat_l, W-hat_l (l=4; thorough also l=6 on the depth-2 bases) per particle, q_6 / Q_6 also with unequal asymmetric per-bond weights (weightsfile); periodic bases and open clusters (+rotations)",
    "boo2d": "boo_2d |psi_l| (l=3,4,6) per particle, |psi_6| also with unequal asymmetric per-bond weights; periodic bases and open clusters (+rotations)",
    "tetra": "q8_tetrahedral per particle, two frames; periodic bases and open clusters (+rotations)",
    "s2": "S2.particle_s2 per particle (species-dependent widths, symmetric and asymmetric sigma[a,b] != sigma[b,a] tables)",
    "hessian": "HessianMatrix.diagonalize_hessian eigenvalues (from omega) for LJ/Hertz/IPL with unequal masses; PR of isolated modes",
    "relaxx": "Dynamics(x_snapshots).relaxation rows (slow/all particles, fast/per-frame selection, cage-relative with ragged 1-/2-nearest lists), three frames, image shifts of single frames",
    "relaxu": "Dynamics(xu_snapshots).relaxation rows (slow/all particles, fast/per-frame selection, cage-relative with ragged lists), three frames",
    "shape": "gyration_tensor descriptors of open clusters (3 frames, whole cluster and first five particles) under rotations",
    "pr": "participation_ratio of displacement fields of open clusters under rotations",
}


def subs(tier, seed):
    out = []
    for obs in ("gr", "sq", "neigh", "boo3d", "boo2d", "tetra", "s2", "hessian", "relaxx", "relaxu", "shape", "pr"):
        s = Sub(f"C07.{obs}", make_gen(obs), run,
                rule=RULES[obs] + "; states = words of the applicable generators incl. multi-cell shifts (+2, -3" + ("" if tier == "quick" else ", +4") + " cell vectors; for wrapped trajectories also a -3 jump in the last frame only) (breadth-first, de-duplicated by configuration bytes; words containing a multi-cell shift up to depth 2) up to depth "
                + ("2" if tier == "quick" else "3 on one base per cell kind, 2 on the others") + "; non-trivial = the observable varies / is populated on the base",
                bounds={"bases": bases_for(obs, tier), "depth": 2 if tier == "quick" else 3, "generators": GEN[obs]})
        out.append(s)
    s = Sub("C07.samples", gen_samples, run,
            rule="repository sample files (first frames), per file the observables listed in checks/c07.py:SAMPLES; every single generator "
                 + ("and one word per ordered pair of generator kinds" if tier == "thorough" else "(depth 1)")
                 + "; neighbour/tetrahedral/S2 rows only for particles with rank/cutoff margin, g(r) bins without edge-ambiguous pairs",
            bounds={"files": [k for k, v in SAMPLES.items() if tier == "thorough" or not v.get("thorough")], "depth": 1 if tier == "quick" else 2})
    out.append(s)
    out.append(Sub("C07.sequence", gen_sequence, run_sequence,
                   rule=f"explicit-state search over call words of length <= {2 if tier == 'quick' else 3} per observable ({', '.join(SEQ_OBS)}); letters = the observable "
                        "on the anisotropic base, on its images under an axis permutation (same longest edge, numofq, bin count, volume), an id reversal (same counts), "
                        "a species swap, a -3 cell-vector shift of the last particle, and on a second base (other dimension, or the triclinic cell with the same "
                        "diagonal) and an image of it; every word in a forked child whose library modules were re-imported; every call must return bit for bit what "
                        "the same call returns when made first (the relation between base and image values is the subject of the other sub-checks, which evaluate "
                        "base and images in one worker process, base first)",
                   bounds={"letters": 7, "depth": 2 if tier == "quick" else 3, "observables": list(SEQ_OBS)}))
    return out
