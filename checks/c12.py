"""C12 - PairInteractions: [s'(r), s'(r_c)|0, s''(r)] are the derivatives of the documented potentials (E1 + E3).

Oracle: the documented s(r) (mc.ref.pairpot, written from docs/hessian.md) differentiated by hyper-dual numbers
(mc.ref.hyperdual) - no hand-derived derivative formula on the reference side.

Alphabet: the full Cartesian grid  x=r/sigma  X  y=r_c/sigma  X  sigma  X  epsilon  X  shift  (X n X A | X alpha).
One case = one tuple of everything but x; all x are evaluated inside the case.

Cutoff argument (mc.ref.pairpot.closed_form_structure): if the source of the closed forms is a generalised polynomial
(few monomials with real exponents) in (x, y, sigma, epsilon, A) - Hertz: in u = 1 - r/sigma - then implementation
minus reference has at most T distinct exponents per variable, and agreement on a Cartesian grid with >= T positive
nodes per variable is identity in these variables (Descartes/Laguerre: T real-power terms have <= T-1 positive
zeros; for LJ and integer n this is the Laurent-polynomial argument of DESIGN.md).  The dependence on the exponents
n and alpha themselves is NOT covered by any finite argument: bounded to the enumerated values.  If the walk fails
the whole claim is the completed grid (stated in bounds/rule, never a violation).

Strengthened slices (docs/STRENGTHEN_TASK.md; alphabets in mc/ref/c12x.py):
  C12.types           all arguments as python int / np.int64 / np.int32 / np.float64 / np.float32 (integer division, integer powers, overflow)
  C12.scale           r (alone or with epsilon, sigma, r_c) as numpy arrays of 1, 64, 65, 257 (thorough .. 4097) elements and 2-D
  C12.edge            exponents at which inner powers become zero / negative: n in {-2..2}, alpha in {1, 1.25, 1.5, 2}
  C12.sequence.mixed  call words ACROSS the three models (same r, epsilon, sigma, r_c, shift), fresh object per call and ONE shared object
Round 4 (docs/STRENGTHEN_TASK2.md; alphabets in mc/ref/c12y.py):
  C12.caller.decoys   L1: the fields of the OTHER models in InteractionParams hold defaults / 0.0 / negative / 1e300 / NaN
  C12.zero            L8: A = 0 / 0.0 and epsilon = 0 / 0.0 given explicitly (positional, keyword, through caller)
  C12.types           L5: + the scalar-type mixtures the Hessian code produces (float64 r, matrix-element epsilon / sigma / r_c)
"""
import itertools
import os

import numpy as np

from mc import harness
from mc.harness import Result, Sub
from mc.ref import c12x, c12y, pairpot

ASSUMPTIONS = [
    "documented potentials (docs/hessian.md): LJ 4 eps[(sigma/r)^12-(sigma/r)^6]; IPL A eps (sigma/r)^n; Hertz "
    "eps/alpha (1-r/sigma)^alpha on r < sigma with r_c = sigma (where s'(r_c) = 0 for alpha > 1, as documented)",
    "domain: r, sigma, r_c, epsilon, A > 0; n in the enumerated set (integers and non-integers, int- and float-typed); "
    "alpha in {2, 2.5, 3} (thorough also 2.2, 3.5, 4; alpha >= 2 so that s'' is finite up to r = sigma); python floats; "
    "for integer alpha the documented s(r) is a polynomial, so nodes with r > sigma are included there (non-integer alpha: r < sigma only)",
    "identity in (r, r_c, sigma, epsilon, A) for every enumerated exponent follows from the Cartesian grid ONLY together "
    "with the structural walk over the source (generalised-polynomial class, term count T per variable <= nodes per "
    "variable); the dependence on n / alpha is a bounded claim (enumerated values only)",
    "nodes are r = x*sigma, r_c = y*sigma rounded to double (perturbs the Cartesian grid by <= 1 ulp; tolerance 1e-9)",
    "float tolerance rtol 1e-9, atol 1e-11; s1rc must be exactly 0 when shift is False",
    "C12.types: r, epsilon, sigma, r_c, n, A, alpha may all be python ints, np.int64 / np.int32, np.float64 (the type the Hessian code "
    "passes for r) or np.float32 scalars (the docstrings say float); float32 arguments are only required to give float32 accuracy (1e-4 relative)",
    "C12.scale: r given as a numpy array (1-D or 2-D; alone, or together with equally shaped epsilon / sigma / r_c arrays) is evaluated "
    "elementwise by the unchanged tree; this undocumented vectorised use is exercised, but a TypeError / ValueError is NOT reported "
    "(arrays are not promised) - only wrong values, wrong shapes or modified input arrays are",
    "C12.edge: exponents at which a power inside the closed forms becomes zero or negative - n in {-2, -1, 0, 0.5, 1, 2} (s is still "
    "A eps (sigma/r)^n) and alpha in {1, 1.25, 1.5, 2} on r < sigma strictly (alpha < 2: s'' diverges at r = sigma, excluded); "
    "alpha = 1 only without shift: there the documented 's'(r_c) = 0' and the derivative of the documented s(r) (-eps/sigma) disagree, "
    "the implementation follows the documentation - nothing is demanded",
    "C12.caller.decoys (round 4, L1): InteractionParams fields that belong to the other models are documented as parameters of those models only; whatever they "
    "hold (defaults, 0.0, negative values, 1e300, NaN) the selector must return the requested model's triple without touching them",
    "C12.zero (round 4, L8): A = 0 and epsilon = 0 are inside the domain ('for every ... energy scale ... and prefactor'; docs/hessian.md excludes neither): "
    "the documented potential is identically zero there and so are its derivatives; the default prefactor A = 1.0 applies only when A is NOT given",
    "C12.types matrix forms (round 4, L5): r as numpy float64 (float32) scalar together with epsilon / sigma / r_c as int64 / int32 / float32 / python-int scalars "
    "(elements of the user's parameter matrices) and python-float exponents; float32 parameters are only required to give float32 accuracy (2e-6 relative)",
    "C12.dilation (round 4, L9): the documented potentials depend on r / sigma only, so multiplying r, sigma, r_c by a common factor at fixed epsilon multiplies s' by "
    "1/factor and s'' by 1/factor^2, at ANY absolute scale (2^-33, 2^27): comparisons there are purely relative",
    "C12.sequence.mixed: the result of a call must not depend on earlier calls with another model / exponent / prefactor, neither "
    "through process-wide state (fresh object per call) nor through state kept on one PairInteractions object (same-object mode)",
]

RTOL, ATOL = 1e-9, 1e-11
SRC = os.path.join(harness.REPO, "PyMatterSim", "static", "hessians.py")
_STRUCT = None


def structure():
    global _STRUCT
    if _STRUCT is None:
        try:
            with open(SRC) as f:
                _STRUCT = pairpot.closed_form_structure(f.read())
        except OSError as e:
            _STRUCT = {m: {"ok": False, "why": str(e), "need": {}, "terms": {}} for m in pairpot.MODELS}
    return _STRUCT


# ------------------------------------------------------------------------------------------ alphabets
def alpha(tier):
    q = tier == "quick"
    a = {}
    # x = r/sigma: 24 values in [0.8, 2.5], exactly one equal to 1 (quick); denser for thorough
    if q:
        a["x"] = [0.8, 0.85, 0.9, 0.95, 1.0, 1.05, 1.1, 1.12, 1.2, 1.25, 1.3, 1.4, 1.5, 1.6, 1.7, 1.8, 1.9, 2.0, 2.1, 2.2, 2.3, 2.4, 2.45, 2.5]
        a["xh"] = [0.3, 0.4, 0.5, 0.55, 0.6, 0.7, 0.75, 0.8, 0.85, 0.9, 0.95, 0.98]  # Hertz: r < sigma
    else:
        a["x"] = sorted(set([round(0.8 + 0.0175 * i, 6) for i in range(98)] + [1.0, 2.5]))
        a["xh"] = [round(0.05 + 0.02 * i, 6) for i in range(47)] + [0.98, 0.995]
    a["xh_beyond"] = [1.05, 1.2, 1.5] if q else [1.02, 1.05, 1.1, 1.2, 1.35, 1.5, 1.8]  # Hertz, integer alpha only: r > sigma
    a["y"] = [1.48, 2.0, 2.5] if q else [1.12, 1.48, 2.0, 2.5, 3.0]
    a["sigma"] = [0.7, 1.0, 1.4] if q else [0.7, 0.88, 1.0, 1.2, 1.4]
    a["eps"] = [0.5, 1.0, 2.0] if q else [0.2, 0.5, 1.0, 1.5, 2.0]
    a["n"] = [4, 6, 10, 12, 12.5] if q else [1, 2, 3.5, 4, 6, 9.0, 10, 12, 12.5, 18, 36]
    a["A"] = [1.0, 2.5] if q else [0.5, 1.0, 2.5]
    a["alpha"] = [2, 2.5, 3] if q else [2, 2.0, 2.2, 2.5, 3, 3.5, 4]
    a["shift"] = [True, False]
    return a


def gen_model(model, via):
    def gen(tier, seed):
        a = alpha(tier)
        if model == "lj":
            for sg, ep, y, sh in itertools.product(a["sigma"], a["eps"], a["y"], a["shift"]):
                yield {"model": "lj", "via": via, "sigma": sg, "eps": ep, "y": y, "shift": sh, "x": a["x"]}
        elif model == "ipl":
            for n, A, sg, ep, y, sh in itertools.product(a["n"], a["A"], a["sigma"], a["eps"], a["y"], a["shift"]):
                yield {"model": "ipl", "via": via, "sigma": sg, "eps": ep, "y": y, "shift": sh, "n": n, "A": A, "x": a["x"]}
                if A == 1.0 and via == "direct":
                    yield {"model": "ipl", "via": "direct_default_A", "sigma": sg, "eps": ep, "y": y, "shift": sh, "n": n, "A": A, "x": a["x"][::3]}
        else:
            for al, sg, ep, sh in itertools.product(a["alpha"], a["sigma"], a["eps"], a["shift"]):
                xs = list(a["xh"])
                if float(al).is_integer():
                    # integer exponent: the documented s(r) is a polynomial in r, real on both sides of sigma
                    xs = xs + [1.0] + a["xh_beyond"]  # r = sigma = r_c exactly is reachable (the Hessian's cutoff test is inclusive)
                yield {"model": "hertz", "via": via, "sigma": sg, "eps": ep, "y": 1.0, "shift": sh, "alpha": al, "x": xs}
    return gen


def gen_caller(tier, seed):
    for m in pairpot.MODELS:
        yield from gen_model(m, "caller")(tier, seed)


# ------------------------------------------------------------------------------------------ execution
DECOY = {"ipl_n": 7.0, "ipl_A": 3.0, "harmonic_hertz_alpha": 2.75}  # values of the fields the requested model must ignore


def call(case, r, r_c):
    from PyMatterSim.static.hessians import InteractionParams, ModelName, PairInteractions

    P = PairInteractions(r, case["eps"], case["sigma"], r_c, case["shift"])
    m, via = case["model"], case["via"]
    if via == "caller":
        kw = dict(DECOY) if not case.get("decoy") else c12y.decoy_kw(m, case["decoy"])
        if m == "lj":
            ip = InteractionParams(ModelName.lennard_jones, **kw)
        elif m == "ipl":
            kw.update(ipl_n=case["n"], ipl_A=case["A"])
            ip = InteractionParams(ModelName.inverse_power_law, **kw)
        else:
            kw.update(harmonic_hertz_alpha=case["alpha"])
            ip = InteractionParams(ModelName.harmonic_hertz, **kw)
        return P.caller(ip)
    if m == "lj":
        return P.lennard_jones()
    if m == "ipl":
        if via == "direct_default_A":
            return P.inverse_power_law(case["n"])
        if via == "direct_kw":
            return P.inverse_power_law(n=case["n"], A=case["A"])
        return P.inverse_power_law(case["n"], case["A"])
    return P.harmonic_hertz(case["alpha"])


def run(case):
    R = Result()
    m = case["model"]
    sg, ep, sh = case["sigma"], case["eps"], case["shift"]
    r_c = case["y"] * sg
    par = {"n": case.get("n"), "A": case.get("A"), "alpha": case.get("alpha")}
    feat = {"model": m, "via": case["via"], "shift": sh}
    if m == "ipl":
        feat["n_integer"] = bool(float(case["n"]).is_integer())
    if case.get("decoy"):
        feat["decoy"] = case["decoy"]
    if case.get("zero"):
        feat["zero"] = case["zero"]
    rows = []
    for x in case["x"]:
        r = x * sg
        got = call(case, r, r_c)
        exp = pairpot.triple(m, r, ep, sg, r_c, sh, **par)
        if case["via"] == "caller":
            # the selector returns the triple of the requested model: same list as the direct method on a fresh object
            d = dict(case, via="direct")
            direct = call(d, r, r_c)
            if got is None or list(got) != list(direct):
                R.fail(f"caller({m}) returns {got}, the {m} method returns {direct} (r={r}, params={par})",
                       sig=dict(feat, clause="caller_vs_method"), exp=direct, obs=got)
                break
        if got is None or len(got) != 3:
            R.fail(f"{m}: returned {got!r}, expected a list [s1, s1rc, s2]", sig=dict(feat, clause="shape"))
            break
        if any(isinstance(v, complex) or not np.isreal(v) for v in got):
            R.fail(f"{m}: non-real entry in {got!r} at r={r}, eps={ep}, sigma={sg}, r_c={r_c}, {par}", sig=dict(feat, clause="complex"), exp=exp)
            break
        g = [float(np.real(v)) for v in got]
        rows.append(g)
        stop = False
        for k, name in enumerate(("s1", "s1rc", "s2")):
            if name == "s1rc" and not sh:
                ok = g[k] == 0.0
            else:
                ok = np.isfinite(g[k]) and abs(g[k] - exp[k]) <= ATOL + RTOL * abs(exp[k])
            if not ok:
                what = {"s1": "ds/dr", "s2": "d2s/dr2", "s1rc": "ds/dr at r_c" if sh else "0 (no shift)"}[name]
                R.fail(f"{m} {name}={g[k]!r} but {what} = {exp[k]!r} at r={r}, eps={ep}, sigma={sg}, r_c={r_c}, shift={sh}, {par}",
                       sig=dict(feat, clause=name), exp=exp, obs=g)
                stop = True
        if stop:
            break
    R.elem = 3 * len(case["x"])
    R.outcome(rows)
    # (the Hertz contact node r = sigma has s1 = 0 by construction: not part of the non-triviality rule)
    core = [g for g, x in zip(rows, case["x"]) if not (m == "hertz" and x == 1.0)]
    R.nontrivial = len(core) > 0 and all(abs(g[0]) > 0 and abs(g[2]) > 0 for g in core) and (not sh or m == "hertz" or all(g[1] != 0 for g in core))
    if case.get("zero"):
        R.nontrivial = len(core) > 0  # an explicit zero prefactor / energy scale: the documented derivatives are all zero
    return R


# ------------------------------------------------------------------------------------------ round 4: decoys (L1), explicit zeros (L8)
def gen_decoys(tier, seed):
    """caller() with the fields of the OTHER models set to values that are harmless only if those fields are never touched; the r grid contains
    r = sigma exactly (x = 1), where an eagerly evaluated Hertz branch with the default alpha = 0 divides by zero"""
    q = tier == "quick"
    a = alpha(tier)
    for name in c12y.DECOY_SETS:
        for k, c in enumerate(gen_model("lj", "caller")(tier, seed)):
            yield dict(c, decoy=name)
        for k, c in enumerate(gen_model("ipl", "caller")(tier, seed)):
            if k % (9 if q else 5) == 0:
                yield dict(c, decoy=name)
        for c in gen_model("hertz", "caller")(tier, seed):
            yield dict(c, decoy=name)


def gen_zero(tier, seed):
    """L8: A = 0 / 0.0 and epsilon = 0 / 0.0 given explicitly (direct positionally, direct by keyword, through caller)"""
    a = alpha(tier)
    xs = a["x"][::3]
    for z in c12y.ZEROS:
        for sg, y, sh in itertools.product(a["sigma"], a["y"], a["shift"]):
            for n in a["n"]:
                for via in ("direct", "direct_kw", "caller"):
                    for ep in a["eps"][:2]:
                        yield {"model": "ipl", "via": via, "sigma": sg, "eps": ep, "y": y, "shift": sh, "n": n, "A": z, "x": xs, "zero": "A"}
                    yield {"model": "ipl", "via": via, "sigma": sg, "eps": z, "y": y, "shift": sh, "n": n, "A": 2.5, "x": xs, "zero": "eps"}
            for via in ("direct", "caller"):
                yield {"model": "lj", "via": via, "sigma": sg, "eps": z, "y": y, "shift": sh, "x": xs, "zero": "eps"}
        for al, sg, sh in itertools.product(a["alpha"], a["sigma"], a["shift"]):
            for via in ("direct", "caller"):
                yield {"model": "hertz", "via": via, "sigma": sg, "eps": z, "y": 1.0, "shift": sh, "alpha": al, "x": a["xh"][::3], "zero": "eps"}


# ------------------------------------------------------------------------------------------ round 4, L9: absolute scale
DILATIONS = [2.0 ** -33, 2.0 ** 27]  # exact in binary floating point


def gen_dilation(tier, seed):
    a = alpha("quick")
    for si in range(len(DILATIONS)):
        for via in ("direct", "caller"):
            for sg, ep, y, sh in itertools.product(a["sigma"], a["eps"][:2], a["y"], a["shift"]):
                yield {"model": "lj", "via": via, "sigma": sg, "eps": ep, "y": y, "shift": sh, "x": a["x"][::2], "dil": si}
                for n, A in ((10, 1.0), (12.5, 2.5), (6, 1.0)):
                    yield {"model": "ipl", "via": via, "sigma": sg, "eps": ep, "y": y, "shift": sh, "n": n, "A": A, "x": a["x"][::2], "dil": si}
            for al, sg, ep, sh in itertools.product(a["alpha"], a["sigma"], a["eps"][:2], a["shift"]):
                yield {"model": "hertz", "via": via, "sigma": sg, "eps": ep, "y": 1.0, "shift": sh, "alpha": al, "x": a["xh"][::2], "dil": si}


def run_dilation(case):
    """every length (r, sigma, r_c) multiplied by 2^-33 / 2^27 at fixed energy scale: s' scales by 1/scale, s'' by 1/scale^2 (the documented potentials depend
    on r / sigma only); compared with the undilated library result mapped through these powers (1e-12) AND with the hyper-dual reference at the dilated arguments"""
    R = Result()
    m, sh, sg, ep = case["model"], case["shift"], case["sigma"], case["eps"]
    sc = DILATIONS[case["dil"]]
    feat = {"model": m, "via": case["via"], "shift": sh, "clause": "dilation", "scale": "tiny" if sc < 1 else "huge"}
    par = {"n": case.get("n"), "A": case.get("A"), "alpha": case.get("alpha")}
    rows = []
    cd = dict(case, sigma=sg * sc)
    for x in case["x"]:
        r, rc = x * sg, case["y"] * sg
        base = [float(np.real(v)) for v in call(case, r, rc)]
        got = call(cd, r * sc, rc * sc)
        if got is None or len(got) != 3 or any(isinstance(v, complex) for v in got):
            R.fail(f"{m}: returned {got!r} at lengths x {sc}", sig=dict(feat, clause="shape"))
            break
        g = [float(v) for v in got]
        want = [base[0] / sc, base[1] / sc, base[2] / sc / sc]
        exp = pairpot.triple(m, r * sc, ep, sg * sc, rc * sc, sh, **par)
        rows.append([g[0] * sc, g[1] * sc, g[2] * sc * sc])
        bad = [k for k in range(3) if not (abs(g[k] - want[k]) <= 1e-12 * abs(want[k]) and abs(g[k] - exp[k]) <= RTOL * abs(exp[k])) or (k == 1 and not sh and g[k] != 0.0)]
        if bad:
            R.fail(f"{m} ({case['via']}) with all lengths x {sc}: r={r * sc!r}, sigma={sg * sc!r}, r_c={rc * sc!r}, eps={ep}, {par}: returned {g}; undilated result mapped through "
                   f"1/scale, 1/scale, 1/scale^2 = {want}; derivatives of the documented potential = {exp} (entries {bad})", sig=dict(feat, entry=["s1", "s1rc", "s2"][bad[0]]), exp=want, obs=g)
            break
    R.elem = 3 * len(rows)
    R.outcome(rows)
    R.nontrivial = len(rows) > 0
    return R


# ------------------------------------------------------------------------------------------ call sequences (E2)
SEQ_BASE = {"x": 1.1, "eps": 1.0, "sigma": 1.0, "y": 2.5, "shift": True, "n": 10, "A": 1.0, "alpha": 3}
SEQ_DEV = {"x": [1.3], "eps": [1.5], "sigma": [1.2], "y": [2.0], "shift": [False], "n": [12], "A": [2.5], "alpha": [2]}
SEQ_FIELDS = {"lj": ["x", "eps", "sigma", "y", "shift"], "ipl": ["x", "eps", "sigma", "y", "shift", "n", "A"],
              "hertz": ["x", "eps", "sigma", "shift", "alpha"]}


def seq_points(model):
    """the base parameter tuple and every tuple that departs from it in exactly one coordinate"""
    pts = [dict(SEQ_BASE)]
    for f in SEQ_FIELDS[model]:
        for v in SEQ_DEV[f]:
            pts.append(dict(SEQ_BASE, **{f: v}))
    return pts


def gen_sequence(tier, seed):
    depth = 2 if tier == "quick" else 3
    for m in pairpot.MODELS:
        pts = seq_points(m)
        for via in ("direct", "caller"):
            for L in range(1, depth + 1):
                for word in itertools.product(range(len(pts)), repeat=L):
                    yield {"model": m, "via": via, "word": list(word)}


def _seq_eval(case):
    """runs in a forked child: the calls of the word, in order, in a process where no PairInteractions call happened before"""
    m = case["model"]
    pts = seq_points(m)
    out = []
    for k in case["word"]:
        p = pts[k]
        c = {"model": m, "via": case["via"], "sigma": p["sigma"], "eps": p["eps"], "shift": p["shift"], "n": p["n"], "A": p["A"], "alpha": p["alpha"]}
        y = 1.0 if m == "hertz" else p["y"]
        x = 0.8 * p["x"] / 1.1 if m == "hertz" else p["x"]
        got = call(c, x * p["sigma"], y * p["sigma"])
        out.append([complex(v).real if not isinstance(v, complex) or v.imag == 0 else None for v in got])
    return out


def run_sequence(case):
    import json
    import os

    R = Result()
    m = case["model"]
    pts = seq_points(m)
    rd, wr = os.pipe()
    pid = os.fork()
    if pid == 0:  # child: fresh copy of a worker that never called the library's pair functions
        try:
            os.close(rd)
            try:
                payload = {"ok": _seq_eval(case)}
            except BaseException as e:  # noqa: BLE001
                payload = {"err": f"{type(e).__name__}: {e}"}
            os.write(wr, json.dumps(payload).encode())
        finally:
            os._exit(0)
    os.close(wr)
    buf = b""
    while True:
        ch = os.read(rd, 65536)
        if not ch:
            break
        buf += ch
    os.close(rd)
    os.waitpid(pid, 0)
    payload = json.loads(buf.decode()) if buf else {"err": "child died"}
    feat = {"model": m, "via": case["via"], "clause": "sequence"}
    if "err" in payload:
        R.fail(f"call sequence {case['word']} raised {payload['err']}", sig=dict(feat, exception=True))
        return R
    states = set()
    for pos, (k, got) in enumerate(zip(case["word"], payload["ok"])):
        p = pts[k]
        y = 1.0 if m == "hertz" else p["y"]
        x = 0.8 * p["x"] / 1.1 if m == "hertz" else p["x"]
        exp = pairpot.triple(m, x * p["sigma"], p["eps"], p["sigma"], y * p["sigma"], p["shift"], n=p["n"], A=p["A"], alpha=p["alpha"])
        if not p["shift"]:
            exp[1] = 0.0
        states.add((k, tuple(got)))
        bad = [i for i in range(3) if got[i] is None or not (abs(got[i] - exp[i]) <= ATOL + RTOL * abs(exp[i]))]
        if bad:
            changed = sorted(f for f in SEQ_FIELDS[m] if pos > 0 and pts[case["word"][pos - 1]][f] != p[f])
            R.fail(f"{m} via {case['via']}: call #{pos + 1} of the sequence {[pts[i] for i in case['word']]} returned {got}, "
                   f"derivatives of the documented potential are {exp} (entries {bad} wrong)",
                   sig=dict(feat, position="first" if pos == 0 else "later", changed=changed), exp=exp, obs=got)
            break
    R.elem = 3 * len(case["word"])
    R.states = len(states)
    R.transitions = len(case["word"])
    R.outcome(payload["ok"])
    return R


# ------------------------------------------------------------------------------------------ strengthened slices
def _mk(form):
    return {"pyint": int, "np.int64": np.int64, "np.int32": np.int32, "np.float64": np.float64, "np.float32": np.float32, "pyfloat": float}[form]


def _invoke(model, via, r, eps, sigma, r_c, shift, n=None, A=None, alpha=None, obj=None, decoy=None):
    """one library call with the arguments exactly as given (no conversion); decoy = values of the fields of the OTHER models"""
    from PyMatterSim.static.hessians import InteractionParams, ModelName, PairInteractions

    P = obj if obj is not None else PairInteractions(r, eps, sigma, r_c, shift)
    if via == "caller":
        kw = dict(decoy or DECOY)
        if model == "lj":
            ip = InteractionParams(ModelName.lennard_jones, **kw)
        elif model == "ipl":
            kw.update(ipl_n=n, ipl_A=A)
            ip = InteractionParams(ModelName.inverse_power_law, **kw)
        else:
            kw.update(harmonic_hertz_alpha=alpha)
            ip = InteractionParams(ModelName.harmonic_hertz, **kw)
        return P.caller(ip)
    if model == "lj":
        return P.lennard_jones()
    if model == "ipl":
        return P.inverse_power_law(n, A)
    return P.harmonic_hertz(alpha)


def gen_types(tier, seed):
    for m in pairpot.MODELS:
        for form in c12x.NUM_FORMS + list(c12y.MATRIX_FORMS):
            for via in ("direct", "caller"):
                for sh in (True, False):
                    yield {"model": m, "form": form, "via": via, "shift": sh}


def run_types(case):
    R = Result()
    m, form, via, sh = case["model"], case["form"], case["via"], case["shift"]
    if form in c12y.MATRIX_FORMS:
        # the types the Hessian code hands over: r from numpy.linalg.norm (float64), epsilon / sigma / r_c elements of the user's parameter matrices
        mk_r, mk, rt = c12y.MATRIX_FORMS[form]
        mk_x = float
    else:
        mk = mk_r = mk_x = _mk(form)
        rt = 1e-4 if form == "np.float32" else RTOL
    feat = {"model": m, "via": via, "shift": sh, "form": form, "clause": "types"}
    rows = []
    for r, s, c, e, ex in c12x.int_tuples(m):
        kw = {k: mk_x(v) for k, v in ex.items()}
        # the shift flag in the flavour of the form too: python bool / 0-1 integer / numpy bool
        shf = {"pyint": int(sh), "np.int64": np.bool_(sh), "np.int32": np.int32(sh)}.get(form, sh)
        if form in c12y.MATRIX_FORMS:
            r = r + 0.25  # a genuine (non-integral) distance between integer-valued parameters; exact in float32
        got = _invoke(m, via, mk_r(r), mk(e), mk(s), mk(c), shf, **kw)
        exp = pairpot.triple(m, float(r), float(e), float(s), float(c), sh, n=ex.get("n"), A=ex.get("A"), alpha=ex.get("alpha"))
        if got is None or len(got) != 3 or any(np.ndim(v) != 0 for v in got):
            R.fail(f"{m} with {form} arguments r={r}, eps={e}, sigma={s}, r_c={c}, {ex}: returned {got!r}", sig=dict(feat, clause="shape"))
            break
        g = [complex(v) for v in got]
        if any(v.imag != 0 or not np.isfinite(v.real) for v in g):
            R.fail(f"{m} with {form} arguments r={r}, eps={e}, sigma={s}, r_c={c}, {ex}: non-real / non-finite {got!r}", sig=dict(feat, clause="finite"), exp=exp)
            break
        g = [v.real for v in g]
        rows.append(g)
        bad = [k for k in range(3) if not (abs(g[k] - exp[k]) <= ATOL + rt * abs(exp[k])) or (k == 1 and not sh and g[k] != 0.0)]
        if bad:
            R.fail(f"{m} ({via}) with {form} arguments r={r}, eps={e}, sigma={s}, r_c={c}, shift={sh}, {ex}: returned {g}, derivatives of the documented "
                   f"potential are {exp} (entries {bad} wrong)", sig=dict(feat, entry=["s1", "s1rc", "s2"][bad[0]]), exp=exp, obs=g)
            break
    R.elem = 3 * len(rows)
    R.outcome(np.round(np.array(rows), 4) if rt > RTOL else rows)
    R.nontrivial = len(rows) > 0
    return R


def gen_scale(tier, seed):
    q = tier == "quick"
    a = alpha(tier)
    for m in pairpot.MODELS:
        extras = {"lj": [{}], "ipl": [{"n": 10, "A": 2.5}, {"n": 12.5, "A": 1.0}], "hertz": [{"alpha": 2.5}, {"alpha": 3}]}[m]
        for ex in extras:
            for shape in c12x.SHAPES_Q if q else c12x.SHAPES_T:
                for arrays in ("r", "all"):
                    for via in ("direct", "caller"):
                        for sh in (True, False):
                            yield {"model": m, "extra": ex, "shape": shape, "arrays": arrays, "via": via, "shift": sh}


def run_scale(case):
    R = Result()
    m, ex, shape, via, sh = case["model"], case["extra"], tuple(case["shape"]), case["via"], case["shift"]
    n = int(np.prod(shape))
    if m == "hertz":
        xs = c12x.x_pattern(n, 0.3, 1.5 if float(ex["alpha"]).is_integer() else 0.98)
    else:
        xs = c12x.x_pattern(n, 0.8, 2.5)
    if case["arrays"] == "all":
        sg = np.array([[0.7, 1.0, 1.4][i % 3] for i in range(n)])
        ep = np.array([[0.5, 1.0, 2.0, 1.5][i % 4] for i in range(n)])
        yy = np.array([[1.48, 2.0, 2.5, 3.0, 1.12][i % 5] for i in range(n)]) if m != "hertz" else np.ones(n)
    else:
        sg, ep, yy = np.full(n, 1.4), np.full(n, 1.5), np.full(n, 2.0 if m != "hertz" else 1.0)
    r = np.array(xs) * sg
    rc = yy * sg
    feat = {"model": m, "via": via, "shift": sh, "arrays": case["arrays"], "clause": "arrays", "ndim": len(shape), "size": "<=64" if n <= 64 else ">64"}
    a_r = r.reshape(shape).copy()
    if case["arrays"] == "all":
        a_e, a_s, a_c = ep.reshape(shape).copy(), sg.reshape(shape).copy(), rc.reshape(shape).copy()
    else:
        a_e, a_s, a_c = float(ep[0]), float(sg[0]), float(rc[0])
    try:
        got = _invoke(m, via, a_r, a_e, a_s, a_c, sh, n=ex.get("n"), A=ex.get("A"), alpha=ex.get("alpha"))
    except (TypeError, ValueError):
        R.nontrivial = False  # arrays are not promised by the docstrings
        R.outcome("unsupported")
        return R
    if not (np.array_equal(a_r.reshape(-1), r) and np.array_equal(np.reshape(a_e, -1), ep[: np.size(a_e)]) and np.array_equal(np.reshape(a_s, -1), sg[: np.size(a_s)])
            and np.array_equal(np.reshape(a_c, -1), rc[: np.size(a_c)])):
        R.fail("an argument array was modified", sig=dict(feat, clause="input_modified"))
    if got is None or len(got) != 3:
        R.fail(f"{m}: returned {type(got).__name__} of length {None if got is None else len(got)}, expected [s1, s1rc, s2]", sig=dict(feat, clause="shape"))
        return R
    exp = np.array([pairpot.triple(m, float(r[i]), float(ep[i]), float(sg[i]), float(rc[i]), sh, n=ex.get("n"), A=ex.get("A"), alpha=ex.get("alpha")) for i in range(n)])
    cols = []
    for k, name in enumerate(("s1", "s1rc", "s2")):
        v = np.asarray(got[k])
        if np.iscomplexobj(v) and np.abs(v.imag).max(initial=0) == 0:
            v = v.real
        if v.shape != shape and not (name == "s1rc" and v.ndim == 0):
            R.fail(f"{m}: {name} has shape {v.shape} for r of shape {shape}", sig=dict(feat, clause="shape", entry=name))
            return R
        if v.dtype.kind not in "fiu":
            R.fail(f"{m}: {name} has dtype {v.dtype}", sig=dict(feat, clause="finite", entry=name))
            return R
        v = np.broadcast_to(v.astype(float), shape).reshape(-1)
        cols.append(v)
        if name == "s1rc" and not sh:
            bad = v != 0.0
        else:
            bad = ~(np.abs(v - exp[:, k]) <= ATOL + RTOL * np.abs(exp[:, k]))
        if bad.any():
            idx = np.nonzero(bad)[0]
            i = int(idx[0])
            R.fail(f"{m} ({via}) r array of shape {shape}: {name} wrong at {len(idx)} of {n} elements (first index {i}, last {int(idx[-1])}); at r={r[i]!r}, eps={ep[i]}, "
                   f"sigma={sg[i]}, r_c={rc[i]!r}, shift={sh}, {ex}: {v[i]!r} but the derivative of the documented potential is {exp[i, k]!r}",
                   sig=dict(feat, entry=name), exp=exp[i], obs=[c[i] for c in cols])
            break
    R.elem = 3 * n
    R.outcome(np.array(cols))
    R.nontrivial = True
    return R


def gen_edge(tier, seed):
    a = alpha(tier)
    for via in ("direct", "caller"):
        for sh in (True, False):
            for n, A in itertools.product(c12x.EDGE_N, [1.0, 2.5]):
                yield {"model": "ipl", "via": via, "shift": sh, "n": n, "A": A}
            for al in c12x.EDGE_ALPHA:
                if al == 1 and sh:
                    continue  # alpha = 1: docs say s'(r_c) = 0, calculus says -eps/sigma; not demanded either way (ASSUMPTIONS)
                yield {"model": "hertz", "via": via, "shift": sh, "alpha": al}


def run_edge(case):
    R = Result()
    m, via, sh = case["model"], case["via"], case["shift"]
    a = alpha("quick")
    ex = {"n": case.get("n"), "A": case.get("A"), "alpha": case.get("alpha")}
    feat = {"model": m, "via": via, "shift": sh, "clause": "edge_exponent", "exponent_type": type(case.get("n", case.get("alpha"))).__name__}
    rows = []
    for sg, ep in itertools.product(a["sigma"], a["eps"]):
        for form in ("pyfloat", "np.float64"):
            mk = _mk(form)
            xs = a["x"] if m == "ipl" else a["xh"]
            ys = a["y"] if m == "ipl" else [1.0]
            for x, y in itertools.product(xs[::2], ys):
                r, rc = x * sg, y * sg
                got = _invoke(m, via, mk(r), mk(ep), mk(sg), mk(rc), sh, **{k: v for k, v in ex.items() if v is not None})
                if m == "hertz":
                    # r_c = sigma: s'(r_c) = 0 for alpha > 1 (documented); not differentiated there (s'' diverges for alpha < 2)
                    exp = pairpot.triple(m, r, ep, sg, rc, False, **ex)
                else:
                    exp = pairpot.triple(m, r, ep, sg, rc, sh, **ex)
                if got is None or len(got) != 3 or any(isinstance(v, complex) for v in got):
                    R.fail(f"{m} {ex} at r={r}: returned {got!r}", sig=dict(feat, clause="shape"))
                    return R
                g = [float(v) for v in got]
                rows.append(g)
                bad = [k for k in range(3) if not (abs(g[k] - exp[k]) <= ATOL + RTOL * abs(exp[k])) or (k == 1 and not sh and g[k] != 0.0)]
                if bad:
                    R.fail(f"{m} ({via}, {form}) exponent {ex}: at r={r}, eps={ep}, sigma={sg}, r_c={rc}, shift={sh} returned {g}, derivatives of the documented potential "
                           f"are {exp} (entries {bad} wrong)", sig=dict(feat, entry=["s1", "s1rc", "s2"][bad[0]]), exp=exp, obs=g)
                    return R
    R.elem = 3 * len(rows)
    R.outcome(rows)
    R.nontrivial = any(abs(g[0]) > 0 for g in rows) or case.get("n") in (0, 0.0)
    return R


def gen_mixed(tier, seed):
    q = tier == "quick"
    nl = len(c12x.MIX_LETTERS)
    for via in ("caller", "direct"):
        for L in (1, 2, 3):
            if q and L == 3 and via == "direct":
                continue
            for word in itertools.product(range(nl), repeat=L):
                yield {"mode": "fresh", "via": via, "word": list(word)}
    if not q:
        for word in itertools.product(range(6), repeat=4):
            yield {"mode": "fresh", "via": "caller", "word": list(word)}
    so = c12x.SAME_OBJECT
    for L in (1, 2) if q else (1, 2, 3):
        for word in itertools.product(range(2 * len(so)), repeat=L):
            yield {"mode": "same_object", "via": "per_letter", "word": list(word)}


def _mixed_letter(case, k):
    """-> (parameter point, via) of letter k of this word"""
    if case["mode"] == "same_object":
        so = c12x.SAME_OBJECT
        return c12x.mix_point(so[k % len(so)]), ("direct" if k < len(so) else "caller")
    return c12x.mix_point(k), case["via"]


def _mixed_child(case):
    from PyMatterSim.static.hessians import PairInteractions

    obj = None
    if case["mode"] == "same_object":
        p0 = c12x.mix_point(c12x.SAME_OBJECT[0])
        obj = PairInteractions(p0["x"] * p0["sigma"], p0["eps"], p0["sigma"], p0["y"] * p0["sigma"], p0["shift"])
    out = []
    for k in case["word"]:
        p, via = _mixed_letter(case, k)
        # the fields of the other models carry the values of the base letters (n=10, A=1, alpha=3), so that the InteractionParams of
        # the lj / ipl(10,1) / hertz(3) letters differ in model_name ONLY
        got = _invoke(p["model"], via, p["x"] * p["sigma"], p["eps"], p["sigma"], p["y"] * p["sigma"], p["shift"], n=p["n"], A=p["A"], alpha=p["alpha"], obj=obj,
                      decoy={"ipl_n": 10, "ipl_A": 1.0, "harmonic_hertz_alpha": 3})
        out.append([complex(v).real if complex(v).imag == 0 else None for v in got])
    return out


def run_mixed(case):
    R = Result()
    payload = c12x.forked(_mixed_child, case)
    feat = {"clause": "sequence_mixed", "mode": case["mode"], "via": case["via"]}
    if "err" in payload:
        R.fail(f"call sequence {case['word']} raised {payload['err']}", sig=dict(feat, exception=True))
        return R
    states = set()
    prev = None
    for pos, (k, got) in enumerate(zip(case["word"], payload["ok"])):
        p, via = _mixed_letter(case, k)
        exp = pairpot.triple(p["model"], p["x"] * p["sigma"], p["eps"], p["sigma"], p["y"] * p["sigma"], p["shift"], n=p["n"], A=p["A"], alpha=p["alpha"])
        states.add((k, tuple(got)))
        bad = [i for i in range(3) if got[i] is None or not (abs(got[i] - exp[i]) <= ATOL + RTOL * abs(exp[i]))]
        if bad:
            changed = sorted(f for f in ("model", "n", "A", "alpha", "x", "eps", "y", "shift") if prev is not None and prev[f] != p[f])
            R.fail(f"{case['mode']}: call #{pos + 1} ({p['model']} via {via}) of the sequence {[_mixed_letter(case, i)[0] for i in case['word']]} returned {got}, "
                   f"derivatives of the documented potential are {exp} (entries {bad} wrong)",
                   sig=dict(feat, model=p["model"], position="first" if pos == 0 else "later", changed=changed), exp=exp, obs=got)
            break
        prev = p
    R.elem = 3 * len(case["word"])
    R.states = len(states)
    R.transitions = len(case["word"])
    R.outcome(payload["ok"])
    return R


# ------------------------------------------------------------------------------------------ wiring
def claim(model, tier):
    """text + dict describing which identity the completed grid decides for this model"""
    st = structure()[model]
    a = alpha(tier)
    have = {"x": len(a["x"]), "y": len(a["y"]), "sigma": len(a["sigma"]), "eps": len(a["eps"]), "A": len(a["A"]), "u": len(a["xh"])}
    if model == "lj":
        have["A"] = 1
    if st["ok"] and all(have[v] >= k for v, k in st["need"].items()):
        var = {"lj": "(r, r_c, sigma, epsilon)", "ipl": "(r, r_c, sigma, epsilon, A) for each enumerated n (integer or not)",
               "hertz": "(r, sigma, epsilon) on r < sigma for each enumerated alpha"}[model]
        txt = f"identity in {var}: structural walk ok, terms per variable {st['need']} <= nodes per variable {have}"
        return txt, {"structure_walk": "ok", "terms_per_variable": st["need"], "nodes_per_variable": have,
                     "bounded_in": {"lj": [], "ipl": ["n"], "hertz": ["alpha"]}[model]}
    why = st["why"] or "not enough nodes"
    return f"BOUNDED GRID ONLY (structural walk: {why})", {"structure_walk": "FAILED: " + why, "nodes_per_variable": have, "bounded_in": "all variables"}


def subs(tier, seed):
    a = alpha(tier)
    out = []
    names = {"lj": "C12.lj", "ipl": "C12.ipl", "hertz": "C12.hertz"}
    for m in pairpot.MODELS:
        txt, b = claim(m, tier)
        b = dict(b, alphabet={k: a[k] if len(a[k]) <= 12 else [a[k][0], "...", a[k][-1], len(a[k])] for k in a})
        out.append(Sub(names[m], gen_model(m, "direct"), run,
                       rule="one case = (sigma, epsilon, r_c/sigma, shift" + {"lj": "", "ipl": ", n, A", "hertz": ", alpha"}[m]
                            + "); all r/sigma nodes evaluated inside; [s1, s1rc, s2] compared with hyper-dual derivatives of the documented s(r); "
                            + txt + "; non-trivial = s1, s2 (and s1rc when shifted) non-zero at every node",
                       bounds=b))
    out.append(Sub("C12.caller", gen_caller, run,
                   rule="the same grids through caller(InteractionParams) with decoy values in the fields of the other models: result equals "
                        "the requested model's method (bitwise) and the hyper-dual reference",
                   bounds={"decoys": DECOY}))
    out.append(Sub("C12.caller.decoys", gen_decoys, run,
                   rule="L1: the caller grids (LJ and Hertz complete, every " + ("9th" if tier == "quick" else "5th") + " IPL tuple) with the InteractionParams fields of the OTHER models "
                        "set to: their defaults (not given), explicit 0.0, negative values, 1e300, NaN - the result must be bit for bit the requested model's method and the "
                        "hyper-dual reference (the r grid contains r = sigma, where a Hertz branch evaluated with alpha = 0 divides by zero)",
                   bounds={"decoy_sets": {k: {kk: str(vv) for kk, vv in v.items()} for k, v in c12y.DECOY_SETS.items()}}))
    out.append(Sub("C12.zero", gen_zero, run,
                   rule="L8: explicit zeros for numeric parameters: A in {0, 0.0} (positional, keyword, through caller) and epsilon in {0, 0.0} for all three models x sigma x r_c x "
                        "shift x n / alpha x every third r node: the derivatives of the documented potential (all zero) - not those for the default prefactor",
                   bounds={"zeros": ["A", "epsilon"]}))
    out.append(Sub("C12.dilation", gen_dilation, run_dilation,
                   rule="L9 absolute scale: r, sigma, r_c all multiplied by 2^-33 and by 2^27 (exact), energy scale fixed, x model (IPL (10,1), (12.5,2.5), (6,1); Hertz alpha) x "
                        "direct / caller x shift x sigma x epsilon x r_c / sigma x every second r node: s' and s'(r_c) scale by 1/scale, s'' by 1/scale^2 - compared with the undilated "
                        "library result mapped through these powers (1e-12 relative, no absolute tolerance) and with the hyper-dual reference at the dilated arguments (1e-9 relative)",
                   bounds={"scales": ["2^-33", "2^27"]}))
    sq = Sub("C12.sequence", gen_sequence, run_sequence,
             rule="explicit-state search over CALL SEQUENCES: all words of length <= " + ("2" if tier == "quick" else "3")
                  + " over the base parameter tuple and all its single-coordinate departures (r, epsilon, sigma, r_c, shift, n, A, alpha), "
                  "per model, direct and via caller; every word runs in a forked child in which no pair function was called before; "
                  "every call of the word must return the derivatives of the documented potential for ITS OWN parameters "
                  "(a result memoised under an incomplete key, or any other state carried between calls, shows up in the second call)",
             bounds={"depth": 2 if tier == "quick" else 3, "points": {m: len(seq_points(m)) for m in pairpot.MODELS}})
    out.append(sq)
    q = tier == "quick"
    out.append(Sub("C12.types", gen_types, run_types,
                   rule="ARGUMENT TYPES: every argument (r, epsilon, sigma, r_c, n, A, alpha) given as " + ", ".join(c12x.NUM_FORMS) + ", and the MIXTURES the Hessian code produces "
                        "(r numpy float64 / float32 with epsilon, sigma, r_c elements of an int64 / int32 / float32 matrix or python ints, exponents python floats: "
                        + ", ".join(c12y.MATRIX_FORMS) + ") x model x direct / caller x "
                        "shift; full product of integer values r in {2,3,7}, sigma in {1,2,3} (Hertz {3,8}), r_c in {4,8}, epsilon in {1,2}, n in {4,6,12}, A in {1,3}, "
                        "alpha in {2,3} (so that integer division / integer powers / int32 overflow of r^(n+2) = 7^14 would show); hyper-dual reference",
                   bounds={"forms": c12x.NUM_FORMS, "r": c12x.INT_R, "sigma": c12x.INT_SIGMA, "r_c": c12x.INT_RC, "n": c12x.INT_N}))
    out.append(Sub("C12.scale", gen_scale, run_scale,
                   rule="SIZES: r as a numpy array of shape " + str(c12x.SHAPES_Q if q else c12x.SHAPES_T) + " (one fixed Weyl pattern of r/sigma per size), alone or with "
                        "equally shaped epsilon / sigma / r_c arrays, x model (IPL (10, 2.5), (12.5, 1); Hertz 2.5, 3) x direct / caller x shift; s1, s2 must have the shape "
                        "of r (s1rc scalar or that shape) and equal the hyper-dual derivatives element by element; TypeError/ValueError = arrays unsupported (trivial case)",
                   bounds={"shapes": c12x.SHAPES_Q if q else c12x.SHAPES_T}))
    out.append(Sub("C12.edge", gen_edge, run_edge,
                   rule="EDGE EXPONENTS: n in " + str(c12x.EDGE_N) + " x A in {1, 2.5}, alpha in " + str(c12x.EDGE_ALPHA) + " (int- and float-typed; powers 0 and < 0 inside the "
                        "closed forms) x shift x direct / caller x sigma x epsilon x every second r node (Hertz: r < sigma) x r_c, python float and np.float64 arguments; "
                        "BOUNDED claim in the exponents; non-trivial = some s1 != 0 (n = 0: s is constant)",
                   bounds={"n": c12x.EDGE_N, "alpha": c12x.EDGE_ALPHA}))
    out.append(Sub("C12.sequence.mixed", gen_mixed, run_mixed,
                   rule="explicit-state search over CALL SEQUENCES ACROSS MODELS: all words of length <= 3" + ("" if q else " (and length 4 over the first 6 letters)")
                        + " over %d calls that share (r, epsilon, sigma, r_c, shift) but differ in model / n / A / alpha (plus single departures in epsilon, r, shift), a fresh "
                          "PairInteractions object per call, via caller (quick: direct methods up to length 2); and all words of length <= %d over 12 method calls on ONE "
                          "object (6 model/exponent variants x direct / caller); each word in a forked child; every call must return the derivatives for ITS OWN model "
                          "and parameters" % (len(c12x.MIX_LETTERS), 2 if q else 3),
                   bounds={"letters": len(c12x.MIX_LETTERS), "same_object_letters": 2 * len(c12x.SAME_OBJECT)}))
    return out
