"""C12 - PairInteractions: [s'(r), s'(r_c)|0, s''(r)] are the derivatives of the documented potentials (E1 + E3).

Oracle: the documented s(r) (mc.ref.pairpot, written from docs/hessian.md) differentiated by hyper-dual numbers
(mc.ref.hyperdual) - no hand-derived derivative formula on the reference side.

Alphabet: the full Cartesian grid  x=r/sigma  X  y=r_c/sigma  X  sigma  X  epsilon  X  shift  (X n X A | X alpha).
One case = one tuple of everything but x; all x are evaluated inside the case.

Cutoff argument (mc.ref.pairpot.closed_form_structure): if the source of the closed forms is a generalised polynomial
(few monomials with real exponents) in (x, y, sigma, epsilon, A) - Hertz: in u = 1 - r/sigma - then implementation
minus reference has at most T distinct exponents per variable, and agreement on a Cartesian grid with >= T positive
nodes per variable is identity in these variables (Descartes/Laguerre: T real-power terms have <= T-1 positive
zeros; for LJ and integer n this is the Laurent-polynomial argument of DESIGN.md).  The dependence on the exponents
n and alpha themselves is NOT covered by any finite argument: bounded to the enumerated values.  If the walk fails
the whole claim is the completed grid (stated in bounds/rule, never a violation).
"""
import itertools
import os

import numpy as np

from mc import harness
from mc.harness import Result, Sub
from mc.ref import pairpot

ASSUMPTIONS = [
    "documented potentials (docs/hessian.md): LJ 4 eps[(sigma/r)^12-(sigma/r)^6]; IPL A eps (sigma/r)^n; Hertz "
    "eps/alpha (1-r/sigma)^alpha on r < sigma with r_c = sigma (where s'(r_c) = 0 for alpha > 1, as documented)",
    "domain: r, sigma, r_c, epsilon, A > 0; n in the enumerated set (integers and non-integers, int- and float-typed); "
    "alpha in {2, 2.5, 3} (thorough also 2.2, 3.5, 4; alpha >= 2 so that s'' is finite up to r = sigma); python floats; "
    "for integer alpha the documented s(r) is a polynomial, so nodes with r > sigma are included there (non-integer alpha: r < sigma only)",
    "identity in (r, r_c, sigma, epsilon, A) for every enumerated exponent follows from the Cartesian grid ONLY together "
    "with the structural walk over the source (generalised-polynomial class, term count T per variable <= nodes per "
    "variable); the dependence on n / alpha is a bounded claim (enumerated values only)",
    "nodes are r = x*sigma, r_c = y*sigma rounded to double (perturbs the Cartesian grid by <= 1 ulp; tolerance 1e-9)",
    "float tolerance rtol 1e-9, atol 1e-11; s1rc must be exactly 0 when shift is False",
]

RTOL, ATOL = 1e-9, 1e-11
SRC = os.path.join(harness.REPO, "PyMatterSim", "static", "hessians.py")
_STRUCT = None


def structure():
    global _STRUCT
    if _STRUCT is None:
        try:
            with open(SRC) as f:
                _STRUCT = pairpot.closed_form_structure(f.read())
        except OSError as e:
            _STRUCT = {m: {"ok": False, "why": str(e), "need": {}, "terms": {}} for m in pairpot.MODELS}
    return _STRUCT


# ------------------------------------------------------------------------------------------ alphabets
def alpha(tier):
    q = tier == "quick"
    a = {}
    # x = r/sigma: 24 values in [0.8, 2.5], exactly one equal to 1 (quick); denser for thorough
    if q:
        a["x"] = [0.8, 0.85, 0.9, 0.95, 1.0, 1.05, 1.1, 1.12, 1.2, 1.25, 1.3, 1.4, 1.5, 1.6, 1.7, 1.8, 1.9, 2.0, 2.1, 2.2, 2.3, 2.4, 2.45, 2.5]
        a["xh"] = [0.3, 0.4, 0.5, 0.55, 0.6, 0.7, 0.75, 0.8, 0.85, 0.9, 0.95, 0.98]  # Hertz: r < sigma
    else:
        a["x"] = sorted(set([round(0.8 + 0.0175 * i, 6) for i in range(98)] + [1.0, 2.5]))
        a["xh"] = [round(0.05 + 0.02 * i, 6) for i in range(47)] + [0.98, 0.995]
    a["xh_beyond"] = [1.05, 1.2, 1.5] if q else [1.02, 1.05, 1.1, 1.2, 1.35, 1.5, 1.8]  # Hertz, integer alpha only: r > sigma
    a["y"] = [1.48, 2.0, 2.5] if q else [1.12, 1.48, 2.0, 2.5, 3.0]
    a["sigma"] = [0.7, 1.0, 1.4] if q else [0.7, 0.88, 1.0, 1.2, 1.4]
    a["eps"] = [0.5, 1.0, 2.0] if q else [0.2, 0.5, 1.0, 1.5, 2.0]
    a["n"] = [4, 6, 10, 12, 12.5] if q else [1, 2, 3.5, 4, 6, 9.0, 10, 12, 12.5, 18, 36]
    a["A"] = [1.0, 2.5] if q else [0.5, 1.0, 2.5]
    a["alpha"] = [2, 2.5, 3] if q else [2, 2.0, 2.2, 2.5, 3, 3.5, 4]
    a["shift"] = [True, False]
    return a


def gen_model(model, via):
    def gen(tier, seed):
        a = alpha(tier)
        if model == "lj":
            for sg, ep, y, sh in itertools.product(a["sigma"], a["eps"], a["y"], a["shift"]):
                yield {"model": "lj", "via": via, "sigma": sg, "eps": ep, "y": y, "shift": sh, "x": a["x"]}
        elif model == "ipl":
            for n, A, sg, ep, y, sh in itertools.product(a["n"], a["A"], a["sigma"], a["eps"], a["y"], a["shift"]):
                yield {"model": "ipl", "via": via, "sigma": sg, "eps": ep, "y": y, "shift": sh, "n": n, "A": A, "x": a["x"]}
                if A == 1.0 and via == "direct":
                    yield {"model": "ipl", "via": "direct_default_A", "sigma": sg, "eps": ep, "y": y, "shift": sh, "n": n, "A": A, "x": a["x"][::3]}
        else:
            for al, sg, ep, sh in itertools.product(a["alpha"], a["sigma"], a["eps"], a["shift"]):
                xs = list(a["xh"])
                if float(al).is_integer():
                    # integer exponent: the documented s(r) is a polynomial in r, real on both sides of sigma
                    xs = xs + a["xh_beyond"]
                yield {"model": "hertz", "via": via, "sigma": sg, "eps": ep, "y": 1.0, "shift": sh, "alpha": al, "x": xs}
    return gen


def gen_caller(tier, seed):
    for m in pairpot.MODELS:
        yield from gen_model(m, "caller")(tier, seed)


# ------------------------------------------------------------------------------------------ execution
DECOY = {"ipl_n": 7.0, "ipl_A": 3.0, "harmonic_hertz_alpha": 2.75}  # values of the fields the requested model must ignore


def call(case, r, r_c):
    from PyMatterSim.static.hessians import InteractionParams, ModelName, PairInteractions

    P = PairInteractions(r, case["eps"], case["sigma"], r_c, case["shift"])
    m, via = case["model"], case["via"]
    if via == "caller":
        kw = dict(DECOY)
        if m == "lj":
            ip = InteractionParams(ModelName.lennard_jones, **kw)
        elif m == "ipl":
            kw.update(ipl_n=case["n"], ipl_A=case["A"])
            ip = InteractionParams(ModelName.inverse_power_law, **kw)
        else:
            kw.update(harmonic_hertz_alpha=case["alpha"])
            ip = InteractionParams(ModelName.harmonic_hertz, **kw)
        return P.caller(ip)
    if m == "lj":
        return P.lennard_jones()
    if m == "ipl":
        if via == "direct_default_A":
            return P.inverse_power_law(case["n"])
        return P.inverse_power_law(case["n"], case["A"])
    return P.harmonic_hertz(case["alpha"])


def run(case):
    R = Result()
    m = case["model"]
    sg, ep, sh = case["sigma"], case["eps"], case["shift"]
    r_c = case["y"] * sg
    par = {"n": case.get("n"), "A": case.get("A"), "alpha": case.get("alpha")}
    feat = {"model": m, "via": case["via"], "shift": sh}
    if m == "ipl":
        feat["n_integer"] = bool(float(case["n"]).is_integer())
    rows = []
    for x in case["x"]:
        r = x * sg
        got = call(case, r, r_c)
        exp = pairpot.triple(m, r, ep, sg, r_c, sh, **par)
        if case["via"] == "caller":
            # the selector returns the triple of the requested model: same list as the direct method on a fresh object
            d = dict(case, via="direct")
            direct = call(d, r, r_c)
            if got is None or list(got) != list(direct):
                R.fail(f"caller({m}) returns {got}, the {m} method returns {direct} (r={r}, params={par})",
                       sig=dict(feat, clause="caller_vs_method"), exp=direct, obs=got)
                break
        if got is None or len(got) != 3:
            R.fail(f"{m}: returned {got!r}, expected a list [s1, s1rc, s2]", sig=dict(feat, clause="shape"))
            break
        if any(isinstance(v, complex) or not np.isreal(v) for v in got):
            R.fail(f"{m}: non-real entry in {got!r} at r={r}, eps={ep}, sigma={sg}, r_c={r_c}, {par}", sig=dict(feat, clause="complex"), exp=exp)
            break
        g = [float(np.real(v)) for v in got]
        rows.append(g)
        stop = False
        for k, name in enumerate(("s1", "s1rc", "s2")):
            if name == "s1rc" and not sh:
                ok = g[k] == 0.0
            else:
                ok = np.isfinite(g[k]) and abs(g[k] - exp[k]) <= ATOL + RTOL * abs(exp[k])
            if not ok:
                what = {"s1": "ds/dr", "s2": "d2s/dr2", "s1rc": "ds/dr at r_c" if sh else "0 (no shift)"}[name]
                R.fail(f"{m} {name}={g[k]!r} but {what} = {exp[k]!r} at r={r}, eps={ep}, sigma={sg}, r_c={r_c}, shift={sh}, {par}",
                       sig=dict(feat, clause=name), exp=exp, obs=g)
                stop = True
        if stop:
            break
    R.elem = 3 * len(case["x"])
    R.outcome(rows)
    R.nontrivial = len(rows) > 0 and all(abs(g[0]) > 0 and abs(g[2]) > 0 for g in rows) and (not sh or m == "hertz" or all(g[1] != 0 for g in rows))
    return R


# ------------------------------------------------------------------------------------------ call sequences (E2)
SEQ_BASE = {"x": 1.1, "eps": 1.0, "sigma": 1.0, "y": 2.5, "shift": True, "n": 10, "A": 1.0, "alpha": 3}
SEQ_DEV = {"x": [1.3], "eps": [1.5], "sigma": [1.2], "y": [2.0], "shift": [False], "n": [12], "A": [2.5], "alpha": [2]}
SEQ_FIELDS = {"lj": ["x", "eps", "sigma", "y", "shift"], "ipl": ["x", "eps", "sigma", "y", "shift", "n", "A"],
              "hertz": ["x", "eps", "sigma", "shift", "alpha"]}


def seq_points(model):
    """the base parameter tuple and every tuple that departs from it in exactly one coordinate"""
    pts = [dict(SEQ_BASE)]
    for f in SEQ_FIELDS[model]:
        for v in SEQ_DEV[f]:
            pts.append(dict(SEQ_BASE, **{f: v}))
    return pts


def gen_sequence(tier, seed):
    depth = 2 if tier == "quick" else 3
    for m in pairpot.MODELS:
        pts = seq_points(m)
        for via in ("direct", "caller"):
            for L in range(1, depth + 1):
                for word in itertools.product(range(len(pts)), repeat=L):
                    yield {"model": m, "via": via, "word": list(word)}


def _seq_eval(case):
    """runs in a forked child: the calls of the word, in order, in a process where no PairInteractions call happened before"""
    m = case["model"]
    pts = seq_points(m)
    out = []
    for k in case["word"]:
        p = pts[k]
        c = {"model": m, "via": case["via"], "sigma": p["sigma"], "eps": p["eps"], "shift": p["shift"], "n": p["n"], "A": p["A"], "alpha": p["alpha"]}
        y = 1.0 if m == "hertz" else p["y"]
        x = 0.8 * p["x"] / 1.1 if m == "hertz" else p["x"]
        got = call(c, x * p["sigma"], y * p["sigma"])
        out.append([complex(v).real if not isinstance(v, complex) or v.imag == 0 else None for v in got])
    return out


def run_sequence(case):
    import json
    import os

    R = Result()
    m = case["model"]
    pts = seq_points(m)
    rd, wr = os.pipe()
    pid = os.fork()
    if pid == 0:  # child: fresh copy of a worker that never called the library's pair functions
        try:
            os.close(rd)
            try:
                payload = {"ok": _seq_eval(case)}
            except BaseException as e:  # noqa: BLE001
                payload = {"err": f"{type(e).__name__}: {e}"}
            os.write(wr, json.dumps(payload).encode())
        finally:
            os._exit(0)
    os.close(wr)
    buf = b""
    while True:
        ch = os.read(rd, 65536)
        if not ch:
            break
        buf += ch
    os.close(rd)
    os.waitpid(pid, 0)
    payload = json.loads(buf.decode()) if buf else {"err": "child died"}
    feat = {"model": m, "via": case["via"], "clause": "sequence"}
    if "err" in payload:
        R.fail(f"call sequence {case['word']} raised {payload['err']}", sig=dict(feat, exception=True))
        return R
    states = set()
    for pos, (k, got) in enumerate(zip(case["word"], payload["ok"])):
        p = pts[k]
        y = 1.0 if m == "hertz" else p["y"]
        x = 0.8 * p["x"] / 1.1 if m == "hertz" else p["x"]
        exp = pairpot.triple(m, x * p["sigma"], p["eps"], p["sigma"], y * p["sigma"], p["shift"], n=p["n"], A=p["A"], alpha=p["alpha"])
        if not p["shift"]:
            exp[1] = 0.0
        states.add((k, tuple(got)))
        bad = [i for i in range(3) if got[i] is None or not (abs(got[i] - exp[i]) <= ATOL + RTOL * abs(exp[i]))]
        if bad:
            changed = sorted(f for f in SEQ_FIELDS[m] if pos > 0 and pts[case["word"][pos - 1]][f] != p[f])
            R.fail(f"{m} via {case['via']}: call #{pos + 1} of the sequence {[pts[i] for i in case['word']]} returned {got}, "
                   f"derivatives of the documented potential are {exp} (entries {bad} wrong)",
                   sig=dict(feat, position="first" if pos == 0 else "later", changed=changed), exp=exp, obs=got)
            break
    R.elem = 3 * len(case["word"])
    R.states = len(states)
    R.transitions = len(case["word"])
    R.outcome(payload["ok"])
    return R


# ------------------------------------------------------------------------------------------ wiring
def claim(model, tier):
    """text + dict describing which identity the completed grid decides for this model"""
    st = structure()[model]
    a = alpha(tier)
    have = {"x": len(a["x"]), "y": len(a["y"]), "sigma": len(a["sigma"]), "eps": len(a["eps"]), "A": len(a["A"]), "u": len(a["xh"])}
    if model == "lj":
        have["A"] = 1
    if st["ok"] and all(have[v] >= k for v, k in st["need"].items()):
        var = {"lj": "(r, r_c, sigma, epsilon)", "ipl": "(r, r_c, sigma, epsilon, A) for each enumerated n (integer or not)",
               "hertz": "(r, sigma, epsilon) on r < sigma for each enumerated alpha"}[model]
        txt = f"identity in {var}: structural walk ok, terms per variable {st['need']} <= nodes per variable {have}"
        return txt, {"structure_walk": "ok", "terms_per_variable": st["need"], "nodes_per_variable": have,
                     "bounded_in": {"lj": [], "ipl": ["n"], "hertz": ["alpha"]}[model]}
    why = st["why"] or "not enough nodes"
    return f"BOUNDED GRID ONLY (structural walk: {why})", {"structure_walk": "FAILED: " + why, "nodes_per_variable": have, "bounded_in": "all variables"}


def subs(tier, seed):
    a = alpha(tier)
    out = []
    names = {"lj": "C12.lj", "ipl": "C12.ipl", "hertz": "C12.hertz"}
    for m in pairpot.MODELS:
        txt, b = claim(m, tier)
        b = dict(b, alphabet={k: a[k] if len(a[k]) <= 12 else [a[k][0], "...", a[k][-1], len(a[k])] for k in a})
        out.append(Sub(names[m], gen_model(m, "direct"), run,
                       rule="one case = (sigma, epsilon, r_c/sigma, shift" + {"lj": "", "ipl": ", n, A", "hertz": ", alpha"}[m]
                            + "); all r/sigma nodes evaluated inside; [s1, s1rc, s2] compared with hyper-dual derivatives of the documented s(r); "
                            + txt + "; non-trivial = s1, s2 (and s1rc when shifted) non-zero at every node",
                       bounds=b))
    out.append(Sub("C12.caller", gen_caller, run,
                   rule="the same grids through caller(InteractionParams) with decoy values in the fields of the other models: result equals "
                        "the requested model's method (bitwise) and the hyper-dual reference",
                   bounds={"decoys": DECOY}))
    sq = Sub("C12.sequence", gen_sequence, run_sequence,
             rule="explicit-state search over CALL SEQUENCES: all words of length <= " + ("2" if tier == "quick" else "3")
                  + " over the base parameter tuple and all its single-coordinate departures (r, epsilon, sigma, r_c, shift, n, A, alpha), "
                  "per model, direct and via caller; every word runs in a forked child in which no pair function was called before; "
                  "every call of the word must return the derivatives of the documented potential for ITS OWN parameters "
                  "(a result memoised under an incomplete key, or any other state carried between calls, shows up in the second call)",
             bounds={"depth": 2 if tier == "quick" else 3, "points": {m: len(seq_points(m)) for m in pairpot.MODELS}})
    out.append(sq)
    return out
