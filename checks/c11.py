"""C11 - HessianMatrix: the saved matrix is the mass-weighted second derivative of the documented pair energy (E1).

Oracle: hyper-dual (exact second-order forward-mode AD, mc/ref/hyperdual.py) differentiation of an independently
coded TOTAL energy  U = sum_{i<j, r<=rc} [ s(r) - shift (s(rc) + (r-rc) s'(rc)) ]  (mc/ref/hessvec.py), mass weighted;
second witness: central finite differences of a second, differently coded float energy (tolerance 1e-5 of the scale).

Strengthened slices (docs/STRENGTHEN_TASK.md; reference and alphabets in mc/ref/c11x.py):
  C11.scale          N = 8..86 (3D) / 32..129 (2D): matrices 24x24 .. 258x258 straddling 64 / 128 / 256, K = 2..3 species with
                     masses 1 : 3 : 0.5, cells whose shortest edge is not x, triclinic cells, ragged coordination (2..16), partial masks;
                     oracle = sum of hyper-dual pair-term Hessians + finite differences on columns around 63..65 / 127..129
  C11.sequence       explicit-state search over words of HessianMatrix objects (constructed just in time / all alive) in forked children
  C11.matrix.single  N = 1;  C11.matrix.intparams also with EVERY numeric input integer-typed
Round 4 (docs/STRENGTHEN_TASK2.md; helpers in mc/ref/c11y.py):
  C11.forms            L5 / L1 / L4 / L7 / L8: storage forms of every input, decoy interaction parameters, r_c = sigma, epsilon = 0, A = 0, unwrapped positions
  C11.outputs          the saving options and output names of diagonalize_hessian (coverage gaps: savehessian=False, saveevecs=False, outputfile=None)
  C11.sequence.object  L6: ONE object called repeatedly with other interaction parameters / after in-place edits of its snapshot
"""
import itertools
import os
from functools import lru_cache

import numpy as np

from mc import alphabets as A
from mc.harness import Result, Sub
from mc.ref import c11x as CX
from mc.ref import c11y as CY
from mc.ref import hessvec as HV
from mc.ref.base import frac_tie_margin, minimg, mk_snap

ASSUMPTIONS = [
    "documented pair energies s(r) of docs/hessian.md; force shift = subtract s(rc) + (r-rc) s'(rc); Hertz is used with "
    "r_c = sigma (where s(rc)=s'(rc)=0 as documented), so 'shift' does not change the Hertz energy",
    "parameter matrices (epsilon, sigma, r_cut) are symmetric in the species pair - otherwise no pair energy is defined",
    "one interaction per pair through the minimum image (C02 convention); boxes are longer than 2 r_cut on every axis",
    "placements keep every pair distance at least 0.05 away from every cutoff in use (the cutoff decision and the "
    "finite-difference stencil never straddle r_c) and at least 0.7 apart; contact bonds have all components >= 0.05",
    "omega is compared with sqrt(eigenvalue) only for eigenvalues > 1e-7 * scale (the statement says nothing about "
    "non-positive eigenvalues); eigenvalues are those of numpy.linalg.eigvalsh on the SAVED matrix",
    "float tolerance: rtol 1e-9 + 1e-11*scale against the hyper-dual oracle; 2e-5*scale against finite differences",
    "integer-typed parameter matrices are valid input ('npt.NDArray'); slice C11.matrix.intparams",
    "C11.scale: ONE fixed configuration per size (jittered Cartesian lattice of spacing 1.25 with vacancies, the occupied "
    "cluster straddling the periodic faces; cells 6.25x5x5 / 8.75x6.25 ... whose shortest edge is not x, triclinic variants with "
    "tilts of one lattice spacing and the box origin at (-2.5, 1, 3); K = 2 or 3 species with masses 1 : 3 : 0.5, 3x3 parameter matrices); the oracle is the sum of "
    "the hyper-dual Hessians of the pair terms u_ij(x_i, x_j) of the documented energy scattered by coordinate index (= the "
    "hyper-dual Hessian of the total energy, evaluated sparsely), plus central finite differences of a numpy-coded energy on "
    "<= 7 columns around the indices 63..65 / 127..129 (only particles whose pairs are >= 2e-3 away from their cutoff); every "
    "cutoff / rint decision of the configuration has a margin >= 1e-6 (the jitter table is advanced until it has)",
    "masses is a mapping species -> mass: the order in which its keys were inserted and entries for species that do not occur must not "
    "matter (C11.matrix.massorder, C11.scale rotate through ascending / descending / rotated / extra-entry dicts)",
    "round 4 - C11.forms: parameter matrices may be float32 (then only float32 accuracy, 2e-6 relative, is demanded of the matrix) or int32; ppp may be a list / tuple / "
    "any integer array (the code takes len(ppp)); positions may be Fortran-ordered or a strided view; species int32; masses numpy integer / float scalars; the "
    "InteractionParams fields of the OTHER models are irrelevant for the requested model; LJ / IPL may be cut exactly at r_c = sigma; epsilon = 0 for a species pair and an "
    "explicit IPL prefactor A = 0 / 0.0 are legal (zero blocks / zero matrix; the default A applies only when A is not given); shiftpotential may be 0 / 1; positions that "
    "differ by whole cell vectors along periodic axes describe the same configuration (L7)",
    "round 4 - C11.outputs: diagonalize_hessian returns None; 'what is written' is defined by its options: <outputfile>.omega_PR.csv always, .evecs.npy iff saveevecs, "
    ".hessianmatrix.npy iff savehessian; outputfile '' / None / omitted = the model name; the content of a file must not depend on which other files were requested",
    "round 4 - C11.sequence.object: one HessianMatrix object may be asked repeatedly, with other interaction parameters and after its snapshot's position array was edited "
    "in place; every call answers for the object's current content",
    "round 4 - L9 (C11.dilation): with positions, cell, sigma and r_c multiplied by a common factor at fixed energies and masses the Hessian scales by 1/factor^2 (the "
    "documented energies depend on r / sigma), at any absolute scale (2^-33, 2^27); tilted cells of absolute size 1e-10 are still tilted",
    "C11.sequence: each diagonalize_hessian call must produce the matrix of ITS OWN object (configuration, species, masses, "
    "parameters), whatever was constructed or computed before in the same process",
]

# species-pair cutoffs are the same for all three potentials; sigma = RC / ratio
RC = [[1.9, 2.0], [2.0, 2.1]]
BAND = (1.8, 2.2)  # no pair distance of a 'graph' placement lies in here -> contact graph independent of the types
RATIO = {"lj": 2.0, "ipl": 1.6, "hertz": 1.0}
EPS = [[1.0, 1.5], [1.5, 0.5]]
POTS = [
    ("lj", {}),
    ("ipl", {"n": 10.0, "A": 1.0}),
    ("hertz", {"alpha": 2.5}),
    ("ipl", {"n": 6.0, "A": 2.5}),
    ("ipl", {"n": 12.5, "A": 1.0}),
    ("hertz", {"alpha": 2.0}),
    ("ipl", {"n": 6.0, "A": 1.0}),
    ("ipl", {"n": 10.0, "A": 2.5}),
    ("ipl", {"n": 12.5, "A": 2.5}),
]
MASSES = [{"1": 1.0, "2": 3.0}, {"1": 1.0, "2": 1.0}]
BOX = [5.5, 6.0, 6.5]


def cell_for(d, cell):
    L = BOX[:d]
    if cell == "orth":
        return A.hmat_tri(L, [0.0] if d == 2 else [0.0, 0.0, 0.0])
    return A.hmat_tri(L, [1.0] if d == 2 else [1.0, -0.5, 1.5])


# ------------------------------------------------------------------------------------- placements
def edges_of(n):
    return list(itertools.combinations(range(n), 2))


_S3 = 3 ** 0.5
# planar templates, one per isomorphism class of graphs on n vertices: contact pairs 1.1-1.65 apart, all others >= 2.4
TEMPLATES = {
    2: [[(0, 0), (2.8, 0.3)],  # no contact
        [(0, 0), (1.5, 0)]],  # contact
    3: [[(0, 0), (2.7, 0), (1.3, 2.8)],  # empty
        [(0, 0), (1.5, 0), (0.7, 2.9)],  # one edge
        [(0, 0), (1.5, 0), (2.6, 1.1)],  # path
        [(0, 0), (1.5, 0), (0.75, 0.75 * _S3)]],  # triangle
    4: [[(0, 0), (2.6, 0), (0, 2.6), (2.6, 2.6)],  # empty
        [(0, 0), (1.5, 0), (0, 2.8), (2.8, 2.8)],  # one edge
        [(0, 0), (1.5, 0), (3.0, 0.4), (1.5, 2.9)],  # path on 3 + isolated
        [(0, 0), (1.5, 0.3), (0.2, 2.8), (1.6, 3.0)],  # two disjoint edges
        [(0, 0), (1.5, 0), (2.3, 1.3), (1.5, 2.6)],  # path on 4
        [(0, 0), (0, 1.6), (-0.8 * _S3, -0.8), (0.8 * _S3, -0.8)],  # star
        [(0, 0), (1.5, 0), (0.75, 0.75 * _S3), (0.75, -2.7)],  # triangle + isolated
        [(0, 0), (1.65, 0), (1.65, 1.65), (0, 1.65)],  # 4-cycle
        [(0, 0), (-0.75, -0.75 * _S3), (0.75, -0.75 * _S3), (0, 1.5)],  # paw
        [(0, 0), (1.4, 0), (0.7, 0.7 * _S3), (0.7, -0.7 * _S3)],  # diamond
        [(0, 0), (1.1, 0), (1.1, 1.1), (0, 1.1)]],  # complete
}


def rotation(seed, d, tag):
    a, b, c = (3.0 * (1.0 + A.jitter(seed, f"c11rot{tag}", k, 0.9)) for k in range(3))
    if d == 2:
        return np.array([[np.cos(a), -np.sin(a)], [np.sin(a), np.cos(a)]])
    Rz = lambda t: np.array([[np.cos(t), -np.sin(t), 0], [np.sin(t), np.cos(t), 0], [0, 0, 1.0]])
    Rx = lambda t: np.array([[1.0, 0, 0], [0, np.cos(t), -np.sin(t)], [0, np.sin(t), np.cos(t)]])
    return Rz(a) @ Rx(b) @ Rz(c)


@lru_cache(maxsize=None)
def placements(seed, d, n, mask, cell):
    """dict labelled-graph (tuple of 0/1 per pair i<j) -> positions realising it, for ALL 2^(n(n-1)/2) graphs on n vertices.
    Each isomorphism class has a planar template; it is jittered (table selected by the seed), rotated generically (in 3D
    out of the plane, so every bond has all components non-zero), centred on the cell corner along periodic axes (contacts
    through the faces) and on the cell centre along non-periodic axes, wrapped into the cell, then relabelled in all n! ways.
    Every pair distance is verified to lie outside BAND (contact graph independent of the species)."""
    ppp = np.array(mask)
    E = edges_of(n)
    H = cell_for(d, cell)
    found = {}
    for k, tpl in enumerate(TEMPLATES[n]):
        for attempt in range(60):
            tag = f"{d}{n}{k}_{attempt}"
            base = np.zeros((n, d))
            for i, p in enumerate(tpl):
                base[i, :2] = p
                for ax in range(d):
                    base[i, ax] += A.jitter(seed, f"c11p{tag}_{i}", ax, 0.03 if ax < 2 else 0.25)
            base -= base.mean(axis=0)
            r = base @ rotation(seed, d, tag).T
            s = np.linalg.solve(H.T, r.T).T + np.where(ppp == 1, 0.0, 0.5)
            s = s - np.floor(s)
            pos = s @ H
            con = {}
            good = True
            for i, j in E:
                raw = (pos[i] - pos[j])[None, :]
                v = minimg(raw, H, ppp)[0]
                rr = float(np.linalg.norm(v))
                if rr < 0.7 or BAND[0] - 0.02 <= rr <= BAND[1] + 0.02 or (rr < BAND[0] and np.abs(v).min() < 0.05) \
                        or frac_tie_margin(raw, H, ppp) < 1e-3:
                    good = False
                    break
                con[(i, j)] = con[(j, i)] = int(rr < BAND[0])
                if con[(i, j)] != int(np.hypot(tpl[i][0] - tpl[j][0], tpl[i][1] - tpl[j][1]) < BAND[0]):
                    good = False  # an unintended contact through a periodic image: try the next orientation
                    break
            if good:
                break
        else:
            raise RuntimeError(f"C11: template {k} for n={n} d={d} mask={mask} cell={cell} has no admissible orientation")
        for perm in itertools.permutations(range(n)):
            g = tuple(con[(perm[i], perm[j])] for i, j in E)
            if g not in found:
                found[g] = [pos[q].tolist() for q in perm]
    if len(found) != 2 ** len(E):
        raise RuntimeError(f"C11: only {len(found)}/{2 ** len(E)} contact graphs realised for d={d} n={n} mask={mask} cell={cell}")
    return found, H.tolist()


def sensitive_placements(seed, d):
    """pairs whose distance lies BETWEEN the species cutoffs (1.9 < 1.95 < 2.0 < 2.05 < 2.1): contact depends on the types"""
    out = []
    base = np.array([1.0, 1.2, 1.4][:d])
    u = np.array([0.55, 0.65, 0.52][:d])
    u = u / np.linalg.norm(u)
    third = base + np.array([-0.9, 0.8, -0.7][:d])
    for r in (1.95, 2.05):
        out.append([base.tolist(), (base + r * u).tolist()])
        out.append([base.tolist(), (base + r * u).tolist(), third.tolist()])
    return out


# ------------------------------------------------------------------------------------- enumeration
def option_vectors(d, pots, maxdev):
    ms = [tuple(m) for m in A.masks(d)]
    doms = [ms, list(range(len(pots))), [0, 1], [True, False]]
    for combo in itertools.product(*doms):
        dev = sum(1 for v, dom in zip(combo, doms) if v != dom[0])
        if maxdev is not None and dev > maxdev:
            continue
        yield combo


def mk_case(slice_, d, cell, H, pos, types, mask, pot, mass, shift, graph=None, eps_int=False, defname=False):
    model, par = pot
    return {"slice": slice_, "d": d, "cell": cell, "H": H, "pos": pos, "types": list(types), "ppp": list(mask), "model": model,
            "par": par, "masses": mass, "shift": shift, "graph": list(graph) if graph is not None else None,
            "eps_int": eps_int, "defname": defname}


def gen_matrix(tier, seed):
    """all contact graphs x all type patterns x potentials x masses x shift x masks"""
    plan = [(2, 2, "orth", None), (3, 2, "orth", None), (2, 3, "orth", None), (3, 3, "orth", None),
            (2, 3, "tri", 1), (3, 3, "tri", 1)]
    if tier == "thorough":
        plan = [(2, 2, "orth", None), (3, 2, "orth", None), (2, 3, "orth", None), (3, 3, "orth", None),
                (2, 2, "tri", None), (3, 2, "tri", None), (2, 3, "tri", None), (3, 3, "tri", None),
                (2, 4, "orth", None), (3, 4, "orth", None), (2, 4, "tri", 1), (3, 4, "tri", 1)]
    for (d, n, cell, maxdev) in plan:
        pots = POTS[:4] if n == 4 else (POTS if tier == "thorough" else POTS[:6])
        for (mask, ip, im, shift) in option_vectors(d, pots, maxdev):
            found, H = placements(seed, d, n, mask, cell)
            for g in sorted(found):
                for types in itertools.product([1, 2], repeat=n):
                    yield mk_case("graphs", d, cell, H, found[g], types, mask, pots[ip], MASSES[im], shift, graph=g)


def gen_cutoff(tier, seed):
    """pair distances between the species cutoffs: membership must use r_cut[type_i, type_j]"""
    for d in (2, 3):
        H = cell_for(d, "orth").tolist()
        for pos in sensitive_placements(seed, d):
            for types in itertools.product([1, 2], repeat=len(pos)):
                for ip in (0, 1, 2):
                    for shift in (True, False):
                        yield mk_case("cutoff", d, "orth", H, pos, types, [1] * d, POTS[ip], MASSES[0], shift)


def smallbox_placement(seed, d, n):
    """n generic points in a periodic box of edge 2.6 (2.7, 2.8): HALF the box is shorter than every cutoff (1.9 - 2.1), so interacting pairs
    exist whose minimum-image distance exceeds L/2 (up to sqrt(d) L/2); contact decisions keep the margins of the graph placements"""
    L = [2.6, 2.7, 2.8][:d]
    H = np.diag(L)
    ppp = np.ones(d, int)
    for t in range(400):
        pos = np.array(A.generic_points(seed, n, d, tag=f"c11sb{d}{n}_{t}_")) * np.array(L)
        ok, far = True, 0
        for i, j in edges_of(n):
            raw = (pos[i] - pos[j])[None, :]
            rr = float(np.linalg.norm(minimg(raw, H, ppp)[0]))
            if rr < 0.7 or BAND[0] - 0.02 <= rr <= BAND[1] + 0.02 or frac_tie_margin(raw, H, ppp) < 1e-3:
                ok = False
                break
            far += int(min(L) / 2 + 0.05 < rr < BAND[0])
        if ok and far >= 1:
            return pos.tolist(), H.tolist()
    raise RuntimeError(f"C11: no small-box placement for d={d} n={n}")


def gen_smallbox(tier, seed):
    """numerical regime: r_cut > L/2 (a few particles in a tiny periodic box); every pair interacts through its minimum image only"""
    for d in (2, 3):
        for n in ((3, 4) if tier == "quick" else (3, 4, 5)):
            pos, H = smallbox_placement(seed, d, n)
            for types in itertools.product([1, 2], repeat=n):
                for ip in (0, 1, 2):
                    for im in (0, 1):
                        for shift in (True, False):
                            yield mk_case("smallbox", d, "orth", H, pos, types, [1] * d, POTS[ip], MASSES[im], shift)


def gen_files(tier, seed):
    """default output name (model name), integer-typed parameter matrices"""
    for d in (2, 3):
        found, H = placements(seed, d, 3, tuple([1] * d), "orth")
        g = (1, 1, 0)
        for ip in (0, 1, 2):
            for types in ((1, 2, 1), (2, 2, 1)):
                yield mk_case("defname", d, "orth", H, found[g], types, [1] * d, POTS[ip], MASSES[0], True, graph=g, defname=True)


def gen_intparams(tier, seed):
    for d in (2, 3):
        found, H = placements(seed, d, 3, tuple([1] * d), "orth")
        for g in ((1, 1, 0), (1, 1, 1)):
            for ip in (0, 1, 2):
                for types in ((1, 2, 1), (1, 1, 1), (2, 2, 1)):
                    for im in (0, 1):
                        yield mk_case("intparams", d, "orth", H, found[g], types, [1] * d, POTS[ip], MASSES[im], True, graph=g, eps_int=True)
                        c = mk_case("intall", d, "orth", H, found[g], types, [1] * d, POTS[ip], MASSES[im], True, graph=None, eps_int=True)
                        c["int_all"] = True
                        yield c


def gen_massorder(tier, seed):
    """the masses mapping written with its keys in descending order, or with an entry for an absent species"""
    for d in (2, 3):
        found, H = placements(seed, d, 3, tuple([1] * d), "orth")
        for g in ((1, 1, 0), (1, 1, 1), (0, 1, 0)):
            for ip in (0, 1, 2):
                for types in ((1, 2, 1), (2, 2, 1), (2, 2, 2)):
                    for order in ("rev", "extra"):
                        c = mk_case("massorder", d, "orth", H, found[g], types, [1] * d, POTS[ip], MASSES[0], True, graph=g)
                        c["mass_order"] = order
                        yield c


def gen_single(tier, seed):
    """degenerate size: ONE particle (no pair at all): a d x d zero matrix, omega = 0, PR = 1"""
    for d in (2, 3):
        H = cell_for(d, "orth").tolist()
        for t in (1, 2):
            for ip in (0, 1, 2):
                for mask in ([1] * d, [0] * d):
                    yield mk_case("single", d, "orth", H, [[1.0, 1.2, 1.4][:d]], (t,), mask, POTS[ip], MASSES[0], True)


# ------------------------------------------------------------------------------------------ oracle
def ordered_masses(masses, order):
    """the same mapping species -> mass written in another way: keys inserted in descending order / with an entry for a species that
    does not occur (a dict is a mapping: neither may matter)"""
    keys = sorted(masses)
    if order == "rev":
        return {k: masses[k] for k in reversed(keys)}
    if order == "extra":
        d = {keys[-1] + 1: 7.5}
        d.update({k: masses[k] for k in keys})
        return d
    if order == "rot":
        return {k: masses[k] for k in keys[1:] + keys[:1]}
    return {k: masses[k] for k in keys}


def spectral_checks(R, sg, M, V, tab, n, d, ppp, types, masses, scale):
    """symmetry, translation null space, omega vs eigenvalues of the SAVED matrix, eigenvectors, participation ratios"""
    nd = n * d
    # --- C11.symmetric
    if np.abs(M - M.T).max() > 1e-12 * scale:
        R.fail(f"saved matrix not symmetric: max |M - M^T| = {np.abs(M - M.T).max():.3g}", sig=dict(sg, clause="symmetric"), sub="C11.symmetric")
    # --- C11.translations (full periodicity)
    if (ppp == 1).all():
        m = HV.mass_vector(types, masses, d)
        for a in range(d):
            t = np.zeros(nd)
            t[a::d] = 1.0
            res = M @ (np.sqrt(m) * t)
            if np.abs(res).max() > 1e-9 * scale * np.sqrt(m.max()):
                R.fail(f"H.(sqrt(m) x e_{a}) = {np.abs(res).max():.3g} (scale {scale:.3g}): mass-weighted translation not annihilated",
                       sig=dict(sg, clause="translations"), sub="C11.translations")
                break
    # --- C11.omega: the frequencies are the square roots of the eigenvalues of the saved matrix.  Mode k of the table
    # belongs to column k of the saved eigenvectors; no particular order of the modes is demanded.
    lam = np.linalg.eigvalsh(0.5 * (M + M.T))
    om = tab["omega"].values.astype(float)
    ray = np.array([float(V[:, k] @ M @ V[:, k]) for k in range(nd)])  # eigenvalue of column k
    if np.abs(M @ V - V * ray[None, :]).max() > 1e-8 * scale or np.abs(V.T @ V - np.eye(nd)).max() > 1e-9:
        R.fail("saved eigenvectors are not orthonormal eigenvectors of the saved matrix", sig=dict(sg, clause="evecs"), sub="C11.omega")
    elif np.abs(np.sort(ray) - lam).max() > 1e-9 * scale:
        R.fail("the modes do not carry each eigenvalue of the saved matrix once", sig=dict(sg, clause="spectrum"), exp=lam, obs=np.sort(ray), sub="C11.omega")
    pos_ev = ray > 1e-7 * scale
    if not np.isfinite(om).all() or np.abs(om[pos_ev] ** 2 - ray[pos_ev]).max(initial=0.0) > 1e-9 * scale:
        R.fail("omega != sqrt(eigenvalue of the saved matrix) for a positive eigenvalue", sig=dict(sg, clause="omega"),
               exp=np.sqrt(ray[pos_ev]), obs=om[pos_ev], sub="C11.omega")
    elif (om[pos_ev] <= 0).any():
        R.fail("omega of a positive eigenvalue is not positive", sig=dict(sg, clause="omega_sign"), sub="C11.omega")
    # --- C11.pr
    prv = tab["PR"].values.astype(float)
    prref = np.array([HV.ref_pr(V[:, k].reshape(n, d)) for k in range(nd)])
    if not np.allclose(prv, prref, rtol=1e-9, atol=1e-12):
        R.fail("PR column != participation ratio of the saved eigenvector", sig=dict(sg, clause="pr_value"), exp=prref, obs=prv, sub="C11.pr")
    if not ((prv > 0).all() and (prv <= 1 + 1e-12).all()):
        R.fail("participation ratio outside (0, 1]", sig=dict(sg, clause="pr_range"), obs=prv, sub="C11.pr")

    return om


def run(case):
    import pandas as pd
    from PyMatterSim.static.hessians import HessianMatrix, InteractionParams, ModelName

    R = Result()
    d = case["d"]
    H = np.array(case["H"], float)
    pos = np.array(case["pos"], float)
    n = len(pos)
    types = [int(t) for t in case["types"]]
    ppp = np.array(case["ppp"])
    model, par = case["model"], case["par"]
    masses = {int(k): float(v) for k, v in case["masses"].items()}
    shift = bool(case["shift"])
    rc = np.array(RC)
    sig = rc / RATIO[model]
    eps = np.array(EPS)
    if case["eps_int"]:
        eps_in = np.array([[1, 2], [2, 1]])  # integer dtype, as a user writing integral energies would pass it
        eps = eps_in.astype(float)
    else:
        eps_in = eps.copy()
    masses_in = ordered_masses(masses, case.get("mass_order", "asc"))
    if case.get("int_all"):
        # every numeric input integer-typed: masses {1: 1, 2: 3}, epsilon [[1,2],[2,1]], sigma [[1,1],[1,1]] (Hertz: = r_cut), r_cut [[2,2],[2,2]]
        masses_in = {k: int(v) for k, v in masses.items()}
        rc_i = np.array([[2, 2], [2, 2]])
        sig_i = rc_i.copy() if model == "hertz" else np.array([[1, 1], [1, 1]])
        rc, sig = rc_i.astype(float), sig_i.astype(float)
    unequal = masses[1] != masses[2]
    sg = {"d": d, "model": model, "unequal_masses": unequal, "eps_dtype": "int" if case["eps_int"] else "float"}
    form = case.get("form")
    fx = None
    if form:
        # round 4 (C11.forms): the same physical input stored / written in another way; the reference uses the VALUES actually handed over
        fx = CY.apply_form(form, model, pos, types, ppp, eps, sig, rc, masses)
        pos, eps, sig, rc, masses = fx["ref"]
        sg["form"] = form
    if case.get("int_all"):
        sg["all_int"] = True
    if n == 1:
        sg["single_particle"] = True
    if case.get("mass_order", "asc") != "asc":
        sg["mass_dict"] = case["mass_order"]

    # screening of discrete decisions (never triggers for the searched placements; kept as a guard)
    pl = HV.pair_list(pos, H, ppp, types, rc)
    if case["graph"] is not None and [int(p["inside"]) for p in pl] != list(case["graph"]):
        raise AssertionError("generator error: placement does not realise the announced contact graph")
    if pl and (any(p["margin"] < 1e-3 for p in pl) or frac_tie_margin(np.array([pos[p["i"]] - pos[p["j"]] for p in pl]), H, ppp) < 1e-6):
        return R.screen()

    ip = {"lj": InteractionParams(ModelName.lennard_jones),
          "ipl": InteractionParams(ModelName.inverse_power_law, ipl_n=par.get("n", 0), ipl_A=par.get("A", 0)),
          "hertz": InteractionParams(ModelName.harmonic_hertz, harmonic_hertz_alpha=par.get("alpha", 0))}[model]
    snap = mk_snap(pos, H, types)
    sig_in, rc_in = (sig_i.copy(), rc_i.copy()) if case.get("int_all") else (sig.copy(), rc.copy())
    ppp_in = ppp
    if fx is not None:
        from PyMatterSim.reader.reader_utils import SingleSnapshot

        pos_in, types_in, ppp_in, eps_in, sig_in, rc_in, masses_in = fx["lib"]
        snap = SingleSnapshot(snap.timestep, snap.nparticle, types_in, pos_in, snap.boxlength, snap.boxbounds, snap.realbounds, snap.hmatrix)
        ip = CY.interaction(model, par, fx["decoy"])
    out = "" if case["defname"] else "hx"
    name = {"lj": "lennard_jones", "ipl": "inverse_power_law", "hertz": "harmonic_hertz"}[model] if case["defname"] else "hx"
    for suf in (".hessianmatrix.npy", ".evecs.npy", ".omega_PR.csv"):
        if os.path.exists(name + suf):
            os.remove(name + suf)
    h = HessianMatrix(snap, masses_in, eps_in, sig_in, rc_in, ppp_in, int(shift) if form == "shift_int" else shift)
    h.diagonalize_hessian(ip, saveevecs=True, savehessian=True, outputfile=out)
    missing = [suf for suf in (".hessianmatrix.npy", ".evecs.npy", ".omega_PR.csv") if not os.path.exists(name + suf)]
    if missing:
        R.fail(f"output files {missing} not written as <outputfile>{missing[0]}", sig=dict(sg, clause="files"))
        return R
    M = np.load(name + ".hessianmatrix.npy")
    V = np.load(name + ".evecs.npy")
    tab = pd.read_csv(name + ".omega_PR.csv")
    nd = n * d
    if M.shape != (nd, nd) or V.shape != (nd, nd) or list(tab.columns) != ["omega", "PR"] or len(tab) != nd:
        R.fail(f"shapes: matrix {M.shape}, evecs {V.shape}, table {list(tab.columns)} x {len(tab)}; expected {nd}", sig=dict(sg, clause="shape"))
        return R
    if not (np.array_equal(snap.positions, pos) and np.array_equal(sig_in, sig) and np.array_equal(rc_in, rc) and np.array_equal(eps_in, eps)):
        R.fail("an input array was modified", sig=dict(sg, clause="input_modified"))

    ref, K, npairs = HV.ref_hessian(pos, H, ppp, types, masses, eps, sig, rc, shift, model, par)
    scale = max(1.0, float(np.abs(ref).max()))
    # --- C11.matrix: analytic (hyper-dual) oracle, every entry
    tol = (1e-9 * np.abs(ref) + 1e-11 * scale) * (fx["tol"] if fx is not None else 1.0)
    bad = np.abs(M - ref) > tol
    if bad.any() or not np.isfinite(M).all():
        p, q = np.unravel_index(int(np.argmax(np.abs(M - ref))), M.shape)
        blk = "diagonal" if p // d == q // d else "offdiagonal"
        R.fail(f"saved matrix entry [{p},{q}] = {M[p, q]!r}, hyper-dual second derivative of the documented energy / sqrt(m m) = {ref[p, q]!r}",
               sig=dict(sg, clause="matrix", block=blk), exp=ref, obs=M, sub="C11.matrix")
    # --- finite-difference witness
    fd = HV.fd_hessian(pos, H, ppp, types, masses, eps, sig, rc, shift, model, par)
    if np.abs(M - fd).max() > 2e-5 * scale:
        p, q = np.unravel_index(int(np.argmax(np.abs(M - fd))), M.shape)
        R.fail(f"saved matrix entry [{p},{q}] = {M[p, q]!r}, finite-difference second derivative = {fd[p, q]!r}",
               sig=dict(sg, clause="matrix_fd"), exp=fd, obs=M, sub="C11.matrix")
    if np.abs(ref - fd).max() > 2e-5 * scale:  # the two independently coded energies must agree with each other
        raise AssertionError("reference models disagree (hyper-dual vs finite differences)")
    om = spectral_checks(R, sg, M, V, tab, n, d, ppp, types, masses, scale)

    for suf in (".hessianmatrix.npy", ".evecs.npy", ".omega_PR.csv"):
        os.remove(name + suf)
    R.outcome({"M": M / scale, "om": om / np.sqrt(scale)}, nd=7)
    R.nontrivial = npairs >= 1 or n == 1
    R.elem = nd * nd * 2 + 3 * nd
    if form:  # C11.forms reports under its own sub-check id
        for v in R.viol:
            if v:
                v["sub"] = None
    return R

# ------------------------------------------------------------------------------------------ strengthened slices
def _ip(model, par):
    from PyMatterSim.static.hessians import InteractionParams, ModelName

    return {"lj": InteractionParams(ModelName.lennard_jones),
            "ipl": InteractionParams(ModelName.inverse_power_law, ipl_n=par.get("n", 0), ipl_A=par.get("A", 0)),
            "hertz": InteractionParams(ModelName.harmonic_hertz, harmonic_hertz_alpha=par.get("alpha", 0))}[model]


def _load(R, sg, name, nd):
    import pandas as pd

    sufs = (".hessianmatrix.npy", ".evecs.npy", ".omega_PR.csv")
    missing = [suf for suf in sufs if not os.path.exists(name + suf)]
    if missing:
        R.fail(f"output files {missing} not written", sig=dict(sg, clause="files"))
        return None
    M = np.load(name + ".hessianmatrix.npy")
    V = np.load(name + ".evecs.npy")
    tab = pd.read_csv(name + ".omega_PR.csv")
    for suf in sufs:
        os.remove(name + suf)
    if M.shape != (nd, nd) or V.shape != (nd, nd) or list(tab.columns) != ["omega", "PR"] or len(tab) != nd:
        R.fail(f"shapes: matrix {M.shape}, evecs {V.shape}, table {list(tab.columns)} x {len(tab)}; expected {nd}", sig=dict(sg, clause="shape"))
        return None
    return M, V, tab


SCALE_POTS = [("lj", {}), ("ipl", {"n": 10.0, "A": 2.5}), ("hertz", {"alpha": 2.5}), ("ipl", {"n": 12.5, "A": 1.0}), ("hertz", {"alpha": 2.0}), ("ipl", {"n": 6.0, "A": 1.0})]


def gen_scale(tier, seed):
    q = tier == "quick"
    sizes = [(3, 8), (3, 43), (2, 32), (2, 33), (2, 65)] if q else \
        [(3, 8), (3, 21), (3, 22), (3, 43), (3, 64), (3, 85), (3, 86), (2, 32), (2, 33), (2, 64), (2, 65), (2, 127), (2, 128), (2, 129)]
    cnt = 0
    for d, n in sizes:
        partial = [1, 0] if d == 2 else [1, 0, 1]
        full = [1] * d
        for cell in ("orth", "tri"):
            for pot in SCALE_POTS[:3] if q else SCALE_POTS:
                if q or n > 70:
                    # orthogonal array of strength 2 over (shift, K, mask)
                    opts = [(True, 3, full), (False, 2, full), (True, 2, partial), (False, 3, partial)]
                else:
                    opts = [(sh, K, m) for sh in (True, False) for K in (2, 3) for m in (full, partial, [0] * d)]
                for sh, K, m in opts:
                    cnt += 1
                    yield {"d": d, "n": n, "cell": cell, "model": pot[0], "par": pot[1], "shift": sh, "K": K, "ppp": m, "seed": seed,
                           "mass_order": ("asc", "rev", "rot", "extra")[cnt % 4]}


def run_scale(case):
    from PyMatterSim.static.hessians import HessianMatrix

    R = Result()
    d, n, K, model, par, shift = case["d"], case["n"], case["K"], case["model"], case["par"], bool(case["shift"])
    ppp = np.array(case["ppp"])
    pos, H, types, pl = CX.configuration(case["seed"], d, n, case["cell"], ppp, K, model)
    eps, sig, rc = CX.params(K, model)
    lo = None
    if case["cell"] == "tri":
        # box origin away from 0 (the Hessian depends on coordinate differences only)
        lo = np.array([-2.5, 1.0, 3.0][:d])
        pos = pos + lo
        pl = CX.pairs_vec(pos, H, ppp, types, rc)
        if pl["margin"].min() < 1e-7 or pl["tie"] < 1e-7:
            return R.screen()
    masses = {int(k): float(v) for k, v in CX.MASS[K].items()}
    nd = n * d
    sg = {"slice": "scale", "d": d, "model": model, "K": K, "cell": case["cell"], "mass_dict": case["mass_order"], "nd": "<=64" if nd <= 64 else ("65..128" if nd <= 128 else ">128")}
    snap = mk_snap(pos, H, types, lo=lo)
    a_eps, a_sig, a_rc = eps.copy(), sig.copy(), rc.copy()
    h = HessianMatrix(snap, ordered_masses(masses, case["mass_order"]), a_eps, a_sig, a_rc, ppp, shift)
    h.diagonalize_hessian(_ip(model, par), saveevecs=True, savehessian=True, outputfile="hs")
    got = _load(R, sg, "hs", nd)
    if got is None:
        return R
    M, V, tab = got
    if not (np.array_equal(snap.positions, pos) and np.array_equal(a_sig, sig) and np.array_equal(a_rc, rc) and np.array_equal(a_eps, eps)
            and np.array_equal(snap.particle_type, types)):
        R.fail("an input array was modified", sig=dict(sg, clause="input_modified"))
    ref, npairs = CX.ref_hessian_sparse(pos, pl, types, masses, eps, sig, rc, shift, model, par)
    scale = max(1.0, float(np.abs(ref).max()))
    tol = 1e-9 * np.abs(ref) + 1e-11 * scale
    bad = (np.abs(M - ref) > tol) | ~np.isfinite(M)
    if bad.any():
        rows, cols = np.nonzero(bad)
        p, q = int(rows[0]), int(cols[0])
        blk = "diagonal" if p // d == q // d else "offdiagonal"
        R.fail(f"N={n} d={d}: {int(bad.sum())} entries of the saved {nd}x{nd} matrix differ from the hyper-dual second derivatives of the documented "
               f"energy (rows {int(rows.min())}..{int(rows.max())}, columns {int(cols.min())}..{int(cols.max())}); first [{p},{q}] (particles {p // d},{q // d}; "
               f"species {types[p // d]},{types[q // d]}) = {M[p, q]!r}, expected {ref[p, q]!r}",
               sig=dict(sg, clause="matrix", block=blk), sub="C11.matrix")
    wc = CX.witness_columns(pl, n, d)
    fd = CX.fd_columns(pos, pl, types, masses, eps, sig, rc, shift, model, par, wc)
    for p in wc:
        if np.abs(ref[:, p] - fd[p]).max() > 2e-5 * scale:
            raise AssertionError("reference models disagree (sparse hyper-dual vs finite differences)")
        if np.abs(M[:, p] - fd[p]).max() > 2e-5 * scale:
            q = int(np.argmax(np.abs(M[:, p] - fd[p])))
            R.fail(f"N={n} d={d}: saved matrix entry [{q},{p}] = {M[q, p]!r}, finite-difference second derivative = {fd[p][q]!r}",
                   sig=dict(sg, clause="matrix_fd"), sub="C11.matrix")
            break
    om = spectral_checks(R, sg, M, V, tab, n, d, ppp, types, masses, scale)
    R.outcome({"M": M / scale, "om": om / np.sqrt(scale)}, nd=7)
    R.nontrivial = npairs >= n
    R.elem = nd * nd + nd * len(wc) + 3 * nd
    return R


# call sequences: letters = (d, graph placement, species, masses, potential, shift)
SEQ_LETTERS = [
    {"d": 2, "g": (1, 1, 0), "types": (1, 2, 1), "mass": 0, "pot": 0, "shift": True},
    {"d": 2, "g": (1, 1, 0), "types": (2, 1, 1), "mass": 0, "pot": 0, "shift": True},   # same composition, other assignment
    {"d": 2, "g": (1, 1, 0), "types": (1, 2, 1), "mass": 1, "pot": 0, "shift": True},   # equal masses
    {"d": 2, "g": (1, 1, 0), "types": (1, 2, 1), "mass": 0, "pot": 0, "shift": False},
    {"d": 2, "g": (1, 1, 1), "types": (1, 2, 1), "mass": 0, "pot": 1, "shift": True},   # other positions, IPL
    {"d": 3, "g": (1, 1, 0), "types": (1, 2, 1), "mass": 0, "pot": 1, "shift": True},
    {"d": 3, "g": (1, 1, 0), "types": (1, 1, 2), "mass": 0, "pot": 2, "shift": True},   # Hertz
    {"d": 3, "g": (0, 1, 1), "types": (1, 2, 1), "mass": 0, "pot": 0, "shift": True, "order": "rev"},   # masses written {2: 3, 1: 1}
]


def gen_sequence(tier, seed):
    depth = 2 if tier == "quick" else 3
    for alive in (False, True):
        for L in range(1, depth + 1):
            for word in itertools.product(range(len(SEQ_LETTERS)), repeat=L):
                if L == 1 and alive:
                    continue
                yield {"word": list(word), "alive": alive, "seed": seed}


def _seq_setup(lt, seed):
    d = lt["d"]
    found, H = placements(seed, d, 3, tuple([1] * d), "orth")
    model, par = POTS[lt["pot"]]
    rc = np.array(RC)
    return {"d": d, "H": np.array(H), "pos": np.array(found[lt["g"]]), "types": list(lt["types"]), "model": model, "par": par,
            "masses": ordered_masses({int(k): float(v) for k, v in MASSES[lt["mass"]].items()}, lt.get("order", "asc")), "rc": rc, "sig": rc / RATIO[model], "eps": np.array(EPS), "shift": lt["shift"]}


def _seq_child(case):
    from PyMatterSim.static.hessians import HessianMatrix

    sets = [_seq_setup(SEQ_LETTERS[k], case["seed"]) for k in case["word"]]

    def make(c):
        return HessianMatrix(mk_snap(c["pos"], c["H"], c["types"]), dict(c["masses"]), c["eps"].copy(), c["sig"].copy(), c["rc"].copy(), np.array([1] * c["d"]), c["shift"])

    objs = [make(c) for c in sets] if case["alive"] else None
    outs = []
    for pos, c in enumerate(sets):
        h = objs[pos] if objs else make(c)
        h.diagonalize_hessian(_ip(c["model"], c["par"]), saveevecs=True, savehessian=True, outputfile="hq")
        R = Result()
        got = _load(R, {}, "hq", 3 * c["d"])
        if got is None:
            outs.append(None)
            continue
        outs.append({"M": got[0].tolist(), "om": [None if not np.isfinite(v) else float(v) for v in got[2]["omega"].values], "pr": got[2]["PR"].values.tolist()})
    return outs


def run_sequence(case):
    R = Result()
    payload = CX.forked(_seq_child, case)
    feat = {"slice": "sequence", "alive": case["alive"]}
    if "err" in payload:
        R.fail(f"call sequence {case['word']} raised {payload['err']}", sig=dict(feat, clause="exception"))
        return R
    states = set()
    for pos, (k, got) in enumerate(zip(case["word"], payload["ok"])):
        c = _seq_setup(SEQ_LETTERS[k], case["seed"])
        sg = dict(feat, position="first" if pos == 0 else "later", d=c["d"])
        if pos:
            pv = SEQ_LETTERS[case["word"][pos - 1]]
            sg["changed"] = sorted(f for f in ("d", "g", "types", "mass", "pot", "shift") if pv[f] != SEQ_LETTERS[k][f])
        if got is None:
            R.fail(f"call #{pos + 1} of {case['word']}: output files missing or of the wrong shape", sig=dict(sg, clause="files"))
            break
        ref, _, npairs = HV.ref_hessian(c["pos"], c["H"], np.array([1] * c["d"]), c["types"], c["masses"], c["eps"], c["sig"], c["rc"], c["shift"], c["model"], c["par"])
        M = np.array(got["M"])
        scale = max(1.0, float(np.abs(ref).max()))
        states.add((k, str(np.round(M / scale, 7).tolist())))
        if (np.abs(M - ref) > 1e-9 * np.abs(ref) + 1e-11 * scale).any():
            p, q = np.unravel_index(int(np.argmax(np.abs(M - ref))), M.shape)
            R.fail(f"call #{pos + 1} of the sequence {[SEQ_LETTERS[i] for i in case['word']]} ({'all objects constructed first' if case['alive'] else 'object constructed before its call'}): "
                   f"saved matrix entry [{p},{q}] = {M[p, q]!r}, second derivative of this object's energy = {ref[p, q]!r}", sig=dict(sg, clause="matrix"), exp=ref, obs=M)
            break
        lam = np.linalg.eigvalsh(0.5 * (M + M.T))
        om = np.array([np.nan if v is None else v for v in got["om"]], float)
        big = lam > 1e-7 * scale
        if not np.allclose(np.sort(om[np.isfinite(om) & (om > 0)] ** 2)[-int(big.sum()):] if big.any() else [], lam[big], rtol=1e-8, atol=1e-9 * scale):
            R.fail(f"call #{pos + 1} of {case['word']}: omega^2 are not the positive eigenvalues of the saved matrix", sig=dict(sg, clause="omega"), exp=np.sqrt(lam[big]), obs=om)
            break
    R.elem = sum((3 * SEQ_LETTERS[k]["d"]) ** 2 for k in case["word"])
    R.states = len(states)
    R.transitions = len(case["word"])
    R.outcome(payload["ok"], nd=7)
    return R


# ------------------------------------------------------------------------------------------ round 4: forms, outputs, one object called repeatedly
def gen_forms(tier, seed):
    """L5 / L1 / L4: the same kind of input stored or written in another way (mc/ref/c11y.FORMS)"""
    q = tier == "quick"
    for d in (2, 3):
        full = tuple([1] * d)
        found, H = placements(seed, d, 3, full, "orth")
        foundt, Ht = placements(seed, d, 3, full, "tri")
        for form in CY.FORMS:
            for gi, g in enumerate(((1, 1, 0), (1, 1, 1))):
                for ti, types in enumerate(((1, 2, 1), (2, 2, 1), (1, 1, 1))):
                    for ip in range(3 if q else 6):
                        for shift in (True, False):
                            for cell in ("orth", "tri"):
                                if q and (gi + ti + ip + int(shift) + (cell == "tri")) % 2:
                                    continue  # quick: half fraction (every pair of factor levels still occurs)
                                if form == "rc_eq_sigma" and POTS[ip][0] == "hertz":
                                    continue  # Hertz always has r_c = sigma
                                pot = POTS[ip]
                                mask = full
                                if form == "ipl_A0":
                                    # L8: the prefactor given as an explicit zero (float / int): s = 0 * eps (sigma/r)^n, a zero matrix - not the default prefactor
                                    if pot[0] != "ipl":
                                        continue
                                    pot = ("ipl", {"n": pot[1]["n"], "A": 0.0 if shift else 0})
                                if form == "unwrapped_partial":
                                    mask = tuple([1] + [0] * (d - 2) + [0]) if d == 2 else (1, 0, 1)
                                if form in ("unwrapped", "unwrapped_partial"):
                                    fm, Hm = placements(seed, d, 3, mask, cell)
                                    pos = CY.unwrap(fm[g], Hm, mask)  # L7: particles displaced by whole cell vectors along the periodic axes
                                    c = mk_case("forms", d, cell, Hm, pos.tolist(), types, mask, pot, MASSES[0], shift, graph=None)
                                    c["form"] = form
                                    yield c
                                    continue
                                pos = np.array((found if cell == "orth" else foundt)[g])
                                if form == "origin":
                                    pos = pos - pos[0]  # particle 0 exactly at the origin of the cell (rigid translation; fully periodic)
                                elif form == "face":
                                    pos = pos - np.array([pos[1][0]] + [0.0] * (d - 1))  # particle 1 exactly on the face x = 0
                                c = mk_case("forms", d, cell, H if cell == "orth" else Ht, pos.tolist(), types, full, pot, MASSES[0], shift, graph=None)
                                c["form"] = form
                                yield c


OUT_OPTS = [(True, True), (True, False), (False, True), (False, False), None]  # (saveevecs, savehessian); None = the documented defaults (True, False)
OUT_NAMES = ["", None, "hz", "run.v2"]  # '' and None: "default None to use model name"


def gen_outputs(tier, seed):
    for d in (2, 3):
        found, H = placements(seed, d, 3, tuple([1] * d), "orth")
        for g in ((1, 1, 0), (0, 0, 0)):
            for ip in (0, 1, 2):
                for types in ((1, 2, 1), (2, 2, 1)):
                    for oi in range(len(OUT_OPTS)):
                        for ni in range(len(OUT_NAMES)):
                            c = mk_case("outputs", d, "orth", H, found[g], types, [1] * d, POTS[ip], MASSES[0], True, graph=g)
                            c["opt"], c["name"] = oi, ni
                            yield c


def run_outputs(case):
    """which files diagonalize_hessian writes for every combination of its saving options and output names, and that their content does not depend
    on the options (differential: the call with everything saved, which C11.matrix compares with the definition) nor on anything but the inputs
    (independent: hyper-dual reference spectrum)"""
    import pandas as pd
    from PyMatterSim.static.hessians import HessianMatrix

    R = Result()
    d = case["d"]
    H = np.array(case["H"], float)
    pos = np.array(case["pos"], float)
    n = len(pos)
    nd = n * d
    types = [int(t) for t in case["types"]]
    ppp = np.array(case["ppp"])
    model, par = case["model"], case["par"]
    masses = {int(k): float(v) for k, v in case["masses"].items()}
    rc = np.array(RC)
    sig = rc / RATIO[model]
    eps = np.array(EPS)
    opt = OUT_OPTS[case["opt"]]
    oname = OUT_NAMES[case["name"]]
    se, sh = opt if opt is not None else (True, False)
    prefix = oname if oname else {"lj": "lennard_jones", "ipl": "inverse_power_law", "hertz": "harmonic_hertz"}[model]
    sg = {"slice": "outputs", "d": d, "model": model, "saveevecs": se, "savehessian": sh, "defaults": opt is None,
          "outputfile": "none" if oname is None else ("empty" if oname == "" else "name")}

    def make():
        return HessianMatrix(mk_snap(pos, H, types), dict(masses), eps.copy(), sig.copy(), rc.copy(), ppp, bool(case["shift"]))

    # the fully saved call on a fresh object (its content is what C11.matrix compares with the definition)
    CY.clean("hfull")
    make().diagonalize_hessian(_ip(model, par), saveevecs=True, savehessian=True, outputfile="hfull")
    full = _load(R, sg, "hfull", nd)
    if full is None:
        return R
    Mf, Vf, tabf = full
    for pf in (prefix, "None", ""):
        CY.clean(pf)
    kw = {} if opt is None else {"saveevecs": se, "savehessian": sh}
    if oname is not None or case["opt"] % 2:
        kw["outputfile"] = oname
    # (outputfile omitted altogether in half of the None cases: the signature's default)
    make().diagonalize_hessian(_ip(model, par), **kw)
    want = CY.expected_files(prefix, se, sh)
    for fn, must in want.items():
        if os.path.exists(fn) != must:
            R.fail(f"saveevecs={se}, savehessian={sh}, outputfile={oname!r}: file {fn} " + ("was not written" if must else "was written although it was not requested"),
                   sig=dict(sg, clause="file_missing" if must else "file_unrequested"))
    stray = [pf + suf for pf in ("None", "") for suf in CY.SUFFIXES if pf != prefix and os.path.exists(pf + suf)]
    if stray:
        R.fail(f"outputfile={oname!r}: files {stray} written instead of the model-name default", sig=dict(sg, clause="file_name"))
    ref, K, npairs = HV.ref_hessian(pos, H, ppp, types, masses, eps, sig, rc, bool(case["shift"]), model, par)
    scale = max(1.0, float(np.abs(ref).max()))
    lam = np.linalg.eigvalsh(ref)
    ncmp = 0
    if os.path.exists(prefix + ".omega_PR.csv"):
        tab = pd.read_csv(prefix + ".omega_PR.csv")
        if list(tab.columns) != ["omega", "PR"] or len(tab) != nd:
            R.fail(f"table {list(tab.columns)} x {len(tab)}", sig=dict(sg, clause="shape"))
        else:
            if not (np.array_equal(tab["omega"].values, tabf["omega"].values, equal_nan=True) and np.array_equal(tab["PR"].values, tabf["PR"].values, equal_nan=True)):
                R.fail("omega_PR.csv depends on the saving options (differs from the table of the call that saves everything)", sig=dict(sg, clause="table_vs_full"),
                       exp=tabf.values, obs=tab.values)
            om = tab["omega"].values.astype(float)
            big = lam > 1e-7 * scale
            got2 = np.sort(om[np.isfinite(om) & (om > 0)] ** 2)
            if int(big.sum()) and (len(got2) < int(big.sum()) or not np.allclose(got2[-int(big.sum()):], lam[big], rtol=1e-8, atol=1e-9 * scale)):
                R.fail("omega^2 are not the positive eigenvalues of the mass-weighted second-derivative matrix (hyper-dual reference)", sig=dict(sg, clause="omega"),
                       exp=np.sqrt(lam[big]), obs=om)
            prv = tab["PR"].values.astype(float)
            if not ((prv > 0).all() and (prv <= 1 + 1e-12).all()):
                R.fail("participation ratio outside (0, 1]", sig=dict(sg, clause="pr_range"), obs=prv)
            ncmp += 2 * nd
    if se and os.path.exists(prefix + ".evecs.npy"):
        V = np.load(prefix + ".evecs.npy")
        if V.shape != (nd, nd) or not np.array_equal(V, Vf):
            R.fail("saved eigenvectors depend on the saving options", sig=dict(sg, clause="evecs_vs_full"))
        elif np.abs(ref @ V - V * np.array([float(V[:, k] @ ref @ V[:, k]) for k in range(nd)])[None, :]).max() > 1e-8 * scale:
            R.fail("saved eigenvectors are not eigenvectors of the reference matrix", sig=dict(sg, clause="evecs"))
        ncmp += nd * nd
    if sh and os.path.exists(prefix + ".hessianmatrix.npy"):
        M = np.load(prefix + ".hessianmatrix.npy")
        if M.shape != (nd, nd) or not np.array_equal(M, Mf):
            R.fail("saved matrix depends on the saving options", sig=dict(sg, clause="matrix_vs_full"))
        elif (np.abs(M - ref) > 1e-9 * np.abs(ref) + 1e-11 * scale).any():
            R.fail("saved matrix differs from the hyper-dual reference", sig=dict(sg, clause="matrix"), exp=ref, obs=M, sub="C11.matrix")
        ncmp += nd * nd
    for pf in (prefix, "None", "", "hfull"):
        CY.clean(pf)
    R.elem = ncmp + 3
    R.outcome({"files": sorted(k for k, v in want.items() if v), "om": tabf["omega"].values / np.sqrt(scale)}, nd=7)
    R.nontrivial = True
    return R


# ONE HessianMatrix object, diagonalize_hessian called repeatedly: with other interaction parameters, after the snapshot's position array was edited in place
OBJ_IPS = [("lj", {}), ("ipl", {"n": 10.0, "A": 1.0}), ("ipl", {"n": 6.0, "A": 2.5}), ("hertz", {"alpha": 2.5}), ("hertz", {"alpha": 2.0})]


def gen_object(tier, seed):
    depth = 2 if tier == "quick" else 3
    nl = 2 * len(OBJ_IPS)
    for d in (2, 3):
        for L in range(1, depth + 1):
            for word in itertools.product(range(nl), repeat=L):
                if L == 3 and d == 3 and len(set(word)) < 3:
                    continue
                yield {"word": list(word), "d": d, "seed": seed}


def _obj_setup(d, seed):
    found, H = placements(seed, d, 3, tuple([1] * d), "orth")
    rc = np.array(RC)
    # sigma = r_c for every model (Hertz requires it; LJ / IPL are then potentials cut exactly where sigma sits)
    return {"H": np.array(H), "pos": [np.array(found[(1, 1, 0)]), np.array(found[(1, 1, 1)])], "types": [1, 2, 1], "masses": {1: 1.0, 2: 3.0}, "rc": rc, "sig": rc.copy(), "eps": np.array(EPS)}


def _obj_child(case):
    from PyMatterSim.static.hessians import HessianMatrix

    c = _obj_setup(case["d"], case["seed"])
    d = case["d"]
    snap = mk_snap(c["pos"][0], c["H"], c["types"])
    h = HessianMatrix(snap, dict(c["masses"]), c["eps"].copy(), c["sig"].copy(), c["rc"].copy(), np.array([1] * d), True)
    cur = 0
    outs = []
    for k in case["word"]:
        ipi, var = k % len(OBJ_IPS), k // len(OBJ_IPS)
        if var != cur:
            snap.positions[...] = c["pos"][var]  # in-place edit of the array the object holds
            cur = var
        model, par = OBJ_IPS[ipi]
        h.diagonalize_hessian(_ip(model, par), saveevecs=True, savehessian=True, outputfile="ho")
        R = Result()
        got = _load(R, {}, "ho", 3 * d)
        outs.append(None if got is None else {"M": got[0].tolist(), "om": [None if not np.isfinite(v) else float(v) for v in got[2]["omega"].values]})
    return outs


def run_object(case):
    R = Result()
    d = case["d"]
    import pandas  # noqa: F401  (imported here so that the forked children inherit the loaded modules)
    from PyMatterSim.static import hessians  # noqa: F401

    _obj_setup(d, case["seed"])  # warms the placement cache of this worker; the forked child inherits it
    payload = CX.forked(_obj_child, case)
    feat = {"slice": "sequence_object", "d": d}
    if "err" in payload:
        R.fail(f"call sequence {case['word']} on one object raised {payload['err']}", sig=dict(feat, clause="exception"))
        return R
    c = _obj_setup(d, case["seed"])
    states = set()
    for pos_, (k, got) in enumerate(zip(case["word"], payload["ok"])):
        ipi, var = k % len(OBJ_IPS), k // len(OBJ_IPS)
        model, par = OBJ_IPS[ipi]
        sg = dict(feat, position="first" if pos_ == 0 else "later", model=model)
        if pos_:
            pk = case["word"][pos_ - 1]
            sg["changed"] = sorted((["model_or_exponent"] if pk % len(OBJ_IPS) != ipi else []) + (["positions_in_place"] if pk // len(OBJ_IPS) != var else []))
        if got is None:
            R.fail(f"call #{pos_ + 1} of {case['word']}: output files missing or of the wrong shape", sig=dict(sg, clause="files"))
            break
        ref, _, npairs = HV.ref_hessian(c["pos"][var], c["H"], np.array([1] * d), c["types"], c["masses"], c["eps"], c["sig"], c["rc"], True, model, par)
        M = np.array(got["M"])
        scale = max(1.0, float(np.abs(ref).max()))
        states.add((k, str(np.round(M / scale, 7).tolist())))
        if (np.abs(M - ref) > 1e-9 * np.abs(ref) + 1e-11 * scale).any():
            p, q_ = np.unravel_index(int(np.argmax(np.abs(M - ref))), M.shape)
            R.fail(f"call #{pos_ + 1} of the sequence {[(OBJ_IPS[i % len(OBJ_IPS)], 'positions ' + str(i // len(OBJ_IPS))) for i in case['word']]} on ONE HessianMatrix object: saved matrix "
                   f"entry [{p},{q_}] = {M[p, q_]!r}, second derivative of the energy for this call's model and the object's current positions = {ref[p, q_]!r}",
                   sig=dict(sg, clause="matrix"), exp=ref, obs=M)
            break
        lam = np.linalg.eigvalsh(0.5 * (M + M.T))
        om = np.array([np.nan if v is None else v for v in got["om"]], float)
        big = lam > 1e-7 * scale
        if big.any() and not np.allclose(np.sort(om[np.isfinite(om) & (om > 0)] ** 2)[-int(big.sum()):], lam[big], rtol=1e-8, atol=1e-9 * scale):
            R.fail(f"call #{pos_ + 1} of {case['word']}: omega^2 are not the positive eigenvalues of the saved matrix", sig=dict(sg, clause="omega"))
            break
    R.elem = sum((3 * d) ** 2 for _ in case["word"])
    R.states = len(states)
    R.transitions = len(case["word"])
    R.outcome(payload["ok"], nd=7)
    return R


# L9 absolute scale: positions, cell, sigma and r_c multiplied by 2^-33 / 2^27 at fixed energies and masses: the Hessian scales by 1/scale^2, omega by 1/scale,
# the participation ratios are unchanged.  Compared with the library's own result on the undilated input (which C11.matrix compares with the definition).
DILATIONS = [2.0 ** -33, 2.0 ** 27]


def gen_dilation(tier, seed):
    for si in range(len(DILATIONS)):
        for d in (2, 3):
            for cell in ("orth", "tri"):
                for mask in (tuple([1] * d), tuple([1] + [0] * (d - 1))):
                    found, H = placements(seed, d, 3, mask, cell)
                    for g in ((1, 1, 0), (1, 1, 1)):
                        for types in ((1, 2, 1), (2, 2, 1)):
                            for ip in range(3):
                                for shift in (True, False):
                                    c = mk_case("dilation", d, cell, H, found[g], types, mask, POTS[ip], MASSES[0], shift, graph=g)
                                    c["dil"] = si
                                    yield c


def run_dilation(case):
    from PyMatterSim.static.hessians import HessianMatrix

    R = Result()
    d = case["d"]
    H = np.array(case["H"], float)
    pos = np.array(case["pos"], float)
    n = len(pos)
    nd = n * d
    types = [int(t) for t in case["types"]]
    ppp = np.array(case["ppp"])
    model, par = case["model"], case["par"]
    masses = {int(k): float(v) for k, v in case["masses"].items()}
    rc = np.array(RC)
    sig = rc / RATIO[model]
    eps = np.array(EPS)
    sc = DILATIONS[case["dil"]]
    sg = {"slice": "dilation", "d": d, "model": model, "cell": case["cell"], "scale": "tiny" if sc < 1 else "huge", "masked": bool((ppp == 0).any())}
    outs = []
    for f in (1.0, sc):
        h = HessianMatrix(mk_snap(pos * f, H * f, types), dict(masses), eps.copy(), sig * f, rc * f, ppp, bool(case["shift"]))
        h.diagonalize_hessian(_ip(model, par), saveevecs=True, savehessian=True, outputfile="hd")
        got = _load(R, sg, "hd", nd)
        if got is None:
            return R
        outs.append(got)
    (M0, V0, t0), (M1, V1, t1) = outs
    scale = float(np.abs(M0).max())
    if scale > 0 and (np.abs(M1 * sc * sc - M0) > 1e-9 * np.abs(M0) + 1e-11 * scale).any():
        p, q = np.unravel_index(int(np.argmax(np.abs(M1 * sc * sc - M0))), M0.shape)
        R.fail(f"all lengths x {sc}: saved matrix x scale^2 differs from the undilated matrix at [{p},{q}]: {M1[p, q] * sc * sc!r} vs {M0[p, q]!r}", sig=dict(sg, clause="matrix"),
               exp=M0, obs=M1 * sc * sc)
    lam0 = np.linalg.eigvalsh(0.5 * (M0 + M0.T))
    om1 = t1["omega"].values.astype(float)
    big = lam0 > 1e-7 * scale
    got2 = np.sort(om1[np.isfinite(om1) & (om1 > 0)] ** 2) * sc * sc
    if int(big.sum()) and (len(got2) < int(big.sum()) or not np.allclose(got2[-int(big.sum()):], lam0[big], rtol=1e-8, atol=1e-9 * scale)):
        R.fail(f"all lengths x {sc}: omega^2 x scale^2 are not the positive eigenvalues of the undilated matrix", sig=dict(sg, clause="omega"), exp=np.sqrt(lam0[big]), obs=om1 * sc)
    pr1 = t1["PR"].values.astype(float)
    if not ((pr1 > 0).all() and (pr1 <= 1 + 1e-12).all()):
        R.fail("participation ratio outside (0, 1]", sig=dict(sg, clause="pr_range"), obs=pr1)
    R.elem = nd * nd + 2 * nd
    R.outcome({"M": M0 / max(scale, 1e-300)}, nd=7)
    R.nontrivial = scale > 0
    return R


def subs(tier, seed):
    q = tier == "quick"
    return [
        Sub("C11.matrix", gen_matrix, run,
            rule="placements realising EVERY labelled contact graph on N vertices (one jittered, generically rotated template per "
                 "isomorphism class, all relabellings, straddling the periodic faces; per mask and cell) x all type maps {1,2}^N x potentials "
                 "(LJ, IPL (n,A) in " + ("{(10,1),(6,2.5),(12.5,1)}" if q else "{6,10,12.5} x {1,2.5}") + ", Hertz alpha in {2,2.5}) x masses {equal, 1:3} x shift on/off x all masks; "
                 + ("N=2,3 full product in orthogonal cells, triclinic with <=1 option deviation"
                    if q else "N=2,3 full product in orthogonal and triclinic cells; N=4 (64 graphs x 16 type maps, 4 potentials) full product in orthogonal cells, <=1 option deviation in triclinic cells")
                 + "; every entry of the saved matrix vs hyper-dual and finite-difference second derivatives of the total energy, "
                   "symmetry, translations, omega, eigenvectors, PR; non-trivial = at least one interacting pair",
            bounds={"N": [2, 3] if q else [2, 3, 4], "d": [2, 3], "potentials": 6 if q else len(POTS), "masses": 2, "shift": 2,
                    "graphs": {"2": 2, "3": 8, "4": 64}, "cutoffs": RC}),
        Sub("C11.matrix.cutoff", gen_cutoff, run,
            rule="pair distances 1.95 and 2.05 lying between the species cutoffs 1.9/2.0/2.1, all type maps, N=2,3: interaction "
                 "membership and s'(rc) must use r_cut[type_i,type_j]"),
        Sub("C11.matrix.smallbox", gen_smallbox, run,
            rule="numerical regime r_cut > L/2: N = 3, 4 (5 thorough) generic particles in a fully periodic box of edge 2.6 x 2.7 (x 2.8), cutoffs 1.9 - 2.1, "
                 "at least one interacting pair farther apart than half the box; all type maps x {LJ, IPL, Hertz} x masses x shift; every entry of the "
                 "saved matrix against the hyper-dual second derivatives of the minimum-image pair energy"),
        Sub("C11.matrix.files", gen_files, run, rule="default output name = model name (outputfile='')"),
        Sub("C11.matrix.intparams", gen_intparams, run, rule="integer-typed epsilon matrix [[1,2],[2,1]] with equal and unequal masses; and EVERY numeric "
            "input integer-typed (masses {1:1, 2:3|1}, epsilon, sigma [[1,1],[1,1]], r_cut [[2,2],[2,2]])"),
        Sub("C11.matrix.massorder", gen_massorder, run, rule="the masses dict {1: 1, 2: 3} written as {2: 3, 1: 1} and as {3: 7.5, 1: 1, 2: 3} (a mapping: key order "
            "and entries of absent species must not matter); N=3, three graphs x type maps x three potentials, 2D/3D"),
        Sub("C11.matrix.single", gen_single, run, rule="degenerate size N = 1 (no pair): d x d zero matrix, omega = 0, PR = 1; 2D/3D x species x potential x mask"),
        Sub("C11.forms", gen_forms, run,
            rule="L5 / L1 / L4: N=3, d in {2,3}, two contact graphs x type maps x potentials x shift x {orthogonal, triclinic}" + (" (half fraction)" if q else "") + " x INPUT FORMS "
                 + str(CY.FORMS) + ": parameter matrices as float32 (tolerance 2e-6) / int32, ppp as list / tuple / int32, positions Fortran-ordered / strided view, species as int32, "
                 "masses as numpy integer / float scalars, InteractionParams carrying the parameters of the OTHER models (positive and negative decoys), LJ / IPL cut exactly at "
                 "r_c = sigma, a species pair with epsilon = 0, a particle exactly at the cell origin / on a cell face, particles displaced by whole cell vectors n H (n in {0,2,-3,4} per "
                 "particle and axis, periodic axes only; full and partial masks), the IPL prefactor given as an explicit 0 / 0.0, shiftpotential as int; same oracles as C11.matrix",
            bounds={"forms": CY.FORMS}),
        Sub("C11.outputs", gen_outputs, run_outputs,
            rule="every combination of (saveevecs, savehessian) in {T,F}^2 + the documented defaults x outputfile in {'', None, omitted, 'hz', 'run.v2'} x d in {2,3} x {interacting, "
                 "non-interacting} placement x three potentials x two type maps: exactly the requested files appear under the right name (model name for '' / None), their content "
                 "is bit for bit that of the call that saves everything, omega^2 = positive eigenvalues of the hyper-dual reference matrix, 0 < PR <= 1",
            bounds={"options": 5, "names": OUT_NAMES}),
        Sub("C11.sequence.object", gen_object, run_object,
            rule="explicit-state search over words of length <= " + ("2" if q else "3") + " over 10 letters = 5 interaction parameter sets (LJ, IPL(10,1), IPL(6,2.5), Hertz 2.5, "
                 "Hertz 2) x 2 position sets, all on ONE HessianMatrix object (sigma = r_c) whose snapshot position array is edited IN PLACE when the letter's position set "
                 "differs from the current one; each word in a forked child; every call must save the matrix for ITS model and the object's CURRENT positions",
            bounds={"depth": 2 if q else 3, "letters": 2 * len(OBJ_IPS)}),
        Sub("C11.dilation", gen_dilation, run_dilation,
            rule="L9 absolute scale: positions, cell, sigma and r_c multiplied by 2^-33 and 2^27 (exact), energies and masses fixed; N=3, d in {2,3} x {orthogonal, TILTED} x "
                 "{periodic, one periodic axis} x two contact graphs x two type maps x three potentials x shift: saved matrix x scale^2 == undilated saved matrix (1e-9 relative), "
                 "omega^2 x scale^2 == its positive eigenvalues, 0 < PR <= 1",
            bounds={"scales": ["2^-33", "2^27"]}),
        Sub("C11.scale", gen_scale, run_scale,
            rule="SIZES: one fixed configuration per size, N in " + ("{8, 43} (3D: 24x24, 129x129) and {32, 33, 65} (2D: 64, 66, 130)" if q else
                 "{8, 21, 22, 43, 64, 85, 86} (3D: 24 .. 258) and {32, 33, 64, 65, 127, 128, 129} (2D: 64 .. 258)")
                 + " x orthogonal (shortest edge not x) / triclinic cell x potentials (" + ("LJ, IPL(10, 2.5), Hertz 2.5" if q else "6") + ") x "
                 + ("an orthogonal array of strength 2 over (shift, K in {2,3} species, full / partial mask)" if q else "shift x K in {2,3} x {full, partial, open} masks (orthogonal array for N d > 200)")
                 + "; jittered lattice with vacancies (coordination numbers 2..16), masses 1 : 3 : 0.5; EVERY entry of the saved matrix vs the sum "
                   "of hyper-dual pair-term Hessians, finite-difference witness on <= 7 columns around 63..65 / 127..129, symmetry, "
                   "translations, omega, eigenvectors, PR; non-trivial = at least N interacting pairs",
            bounds={"sizes_3d": [8, 43] if q else [8, 21, 22, 43, 64, 85, 86], "sizes_2d": [32, 33, 65] if q else [32, 33, 64, 65, 127, 128, 129], "K": [2, 3]}),
        Sub("C11.sequence", gen_sequence, run_sequence,
            rule="explicit-state search over CALL SEQUENCES: all words of length <= " + ("2" if q else "3") + " over 8 HessianMatrix objects (N=3; 2D / 3D, same positions "
                 "with permuted species, equal / unequal masses, shift on / off, other positions, three potentials), each word twice: object constructed right "
                 "before its diagonalize_hessian call / ALL objects constructed first and kept alive; every word in a forked child; every call must save the "
                 "matrix of its own object (hyper-dual reference) with omega^2 = its positive eigenvalues",
            bounds={"depth": 2 if q else 3, "letters": len(SEQ_LETTERS)}),
    ]
