"""C05 - neighbour lists through the file (E1 configurations x E2 read-cursor histories).

Runner subs                     clause subs reported by them
  C05.nnearest                  C05.nnearest (membership), C05.order, C05.noself, C05.readback, C05.file
  C05.cutoff                    C05.cutoff (membership, boundary inclusive), C05.order, C05.noself, C05.symmetric, ...
  C05.cutoff_type               C05.cutoff_type (row = centre type, column = neighbour type), ...
  C05.readback                  synthetic neighbour / weight files x row orders x Nmax
  C05.cursor                    breadth-first search over all sequences of read events on one open file
  C05.sequence                  call words over complete argument tuples of the three writers + read_neighbors (round 4, L6)
Round 4 slices inside C05.nnearest / cutoff / cutoff_type: unwrap (particles displaced by whole cell vectors, L7), zero (N = 0 / r_cut = 0
passed explicitly, L8), face (a particle exactly on the upper box face, dyadic, L4); C05.argforms: more storage forms (L5).
"""
import itertools
import json
import os

import numpy as np

from mc import alphabets as A
from mc.harness import Result, Sub, digest
from mc.ref import c03x as X3
from mc.ref import c05x as X
from mc.ref import c05y as Y
from mc.ref import neigh as NB
from mc.ref.base import mk_snaps

ASSUMPTIONS = [
    "distances follow the C02 contract (one rint per fractional coordinate); in triclinic cells configurations with a pair "
    "closer than 1e-9 to a half-cell tie are screened out",
    "jittered-lattice / cluster / gas slices: cases whose rank or cutoff decision has a margin < 1e-9 are screened out, "
    "then membership AND order are compared exactly with the full-sort reference",
    "dyadic slices (coordinates in {0,1,6}, box 8, tilts +-2, r_cut EQUAL to a pair distance): distances are exact in both "
    "implementations, membership / cn are compared bit-exactly; among exactly equidistant neighbours any order is accepted "
    "and for N-nearest any choice among equidistant candidates is accepted",
    "species ids are 1..K, all present (the library indexes the cutoff matrix by type-1); the species assignment may change per frame (same "
    "species set): the types_vary slice exposed a genuine defect (neighbour species taken from frame 0), repaired by /repo commit e3f27dd",
    "C05.scale: this slice enumerates SIZES (one deterministic generic value pattern per size and frame), not value assignments; margins are "
    "evaluated per particle: a row with a rank / cutoff / half-cell-tie margin < 1e-9 is compared for grammar, self-exclusion and duplicates "
    "only (>= 95 % of the rows of every frame must be fully comparable, otherwise the case counts as screened); the symmetry of the global "
    "cutoff relation is demanded for pairs of fully comparable rows",
    "C05.scale: a table returned by read_neighbors must keep its content when read_neighbors is called again (on the same or on another "
    "handle): outputs are functions of the inputs, a returned array must not alias a work buffer",
    "C05.scale: calling read_neighbors without Nmax means Nmax = 200 (documented default)",
    "C05.argforms: ppp may be any sequence of 0/1 (list, tuple, ndarray); position arrays may have any memory layout; N, nparticle, Nmax may be "
    "numpy integers; integer-valued cutoffs may be passed as int or float32; the file must then be byte-identical to the canonical call",
    "read_neighbors: the returned table of a neighbour list must have an integer dtype (zero-based indices usable for "
    "indexing); weight files (header without the token 'neighborlist') are returned as floats verbatim",
    "Nmax alphabet {1, m-1, m, m+1, 200} (m = largest cn of a frame), values >= 1; behaviour at end of file is not specified",
    "rows of a frame may come in any order (the reader is id-indexed); files written by the library are only required to "
    "list every id once per frame",
    "f.tell() of a text file equals the character offset (ASCII files)",
    "round 4 - unwrap slices (L7): particles displaced by 0 / +2 / -3 / +4 whole cell vectors along periodic axes (unwrapped xu coordinates) have "
    "the same minimum-image distances; the reference reduces with floor(s + 1/2) on the displaced coordinates; margins are evaluated on them",
    "round 4 - zero slices (L8): N = 0 passed explicitly means empty lists with cn = 0 (not the default 12); r_cut = 0 / 0.0 and an all-zero "
    "(int or float) cutoff matrix mean that nobody is a neighbour",
    "round 4 - face slice (L4): in the dyadic slice a particle may sit exactly on the upper face of the box (coordinate 8 = box edge); no two "
    "particles coincide through the periodic image",
    "round 4 - C05.argforms: bool / float masks, single-precision positions (coordinates rounded to float32 FIRST, canonical call = the same "
    "numbers in float64; cases with a rank / cutoff margin < 1e-3 are screened because the separations are formed in float32), Fortran-ordered "
    "cutoff matrix and h-matrix, uint8 species",
    "round 4 - dilate slices (L9): the three writers are scale-free - coordinates, cell (edges AND tilts) and cutoffs multiplied by 2^-33 or 2^27 "
    "(exact in binary floating point) must give the identical lists; reference, margins and thresholds are those of the undilated configuration",
    "C05.sequence: a call must write / return bit for bit what the same call does when made first in a fresh process - whatever was computed "
    "before, under the same file name, and also when the arrays of ONE Snapshots object are edited in place between the calls; L1 (options "
    "ignored in a mode) and L3 (selections) have no counterpart in these routines",
]

MARGIN = 1e-9
FN = "c05_list.dat"

# ============================================================================================================================
# KNOWN_OPEN - slices that expose a GENUINE DEFECT of the unchanged tree that has not been repaired yet.  They are enumerated only
# when their name is NOT listed here (or when VERIF_IGNORE_KNOWN_OPEN=1), so the registered check stays silent.  Remove the entry
# once the repair is committed in /repo.
#   "C05.cutoff_type.types_vary": cutoffneighbors_particletype builds its cutoff table from the species of FRAME 0
#       (`cutoffs[i, j] = r_cut[i, snapshots.snapshots[0].particle_type[j] - 1]`) but takes the centre's species from the current frame.
#       Witness: 2D box 10, particles (1,1),(2,1),(3,1) in two frames, species [1,1,2] then [2,1,1], r_cut = [[1.5,0.5],[0.5,0.5]]:
#       frame 1 is written as `1: -, 2: 1, 3: 2` instead of `1: -, 2: 3, 3: 2`.
#       Proposed repair: inside the per-snapshot loop `i_cutoffs = r_cut[particle_type[i] - 1, particle_type - 1]`.
KNOWN_OPEN = []  # "C05.cutoff_type.types_vary" was repaired by /repo commit e3f27dd (known_findings.json: fixed)
# ============================================================================================================================


def is_open(name):
    return name in KNOWN_OPEN and not os.environ.get("VERIF_IGNORE_KNOWN_OPEN")


# ---------------------------------------------------------------------------------------------- geometry
def cell_for(d, cell):
    L = [8.0, 9.0, 10.0][:d]
    if cell == "orth":
        return A.hmat_tri(L, [0, 0, 0][: (1 if d == 2 else 3)])
    if cell == "tri+":
        return A.hmat_tri(L, [1.5] if d == 2 else [1.5, 1.0, -2.0])
    if cell == "tri-":
        return A.hmat_tri(L, [-2.0] if d == 2 else [-1.5, -1.0, 1.0])
    raise ValueError(cell)


def dyadic_cell(d, cell):
    L = [8.0] * d
    if cell == "orth":
        return A.hmat_tri(L, [0, 0, 0][: (1 if d == 2 else 3)])
    return A.hmat_tri(L, [2.0] if d == 2 else [2.0, 0.0, -2.0])


SITES = {2: [0, 4, 8, 2, 6, 1, 5], 3: [0, 13, 26, 2, 6, 18, 8]}  # spread over the jittered 3^d lattice
DY_SITES = {
    2: [[x, y] for x in (0.0, 1.0, 6.0) for y in (0.0, 1.0, 6.0)],
    3: [[0, 0, 0], [1, 0, 0], [0, 1, 0], [0, 0, 1], [6, 0, 0], [0, 6, 0], [1, 1, 0], [6, 6, 1]],
}


def placements(seed, d, tier):
    box = [8.0, 9.0, 10.0][:d]
    pts = A.jl_points(seed, 3, d, box, tag=f"C05_{d}")
    idx = SITES[d][: (7 if tier == "thorough" else 6)]
    out = []
    for n in range(2, len(idx) + 1):
        for sub in itertools.combinations(idx, n):
            out.append(("jl", [pts[i] for i in sub]))
    cl = (np.array(A.generic_points(seed, 5, d, tag=f"C05cl{d}")) * 1.5 + 3.0).tolist()
    out.append(("cluster", cl))
    gas = (np.array(A.generic_points(seed, 6, d, tag=f"C05gas{d}")) * np.array(box)).tolist()
    out.append(("gas", gas))
    return out


def large_placement(seed, d):
    """More than 16 particles (numpy's partition stops being a full sort): 25 (2D, 5x5) / 27 (3D, 3x3x3) jittered sites."""
    box = [8.0, 9.0, 10.0][:d]
    return A.jl_points(seed, 5 if d == 2 else 3, d, box, tag=f"C05L{d}")


LARGE_GEOMS = {2: [("orth", [1, 1]), ("tri+", [1, 1]), ("orth", [1, 0])], 3: [("orth", [1, 1, 1]), ("tri-", [1, 1, 1]), ("tri+", [0, 1, 1])]}


def dyadic_placements(d, tier):
    s = DY_SITES[d]
    out = []
    for n in (3, 4):
        for sub in itertools.combinations(range(len(s)), n):
            out.append([[float(x) for x in s[i]] for i in sub])
    if tier == "thorough":
        for sub in itertools.combinations(range(len(s)), 5):
            out.append([[float(x) for x in s[i]] for i in sub])
    return out


DILATE = (-33, 27)    # (round 4, L9) exponents of the exact binary dilations (SI-like 1e-10 and 1e8 length units)


def upper_face(pts, axis):
    """dyadic placement with the coordinate 0 (lower face) of `axis` replaced by 8 = the box edge (upper face); differences stay in
    {1, 2, 5, 7}: no half-cell tie, no coincident particles"""
    return [[8.0 if (a == axis and x == 0.0) else x for a, x in enumerate(p)] for p in pts]


def more_frames(seed, base, F, d, tag):
    fr = [np.array(base, float)]
    for f in range(1, F):
        jit = np.array([[A.jitter(seed, f"{tag}{f}_{i}", a, 0.9) for a in range(d)] for i in range(len(base))])
        fr.append(fr[0] + jit)
    return [x.tolist() for x in fr]


TILT_SEQ = {"scale": [1.0, -1.0, 0.5], "orth_first": [0.0, 1.0, -1.0], "orth_later": [1.0, 0.0, -0.5]}


def varying_cells(H, F, mode="scale"):
    """frame f: edge lengths scaled per axis by dyadic factors, tilts scaled by (1, -1, 1/2, ...); modes orth_first / orth_later: the
    first (a later) frame of a tilted trajectory is orthogonal - a shear run started from (passing through) the undeformed box"""
    H = np.array(H, float)
    d = len(H)
    out = []
    for f in range(F):
        sc = np.array([[1.0, 1.0, 1.0], [1.25, 0.875, 1.125], [0.875, 1.25, 1.0]][f % 3][:d])
        tf = TILT_SEQ[mode][f % 3]
        Hf = np.diag(np.diag(H) * sc) + (H - np.diag(np.diag(H))) * tf
        out.append(Hf.tolist())
    return out


def frame_counts(name, mask, cell):
    """F = 1 everywhere; three different frames where the mask is fully periodic (deviation bound on the mask axis)."""
    return (1, 3) if all(mask) and name in ("jl", "cluster") else (1,)


# ---------------------------------------------------------------------------------------------- generators
def gen_nnearest(tier, seed):
    for d in (3, 2):
        pl = placements(seed, d, tier)
        for cell in ("orth", "tri+", "tri-"):
            H = cell_for(d, cell)
            for mask in A.masks(d):
                for pi, (name, pts) in enumerate(pl):
                    for F in frame_counts(name, mask, cell):
                        if F > 1 and pi % 4:
                            continue
                        frames = more_frames(seed, pts, F, d, f"nn{d}{pi}")
                        for N in range(1, len(pts)):
                            yield {"kind": "nn", "slice": name, "d": d, "cell": cell, "H": H.tolist(), "ppp": mask,
                                   "frames": frames, "N": N}
                            if F > 1:
                                # the cell changes from frame to frame (volume and tilt: NPT / sheared trajectories)
                                yield {"kind": "nn", "slice": name, "d": d, "cell": cell, "H": H.tolist(), "H_frames": varying_cells(H, F),
                                       "ppp": mask, "frames": frames, "N": N}
                                if cell != "orth":
                                    for cm in ("orth_first", "orth_later"):
                                        yield {"kind": "nn", "slice": name, "d": d, "cell": cell, "H": H.tolist(), "H_frames": varying_cells(H, F, cm),
                                               "cellseq": cm, "ppp": mask, "frames": frames, "N": N}
                            if any(mask) and (pi % 3 == 0 or F > 1):
                                # (round 4, L7) unwrapped coordinates: particles displaced by +2 / -3 / +4 whole cell vectors along periodic axes
                                yield {"kind": "nn", "slice": name, "d": d, "cell": cell, "H": H.tolist(), "ppp": mask, "frames": frames, "N": N, "unwrap": True}
                                if F > 1:
                                    yield {"kind": "nn", "slice": name, "d": d, "cell": cell, "H": H.tolist(), "H_frames": varying_cells(H, F), "ppp": mask,
                                           "frames": frames, "N": N, "unwrap": True}
                        if pi % 3 == 1 or F > 1:
                            # (round 4, L9) the whole configuration (coordinates, cell incl. tilts) dilated by 2^-33 / 2^27: identical lists
                            for e in DILATE:
                                for N in range(1, len(pts)):
                                    c = {"kind": "nn", "slice": name, "d": d, "cell": cell, "H": H.tolist(), "ppp": mask, "frames": frames, "N": N, "dilate": e}
                                    yield dict(c, H_frames=varying_cells(H, F)) if F > 1 else c
                        if F == 1 and pi % 4 == 0:
                            # (round 4, L8) N = 0 passed explicitly: empty lists, not the default N = 12
                            yield {"kind": "nn", "slice": name, "d": d, "cell": cell, "H": H.tolist(), "ppp": mask, "frames": frames, "N": 0, "zero": True}
        big = large_placement(seed, d)
        for cell, mask in LARGE_GEOMS[d]:
            for N in ((1, 6, 12, len(big) - 1) if tier == "quick" else range(1, len(big))):
                yield {"kind": "nn", "slice": "large", "d": d, "cell": cell, "H": cell_for(d, cell).tolist(), "ppp": mask,
                       "frames": [big], "N": N}
        # dyadic lattice: many exactly equal distances - any valid choice among equidistant candidates is accepted
        dp = dyadic_placements(d, tier)
        for cell in ("orth", "tri"):
            H = dyadic_cell(d, cell)
            for mask in A.masks(d):
                for pts in dp:
                    for N in range(1, len(pts)):
                        yield {"kind": "nn", "slice": "dyadic", "d": d, "cell": cell, "H": H.tolist(), "ppp": mask,
                               "frames": [pts], "N": N}
                for k, pts in enumerate(dp[::4]):
                    for N in range(1, len(pts)):
                        if any(mask):
                            yield {"kind": "nn", "slice": "dyadic", "d": d, "cell": cell, "H": H.tolist(), "ppp": mask, "frames": [pts], "N": N, "unwrap": True}
                        # (round 4, L4) the particles with coordinate 0 on one axis sit exactly on the UPPER face of that axis instead
                        yield {"kind": "nn", "slice": "dyadic", "d": d, "cell": cell, "H": H.tolist(), "ppp": mask, "frames": [upper_face(pts, k % d)], "N": N,
                               "face": True}


def gen_cutoff(tier, seed):
    for d in (3, 2):
        pl = placements(seed, d, tier)
        for cell in ("orth", "tri+", "tri-"):
            H = cell_for(d, cell)
            for mask in A.masks(d):
                for pi, (name, pts) in enumerate(pl):
                    D = NB.dist_table(pts, H, mask)
                    rcs = NB.midpoint_cutoffs(D)
                    for F in frame_counts(name, mask, cell):
                        if F > 1 and pi % 4:
                            continue
                        frames = more_frames(seed, pts, F, d, f"cut{d}{pi}")
                        for rc in (rcs if F == 1 else rcs[1:-1:3]):
                            yield {"kind": "cut", "slice": name, "d": d, "cell": cell, "H": H.tolist(), "ppp": mask,
                                   "frames": frames, "rc": rc}
                            if F > 1:
                                yield {"kind": "cut", "slice": name, "d": d, "cell": cell, "H": H.tolist(), "H_frames": varying_cells(H, F),
                                       "ppp": mask, "frames": frames, "rc": rc}
                                if cell != "orth":
                                    for cm in ("orth_first", "orth_later"):
                                        yield {"kind": "cut", "slice": name, "d": d, "cell": cell, "H": H.tolist(), "H_frames": varying_cells(H, F, cm),
                                               "cellseq": cm, "ppp": mask, "frames": frames, "rc": rc}
                        if any(mask) and (pi % 3 == 0 or F > 1):
                            for rc in (rcs[1:-1:2] if F == 1 else rcs[1:-1:3]):     # (round 4, L7) unwrapped coordinates
                                yield {"kind": "cut", "slice": name, "d": d, "cell": cell, "H": H.tolist(), "ppp": mask, "frames": frames, "rc": rc, "unwrap": True}
                                if F > 1:
                                    yield {"kind": "cut", "slice": name, "d": d, "cell": cell, "H": H.tolist(), "H_frames": varying_cells(H, F), "ppp": mask,
                                           "frames": frames, "rc": rc, "unwrap": True}
                        if pi % 3 == 1 or F > 1:
                            for e in DILATE:         # (round 4, L9) coordinates, cell and cutoff dilated by 2^-33 / 2^27: identical lists
                                for rc in (rcs[1:-1:2] if F == 1 else rcs[1:-1:3]):
                                    c = {"kind": "cut", "slice": name, "d": d, "cell": cell, "H": H.tolist(), "ppp": mask, "frames": frames, "rc": rc, "dilate": e}
                                    yield dict(c, H_frames=varying_cells(H, F)) if F > 1 else c
                        if F == 1 and pi % 4 == 0:
                            for rc in (0, 0.0):      # (round 4, L8) an explicit zero cutoff: nobody is a neighbour
                                yield {"kind": "cut", "slice": name, "d": d, "cell": cell, "H": H.tolist(), "ppp": mask, "frames": frames, "rc": rc, "zero": True}
        big = large_placement(seed, d)
        for cell, mask in LARGE_GEOMS[d]:
            H = cell_for(d, cell)
            rcs = NB.midpoint_cutoffs(NB.dist_table(big, H, mask))
            for rc in rcs[:: (40 if tier == "quick" else 8)]:
                yield {"kind": "cut", "slice": "large", "d": d, "cell": cell, "H": H.tolist(), "ppp": mask, "frames": [big], "rc": rc}
        dp = dyadic_placements(d, tier)
        for cell in ("orth", "tri"):
            H = dyadic_cell(d, cell)
            for mask in A.masks(d):
                for pts in dp:
                    D = NB.dist_table(pts, H, mask)
                    for rc in NB.pair_distances(D):  # r_cut EQUALS a pair distance: the boundary is inclusive
                        yield {"kind": "cut", "slice": "dyadic", "d": d, "cell": cell, "H": H.tolist(), "ppp": mask,
                               "frames": [pts], "rc": rc}
                for k, pts in enumerate(dp[::4]):
                    if any(mask):
                        for rc in NB.pair_distances(NB.dist_table(pts, H, mask)):
                            yield {"kind": "cut", "slice": "dyadic", "d": d, "cell": cell, "H": H.tolist(), "ppp": mask, "frames": [pts], "rc": rc, "unwrap": True}
                    fp = upper_face(pts, k % d)
                    for rc in NB.pair_distances(NB.dist_table(fp, H, mask)):
                        yield {"kind": "cut", "slice": "dyadic", "d": d, "cell": cell, "H": H.tolist(), "ppp": mask, "frames": [fp], "rc": rc, "face": True}


_PATTERNS = {}


def matrices(K, vals, maxdev):
    """All K x K matrices over `vals`; with maxdev: only those with <= maxdev entries different from vals[1]."""
    key = (K, len(vals), maxdev)
    if key not in _PATTERNS:
        _PATTERNS[key] = [m for m in itertools.product(range(len(vals)), repeat=K * K)
                          if maxdev is None or sum(1 for x in m if x != 1) <= maxdev]
    for m in _PATTERNS[key]:
        yield [[vals[m[a * K + b]] for b in range(K)] for a in range(K)]


def three_levels(D):
    """nobody / about half of the pairs / everybody, each with a margin (mid-points of the sorted pair distances)."""
    d = NB.pair_distances(D)
    k = len(d) // 2
    return [0.5 * d[0], 0.5 * (d[k - 1] + d[k]), d[-1] + 0.5]


def gen_cutoff_type(tier, seed):
    for d in (3, 2):
        pl = [p for p in placements(seed, d, "quick") if p[0] == "jl"]
        by_n = {}
        for name, pts in pl:
            by_n.setdefault(len(pts), pts)  # first placement of each size
        geoms = [("orth", [1] * d), ("tri+", [1] * d), ("orth", [1] + [0] * (d - 1)), ("tri-", [0] + [1] * (d - 1))]
        for cell, mask in geoms:
            H = cell_for(d, cell)
            plan = [(3, 1, None), (3, 2, None), (4, 2, None), (3, 3, 2), (4, 3, 1)]
            if tier == "thorough":
                plan = [(3, 1, None), (3, 2, None), (4, 2, None), (5, 2, None), (3, 3, None), (4, 3, None)]
            for n, K, maxdev in plan:
                pts = by_n[n]
                D = NB.dist_table(pts, H, mask)
                vals = three_levels(D)
                for types in A.surjections(n, K):
                    if K == 3 and maxdev is None:
                        # thorough K=3: all 2^9 matrices over {half, everybody} and all 2^9 over {nobody, half}
                        seen = set()
                        for pair in ([vals[1], vals[2]], [vals[0], vals[1]]):
                            for m in itertools.product(pair, repeat=9):
                                if m in seen:
                                    continue
                                seen.add(m)
                                Rm = [list(m[0:3]), list(m[3:6]), list(m[6:9])]
                                yield {"kind": "type", "slice": "jl", "d": d, "cell": cell, "H": H.tolist(), "ppp": mask,
                                       "frames": [pts], "types": types, "R": Rm}
                        continue
                    for Rm in matrices(K, vals, maxdev):
                        yield {"kind": "type", "slice": "jl", "d": d, "cell": cell, "H": H.tolist(), "ppp": mask,
                               "frames": [pts], "types": types, "R": Rm}
            # multi-frame: the matrix is applied to every frame's own positions
            pts = by_n[4]
            D = NB.dist_table(pts, H, mask)
            vals = three_levels(D)
            for types in A.surjections(4, 2):
                for Rm in matrices(2, vals, 2):
                    yield {"kind": "type", "slice": "jl", "d": d, "cell": cell, "H": H.tolist(), "ppp": mask,
                           "frames": more_frames(seed, pts, 3, d, f"ty{d}"), "types": types, "R": Rm}
                    yield {"kind": "type", "slice": "jl", "d": d, "cell": cell, "H": H.tolist(), "H_frames": varying_cells(H, 3), "ppp": mask,
                           "frames": more_frames(seed, pts, 3, d, f"ty{d}"), "types": types, "R": Rm}
                    if cell != "orth" and all(mask):
                        for cm in ("orth_first", "orth_later"):
                            yield {"kind": "type", "slice": "jl", "d": d, "cell": cell, "H": H.tolist(), "H_frames": varying_cells(H, 3, cm), "cellseq": cm,
                                   "ppp": mask, "frames": more_frames(seed, pts, 3, d, f"ty{d}"), "types": types, "R": Rm}
                    for e in (DILATE if types[0] == 1 and types[-1] == 2 else ()):   # (round 4, L9) coordinates, cells and cutoff matrix dilated by 2^-33 / 2^27
                        yield {"kind": "type", "slice": "jl", "d": d, "cell": cell, "H": H.tolist(), "H_frames": varying_cells(H, 3), "ppp": mask,
                               "frames": more_frames(seed, pts, 3, d, f"ty{d}"), "types": types, "R": Rm, "dilate": e}
                    if any(mask):      # (round 4, L7) unwrapped coordinates, the cell changing per frame
                        yield {"kind": "type", "slice": "jl", "d": d, "cell": cell, "H": H.tolist(), "H_frames": varying_cells(H, 3), "ppp": mask,
                               "frames": more_frames(seed, pts, 3, d, f"ty{d}"), "types": types, "R": Rm, "unwrap": True}
                    if not is_open("C05.cutoff_type.types_vary"):
                        # the species attached to the ids change from frame to frame (same composition, rotated assignment)
                        yield {"kind": "type", "slice": "jl", "d": d, "cell": cell, "H": H.tolist(), "ppp": mask,
                               "frames": more_frames(seed, pts, 3, d, f"ty{d}"), "types": types,
                               "types_frames": [types[f:] + types[:f] for f in range(3)], "R": Rm}
            # (round 4, L8) an explicit all-zero cutoff matrix (int and float storage)
            for types in A.surjections(4, 2):
                for zdt in ("int", "float"):
                    yield {"kind": "type", "slice": "jl", "d": d, "cell": cell, "H": H.tolist(), "ppp": mask, "frames": [pts], "types": types,
                           "R": [[0, 0], [0, 0]] if zdt == "int" else [[0.0, 0.0], [0.0, 0.0]], "zero": True, "R_int": zdt == "int"}
    # dyadic: matrix entries EQUAL to pair distances
    d = 2
    dp = dyadic_placements(2, "quick")
    four = [p for p in dp if len(p) == 4]
    pick = four[:: (18 if tier == "quick" else 3)]
    for cell in ("orth", "tri"):
        H = dyadic_cell(d, cell)
        for mask in ([1, 1], [1, 0]):
            for pts in pick:
                D = NB.dist_table(pts, H, mask)
                vals = NB.pair_distances(D)[:3]
                if len(vals) < 2:
                    continue
                for types in ([1, 2, 1, 2], [1, 1, 2, 2], [2, 1, 1, 1]):
                    for m in itertools.product(vals, repeat=4):
                        yield {"kind": "type", "slice": "dyadic", "d": d, "cell": cell, "H": H.tolist(), "ppp": mask,
                               "frames": [pts], "types": types, "R": [list(m[:2]), list(m[2:])]}


# ---------------------------------------------------------------------------------------------- E1 oracle
RUNNER = {"nn": "C05.nnearest", "cut": "C05.cutoff", "type": "C05.cutoff_type"}


def call_library(case, snaps, fn):
    from PyMatterSim.neighbors.calculate_neighbors import Nnearests, cutoffneighbors, cutoffneighbors_particletype

    ppp = np.array(case["ppp"])
    if case["kind"] == "nn":
        Nnearests(snaps, N=case["N"], ppp=ppp, fnfile=fn)
    elif case["kind"] == "cut":
        cutoffneighbors(snaps, r_cut=case["rc"], ppp=ppp, fnfile=fn)
    else:
        cutoffneighbors_particletype(snaps, r_cut=np.array(case["R"], int if case.get("R_int") else float), ppp=ppp, fnfile=fn)


def thresholds(case, n):
    if case["kind"] == "cut":
        return np.full((n, n), float(case["rc"]))
    if case["kind"] == "type":
        return NB.type_thresholds(case["types"], case["R"])
    return None


def run_calc(case):
    from PyMatterSim.neighbors.read_neighbors import read_neighbors

    R = Result()
    d, kind, sl = case["d"], case["kind"], case["slice"]
    H = np.array(case["H"], float)
    ppp = case["ppp"]
    frames = [np.array(f, float) for f in case["frames"]]
    n = len(frames[0])
    types = case.get("types") or [1] * n
    me = RUNNER[kind]
    sig = {"kind": kind, "slice": sl, "d": d, "cell": case["cell"], "F": len(frames), "masked": 0 in ppp}
    if kind == "type":
        Rm = np.array(case["R"], float)
        sig["K"] = len(Rm)
        sig["asym"] = bool((Rm != Rm.T).any())
    tf = case.get("types_frames") or [types] * len(frames)
    if case.get("types_frames"):
        sig["types_vary"] = True
    thrs = [thresholds(dict(case, types=t_), n) for t_ in tf]
    Hf = [np.array(h, float) for h in case["H_frames"]] if case.get("H_frames") else [H] * len(frames)
    if case.get("H_frames"):
        sig["cell_varies"] = case.get("cellseq", True)
    for k in ("unwrap", "zero", "face"):
        if case.get(k):
            sig[k] = True
    dil = 2.0 ** case["dilate"] if case.get("dilate") else 1.0
    if case.get("dilate"):
        sig["dilate"] = "tiny" if case["dilate"] < 0 else "huge"
    if case.get("unwrap"):
        frames = Y.unwrap(frames, Hf, ppp)
    tables = [NB.dist_table(p, h, ppp) for p, h in zip(frames, Hf)]
    # ---- margins: screen BEFORE the implementation runs
    if sl != "dyadic":
        for p, D, h, thr in zip(frames, tables, Hf, thrs):
            m = min(NB.rank_margin(D), NB.self_margin(D))
            if thr is not None:
                m = min(m, NB.cut_margin(D, thr))
            if case["cell"] != "orth":
                m = min(m, NB.geometry_margin(p, h, ppp))
            if m < MARGIN:
                return R.screen()
    # the reference lists, margins and thresholds are those of the UNDILATED configuration: a dilation by a power of two is exact in
    # binary floating point, so every distance scales exactly and the lists must be identical
    snaps = mk_snaps([p * dil for p in frames], (np.array(Hf) if case.get("H_frames") else H) * dil, tf if case.get("types_frames") else types)
    before = [s.positions.copy() for s in snaps.snapshots]
    lib_case = case
    if dil != 1.0:
        lib_case = dict(case, **({"rc": case["rc"] * dil} if kind == "cut" else ({"R": (np.array(case["R"], float) * dil).tolist()} if kind == "type" else {})))
    call_library(lib_case, snaps, FN)
    with open(FN) as f:
        text = f.read()
    parsed, problems = NB.parse_listfile(text)
    for pr in problems:
        R.fail(f"file grammar: {pr}", sig=dict(sig, clause="file"), sub="C05.file")
    if len(parsed) != len(frames):
        R.fail(f"{len(parsed)} frame headers for {len(frames)} frames", sig=dict(sig, clause="file"), sub="C05.file")
        os.remove(FN)
        return R
    all_lists = []
    populated = 0
    for t, (fr, D) in enumerate(zip(parsed, tables)):
        if "neighborlist" not in fr["header"]:
            R.fail(f"frame {t}: header {fr['header']} lacks 'neighborlist'", sig=dict(sig, clause="file"), sub="C05.file")
        lists1, pr = NB.frame_lists(fr, n)
        for x in pr:
            R.fail(f"frame {t}: {x}", sig=dict(sig, clause="file"), sub="C05.file")
        lists = [[j - 1 for j in l] for l in lists1]
        all_lists.append(lists)
        if any(j < 0 or j >= n for l in lists for j in l):
            R.fail(f"frame {t}: neighbour id outside 1..{n}", sig=dict(sig, clause="file"), sub="C05.file", obs=lists1)
            continue
        if kind == "nn":
            exp = NB.ref_nnearest(D, case["N"])
        elif kind == "cut":
            exp = NB.ref_cutoff(D, case["rc"])
        else:
            exp = NB.ref_cutoff_type(D, tf[t], case["R"])
        thr = thrs[t]
        for i in range(n):
            got = lists[i]
            populated += len(got)
            if i in got:
                R.fail(f"frame {t}: particle {i + 1} lists itself", sig=dict(sig, clause="noself"), sub="C05.noself",
                       exp=[j + 1 for j in exp[i]], obs=[j + 1 for j in got])
            if len(set(got)) != len(got):
                R.fail(f"frame {t}: particle {i + 1} lists a neighbour twice", sig=dict(sig, clause="duplicate"), sub=me, obs=got)
            dist = [D[i, j] for j in got]
            if sl == "dyadic":
                # exact arithmetic: membership decided by the exact distances, ties may be resolved either way
                if kind == "nn":
                    rest = [D[i, j] for j in range(n) if j != i and j not in got]
                    okm = len(got) == case["N"] and (not rest or not dist or max(dist) <= min(rest))
                else:
                    okm = set(got) == {j for j in range(n) if j != i and D[i, j] <= thr[i, j]}
                if not okm:
                    R.fail(f"frame {t}: particle {i + 1}: wrong members (exact dyadic distances, boundary inclusive)",
                           sig=dict(sig, clause="members"), sub=me,
                           exp={"dist_row": D[i].tolist(), "thr": None if thr is None else thr[i].tolist()}, obs=[j + 1 for j in got])
                if any(b < a for a, b in zip(dist, dist[1:])):
                    R.fail(f"frame {t}: particle {i + 1}: not ordered by increasing distance", sig=dict(sig, clause="order"),
                           sub="C05.order", obs={"ids": [j + 1 for j in got], "dist": dist})
            else:
                if set(got) != set(exp[i]):
                    R.fail(f"frame {t}: particle {i + 1}: wrong members", sig=dict(sig, clause="members"), sub=me,
                           exp=[j + 1 for j in exp[i]], obs=[j + 1 for j in got])
                elif got != exp[i]:
                    R.fail(f"frame {t}: particle {i + 1}: not ordered by increasing distance", sig=dict(sig, clause="order"),
                           sub="C05.order", exp=[j + 1 for j in exp[i]], obs=[j + 1 for j in got])
        if kind == "cut":
            for i in range(n):
                for j in lists[i]:
                    if i not in lists[j]:
                        R.fail(f"frame {t}: {j + 1} is a neighbour of {i + 1} but not vice versa", sig=dict(sig, clause="symmetric"),
                               sub="C05.symmetric", obs=lists1)
    # ---- reading the written file back, frame by frame, from one open handle
    with open(FN) as f:
        for t, lists in enumerate(all_lists):
            tab = read_neighbors(f, n, 200)
            exp = NB.ref_read([[j + 1 for j in l] for l in lists], n, 200, True)
            if tab.shape != exp.shape or not np.array_equal(tab, exp) or tab.dtype.kind not in "iu":
                R.fail(f"frame {t}: read_neighbors(Nmax=200) differs from the file content", sig=dict(sig, clause="readback"),
                       sub="C05.readback", exp=exp, obs={"dtype": str(tab.dtype), "table": tab})
        if f.readline() != "":
            R.fail("data left after the last frame", sig=dict(sig, clause="readback"), sub="C05.readback")
    for s, b in zip(snaps.snapshots, before):
        if not np.array_equal(s.positions, b):
            R.fail("snapshot positions modified", sig=dict(sig, clause="input_modified"), sub=me)
    os.remove(FN)
    R.outcome(all_lists)
    R.nontrivial = populated > 0
    R.elem = n * len(frames)
    return R


# ---------------------------------------------------------------------------------------------- synthetic files
NL_HEADERS = ["id     cn     neighborlist", "id   cn   neighborlist"]
W_HEADERS = ["id   cn   edgelengthlist", "id   cn   facearealist"]
WVALS = [0.5, 1.0, -2.25, 7.125, 0.001953125, 12345.678]


def weight_of(i, k):
    return WVALS[(2 * i + k) % len(WVALS)]


def write_frames(path, frames, header, is_nl, orders):
    """frames: per frame, per particle the list of 0-based neighbour ids (topology); orders: row order per frame."""
    with open(path, "w") as f:
        for fr, order in zip(frames, orders):
            f.write(header + "\n")
            for i in order:
                nb = fr[i]
                if is_nl:
                    f.write(f"{i + 1} {len(nb)} " + " ".join(str(j + 1) for j in nb) + "\n")
                else:
                    f.write(f"{i + 1} {len(nb)} " + " ".join(repr(weight_of(i, k)) for k in range(len(nb))) + "\n")


def values_of(fr, is_nl):
    """The values the file holds per particle id (1-based ids for neighbour lists)."""
    return [[float(j + 1) for j in nb] if is_nl else [weight_of(i, k) for k in range(len(nb))] for i, nb in enumerate(fr)]


def ordered_sublists(others, maxlen):
    out = [[]]
    for r in range(1, maxlen + 1):
        out += [list(p) for p in itertools.permutations(others, r)]
    return out


def gen_readback(tier, seed):
    headers = [(h, True) for h in NL_HEADERS] + [(h, False) for h in W_HEADERS]
    # n = 3: every particle lists any ordered selection of the others (5 choices each, 125 topologies), every row order
    n = 3
    per = [ordered_sublists([j for j in range(n) if j != i], 2) for i in range(n)]
    for topo in itertools.product(*per):
        topo = [list(x) for x in topo]
        m = max(len(x) for x in topo)
        for order in itertools.permutations(range(n)):
            for header, is_nl in headers:
                for Nmax in sorted({1, m - 1, m, m + 1, 200} - {0, -1}):
                    yield {"n": n, "topo": topo, "order": list(order), "header": header, "nl": is_nl, "Nmax": Nmax}
    # n = 4 (5 thorough): every coordination pattern {0..n-1}^n (lists = the next cn ids cyclically), rotated row orders
    for n in ((4, 5) if tier == "thorough" else (4,)):
        orders = list(itertools.permutations(range(n))) if (tier == "thorough" and n == 4) else [
            list(range(n)), list(range(n))[::-1], [(i + 1) % n for i in range(n)]]
        for cns in itertools.product(range(n), repeat=n):
            topo = [[(i + 1 + k) % n for k in range(c)] for i, c in enumerate(cns)]
            m = max(cns)
            for order in orders:
                for header, is_nl in (headers[0], headers[2]):
                    for Nmax in sorted({1, m - 1, m, m + 1, 200} - {0, -1}):
                        yield {"n": n, "topo": topo, "order": list(order), "header": header, "nl": is_nl, "Nmax": Nmax}


def compare_table(R, tab, exp, is_nl, sig, what, sub):
    okd = tab.dtype.kind in "iu" if is_nl else tab.dtype.kind == "f"
    if tab.shape != exp.shape:
        R.fail(f"{what}: shape {tab.shape}, expected {exp.shape} (cn column + largest capped cn)", sig=dict(sig, clause="shape"), sub=sub,
               exp=exp, obs=tab)
        return False
    if not np.array_equal(np.asarray(tab, float), exp):
        bad = np.argwhere(np.asarray(tab, float) != exp)[0]
        clause = "cn" if bad[1] == 0 else "values"
        R.fail(f"{what}: entry {bad.tolist()} is {tab[tuple(bad)]!r}, expected {exp[tuple(bad)]!r}", sig=dict(sig, clause=clause), sub=sub,
               exp=exp, obs=tab)
        return False
    if not okd:
        R.fail(f"{what}: dtype {tab.dtype} ({'integer' if is_nl else 'float'} expected)", sig=dict(sig, clause="dtype"), sub=sub)
        return False
    return True


def run_readback(case):
    from PyMatterSim.neighbors.read_neighbors import read_neighbors

    R = Result()
    n, is_nl, Nmax = case["n"], case["nl"], case["Nmax"]
    topo = case["topo"]
    m = max(len(x) for x in topo)
    sig = {"file": "neighborlist" if is_nl else "weights", "rows_in_id_order": case["order"] == sorted(case["order"]),
           "Nmax": "below" if Nmax < m else ("equal" if Nmax == m else "above")}
    write_frames(FN, [topo], case["header"], is_nl, [case["order"]])
    exp = NB.ref_read(values_of(topo, is_nl), n, Nmax, is_nl)
    with open(FN) as f:
        tab = read_neighbors(f, n, Nmax)
        rest = f.read()
    compare_table(R, tab, exp, is_nl, sig, "one frame", "C05.readback")
    if rest != "":
        R.fail("cursor not at end of file after the only frame", sig=dict(sig, clause="cursor"), sub="C05.cursor")
    os.remove(FN)
    R.outcome({"t": np.asarray(tab, float), "k": tab.dtype.kind})
    R.nontrivial = m > 0
    R.elem = n
    return R


# ---------------------------------------------------------------------------------------------- E2: read histories
TOPOS3 = [
    [[], [], []],                       # empty neighbourhoods
    [[1], [2], [0]],                    # ring, cn 1
    [[1, 2], [2, 0], [0, 1]],           # complete, cn 2
    [[2, 1], [], [1]],                  # mixed cn 2/0/1
]
TOPOS4 = [
    [[1, 2, 3], [0], [], [2, 0]],       # cn 3/1/0/2
    [[3], [3], [3], [0, 1, 2]],
]


def gen_cursor(tier, seed):
    # (a) synthetic multi-frame files: every sequence of F frame topologies, F = 1..3
    for n, topos in ((3, TOPOS3), (4, TOPOS4)):
        for F in (1, 2, 3):
            for seq in itertools.product(range(len(topos)), repeat=F):
                for header, is_nl in ((NL_HEADERS[0], True), (W_HEADERS[0], False)):
                    rot = [[(i + t) % n for i in range(n)] for t in range(F)]  # row order rotates from frame to frame
                    yield {"src": "synthetic", "n": n, "frames": [topos[k] for k in seq], "orders": rot, "header": header, "nl": is_nl}
    # (b) files written by the library from F different frames
    for d in (2, 3):
        pl = [p for p in placements(seed, d, "quick") if p[0] == "jl"]
        sizes = (4, 5) if tier == "quick" else (3, 4, 5, 6)
        for n in sizes:
            pts = [p for p in pl if len(p[1]) == n][0][1]
            for cell in ("orth", "tri+"):
                H = cell_for(d, cell)
                D = NB.dist_table(pts, H, [1] * d)
                lv = three_levels(D)
                for F in (1, 2, 3):
                    frames = more_frames(seed, pts, F, d, f"cur{d}{n}")
                    base = {"src": "library", "d": d, "cell": cell, "H": H.tolist(), "ppp": [1] * d, "frames": frames, "slice": "jl"}
                    yield dict(base, kind="nn", N=2)
                    if n - 1 != 2:
                        yield dict(base, kind="nn", N=n - 1)
                    yield dict(base, kind="cut", rc=lv[1])
                    yield dict(base, kind="type", types=[1 + (i % 2) for i in range(n)], R=[[lv[1], lv[2]], [lv[0], lv[1]]])


def run_cursor(case):
    from PyMatterSim.neighbors.read_neighbors import read_neighbors

    R = Result()
    if case["src"] == "synthetic":
        n, is_nl = case["n"], case["nl"]
        write_frames(FN, case["frames"], case["header"], is_nl, case["orders"])
        sig = {"src": "synthetic", "file": "neighborlist" if is_nl else "weights", "F": len(case["frames"])}
    else:
        frames = [np.array(f, float) for f in case["frames"]]
        n, is_nl = len(frames[0]), True
        H = np.array(case["H"], float)
        for p in frames:
            D = NB.dist_table(p, H, case["ppp"])
            thr = thresholds(case, n)
            m = min(NB.rank_margin(D), NB.self_margin(D), NB.geometry_margin(p, H, case["ppp"]) if case["cell"] != "orth" else 1.0)
            if thr is not None:
                m = min(m, NB.cut_margin(D, thr))
            if m < MARGIN:
                return R.screen()
        call_library(case, mk_snaps(frames, H, case.get("types") or [1] * n), FN)
        sig = {"src": "library", "kind": case["kind"], "F": len(frames)}
    with open(FN) as f:
        text = f.read()
    parsed, problems = NB.parse_listfile(text)
    F = len(case["frames"])
    if problems or len(parsed) != F:
        R.fail(f"file grammar: {problems or len(parsed)}", sig=dict(sig, clause="file"), sub="C05.file")
        os.remove(FN)
        return R
    vals = [NB.frame_lists(fr, n, as_float=True)[0] for fr in parsed]   # own tokenizer; values as written
    offsets = [fr["start"] for fr in parsed] + [len(text)]
    alphabet = NB.nmax_alphabet(vals)
    # breadth-first search over ALL event sequences (no pruning: independence from earlier events is the claim).  A state is
    # rebuilt from its history on a fresh handle; its digest is (cursor, table returned by the last event).
    frontier = [()]
    seen = {digest(["init", 0])}
    transitions = 0
    for depth in range(F):
        nxt = []
        for h in frontier:
            for nm in alphabet:
                h2 = h + (nm,)
                with open(FN) as f:
                    for x in h2:
                        tab = read_neighbors(f, n, x)
                    pos = f.tell()
                    at_end = None
                    if depth == F - 1:
                        at_end = f.readline() == ""
                transitions += 1
                seen.add(digest([depth, pos, np.asarray(tab, float).tolist(), tab.dtype.kind]))
                m = max(len(l) for l in vals[depth])
                s2 = dict(sig, Nmax="below" if nm < m else ("equal" if nm == m else "above"),
                          earlier="none" if not h else ("same" if all(x == nm for x in h) else "different"))
                exp = NB.ref_read(vals[depth], n, nm, is_nl)
                compare_table(R, tab, exp, is_nl, s2, f"event sequence Nmax={list(h2)}: frame {depth}", "C05.cursor")
                if pos != offsets[depth + 1]:
                    R.fail(f"event sequence Nmax={list(h2)}: cursor at {pos}, next header at {offsets[depth + 1]}",
                           sig=dict(s2, clause="cursor"), sub="C05.cursor")
                if at_end is False:
                    R.fail(f"event sequence Nmax={list(h2)}: data left after the last frame", sig=dict(s2, clause="cursor"), sub="C05.cursor")
                nxt.append(h2)
        frontier = nxt
    os.remove(FN)
    R.states = len(seen)
    R.transitions = transitions
    R.elem = transitions * n
    R.outcome([text, len(seen)])
    R.nontrivial = F >= 2 and any(len(l) for fr in vals for l in fr)
    return R


# ---------------------------------------------------------------------------------------------- scale slice
# Sizes straddling 64 / 128 / 256 and ids with 3-4 digits.  This slice enumerates SIZES (and rotates the geometries over them); there
# is one fixed, deterministic value pattern per size.  Margins are evaluated per particle (mc/ref/c05x.py).
SCALE_NP = {"quick": [65, 130, 257, 1000], "thorough": [64, 65, 128, 130, 257, 1000]}
SCALE_NN = [1, 12, 63, 64, 65, "all"]
FW = "c05_weights.dat"
MIN_CLEAN = 0.95


def scale_geoms(d):
    full = [1] * d
    p1 = [1, 0] if d == 2 else [0, 1, 1]
    p2 = [0, 1] if d == 2 else [1, 0, 1]
    return [("orthp", full, 1), ("tri+", full, 3), ("tri-", p1, 1), ("orthp", p2, 3), ("tri-", full, 3), ("tri+", p2, 1)]


def gen_scale(tier, seed):
    for d in (2, 3):
        G = scale_geoms(d)
        # many frames through one file: 6 particles, 130 frames (the three cells of varying_cells in turn), cn on both sides of 3
        yield {"kind": "cut", "rule": "q66", "pattern": "gas", "nc": 0, "scale": True, "seed": seed, "Np": 6, "d": d, "cell": "tri+",
               "ppp": [1] * d, "F": 130}
        for si, Np in enumerate(SCALE_NP[tier]):
            nc = Np // 2 if Np < 1000 else 300
            items = []
            for ki, N in enumerate(SCALE_NN):
                if N != "all" and N >= Np - 1:
                    continue
                items.append((ki, {"kind": "nn", "N": Np - 1 if N == "all" else N, "pattern": "gas", "nc": 0}))
            items.append((0, {"kind": "cut", "rule": "isolated", "pattern": "cluster", "nc": nc}))
            items.append((3, {"kind": "cut", "rule": "isolated", "pattern": "cluster", "nc": nc}))
            items.append((1, {"kind": "cut", "rule": "q66", "pattern": "gas", "nc": 0}))
            items.append((2, {"kind": "type", "tpat": "mix", "pattern": "cluster", "nc": nc}))
            items.append((4, {"kind": "type", "tpat": "single3", "pattern": "cluster", "nc": nc}))
            for k, it in items:
                geoms = [G[(si + k) % len(G)]] if tier == "quick" else G
                seen = set()
                for cell, mask, F in geoms:
                    if it["kind"] == "nn" and Np * it["N"] > 300000:
                        F = 1   # a 5 MB frame: one is enough
                    key = (cell, tuple(mask), F)
                    if key in seen:
                        continue
                    seen.add(key)
                    yield dict(it, scale=True, seed=seed, Np=Np, d=d, cell=cell, ppp=mask, F=F)


def nmax_class(nm, m):
    if nm is None:
        return "default"
    return "below" if nm < m else ("equal" if nm == m else "above")


def compare_big(R, tab, exp, is_nl, sig, what):
    """exact comparison of a returned table with the reference; reports the first differing entry only"""
    if tab.shape != exp.shape:
        R.fail(f"{what}: shape {tab.shape}, expected {exp.shape} (cn column + largest capped cn)", sig=dict(sig, clause="shape"), sub="C05.scale")
        return
    a = np.asarray(tab, float)
    if not np.array_equal(a, exp):
        bad = np.argwhere(a != exp)[0]
        R.fail(f"{what}: entry {bad.tolist()} is {tab[tuple(bad)]!r}, expected {exp[tuple(bad)]!r}",
               sig=dict(sig, clause="cn" if bad[1] == 0 else "values"), sub="C05.scale", exp=exp[bad[0]][:40], obs=a[bad[0]][:40])
        return
    if (tab.dtype.kind in "iu") != is_nl or (not is_nl and tab.dtype.kind != "f"):
        R.fail(f"{what}: dtype {tab.dtype} ({'integer' if is_nl else 'float'} expected)", sig=dict(sig, clause="dtype"), sub="C05.scale")


def run_scale(case):
    from PyMatterSim.neighbors.read_neighbors import read_neighbors

    R = Result()
    d, kind, n, F, seed = case["d"], case["kind"], case["Np"], case["F"], case["seed"]
    ppp = case["ppp"]
    H0 = X.scale_cell(d, case["cell"])
    Hf = [np.array(h) for h in varying_cells(H0, F)] if F > 1 else [H0]
    frames = [X.scale_points(seed, n, d, f"C05S{d}_{n}_{case['pattern']}_{f}", case["nc"]) for f in range(F)]
    sig = {"kind": kind, "d": d, "cell": case["cell"], "F": F, "masked": 0 in ppp, "scale": True}
    where = f"Np={n} {kind} {case.get('N', case.get('rule', case.get('tpat')))}"
    tabs = [X.dist_table(p, h, ppp) for p, h in zip(frames, Hf)]
    use_tie = case["cell"] != "orthp"
    # ---- parameters derived from the reference table of frame 0 (deterministic)
    lib = {"kind": kind, "ppp": ppp}
    types = [1] * n
    thr = None
    _, sd0 = X.ranks(tabs[0][0])
    if kind == "nn":
        lib["N"] = case["N"]
    elif kind == "cut":
        if case["rule"] == "isolated":      # the most isolated particle keeps no neighbour; the cluster members see each other
            rc = 0.999 * float(sd0[:, 0].max())
        else:                               # about 66 neighbours on average (coordination numbers on both sides of 64)
            v = np.sort(sd0[:, min(66, n // 2) - 1])
            rc = 0.5 * float(v[n // 2] + v[n // 2 + 1])
        lib["rc"] = rc
        thr = rc
    else:
        v = np.sort(sd0[:, min(40, n // 3) - 1])
        rc = 0.5 * float(v[n // 2] + v[n // 2 + 1])
        lib["R"] = X.type_matrix(rc)
        types = X.species(n, case["tpat"], case["nc"])
        thr = X.type_thresholds(types, lib["R"])
        sig["K"] = 3
    exps, cleans = [], []
    for D, tie in tabs:
        t_ = tie if use_tie else None
        if kind == "nn":
            e, c = X.nn_reference(D, case["N"], t_)
            e = e.tolist()
        else:
            e, c = X.cut_reference(D, thr, t_)
        if c.sum() < min(int(np.ceil(MIN_CLEAN * n)), n - 2):   # (n - 2: the 6-particle many-frames file)
            return R.screen()
        exps.append(e)
        cleans.append(c)
    snaps = mk_snaps([p.tolist() for p in frames], np.array(Hf) if F > 1 else H0, types)
    before = [s.positions.copy() for s in snaps.snapshots]
    call_library(lib, snaps, FN)
    with open(FN) as f:
        text = f.read()
    parsed, problems = NB.parse_listfile(text)
    for pr in problems[:3]:
        R.fail(f"file grammar: {pr} ({where})", sig=dict(sig, clause="file"), sub="C05.file")
    if len(parsed) != F:
        R.fail(f"{len(parsed)} frame headers for {F} frames ({where})", sig=dict(sig, clause="file"), sub="C05.file")
        os.remove(FN)
        return R
    all_lists1 = []
    compared = 0
    cn_seen = set()
    for t, (fr, exp, clean) in enumerate(zip(parsed, exps, cleans)):
        if "neighborlist" not in fr["header"]:
            R.fail(f"frame {t}: header {fr['header']} lacks 'neighborlist'", sig=dict(sig, clause="file"), sub="C05.file")
        lists1, pr = NB.frame_lists(fr, n)
        for x in pr[:3]:
            R.fail(f"frame {t}: {x} ({where})", sig=dict(sig, clause="file"), sub="C05.file")
        all_lists1.append(lists1)
        if pr:
            continue
        adj = np.zeros((n, n), bool) if kind == "cut" else None
        for i in range(n):
            got = [j - 1 for j in lists1[i]]
            cn_seen.add(len(got))
            if any(j < 0 or j >= n for j in got):
                R.fail(f"frame {t}: particle {i + 1}: neighbour id outside 1..{n} ({where})", sig=dict(sig, clause="file"), sub="C05.file", obs=lists1[i][:40])
                continue
            if i in got:
                R.fail(f"frame {t}: particle {i + 1} lists itself ({where})", sig=dict(sig, clause="noself"), sub="C05.noself")
            if len(set(got)) != len(got):
                R.fail(f"frame {t}: particle {i + 1} lists a neighbour twice ({where})", sig=dict(sig, clause="duplicate"), sub="C05.scale")
            if kind == "nn" and len(got) != case["N"]:
                R.fail(f"frame {t}: particle {i + 1}: {len(got)} neighbours listed, N = {case['N']}", sig=dict(sig, clause="members"), sub="C05.scale")
            if adj is not None:
                adj[i, got] = True
            if not clean[i]:
                continue
            compared += 1
            if got != exp[i]:
                if set(got) != set(exp[i]):
                    R.fail(f"frame {t}: particle {i + 1}: wrong members ({where})", sig=dict(sig, clause="members"), sub="C05.scale",
                           exp=[j + 1 for j in exp[i]][:60], obs=[j + 1 for j in got][:60])
                else:
                    R.fail(f"frame {t}: particle {i + 1}: not ordered by increasing distance ({where})", sig=dict(sig, clause="order"),
                           sub="C05.order", exp=[j + 1 for j in exp[i]][:60], obs=[j + 1 for j in got][:60])
        if adj is not None and not np.array_equal(adj, adj.T):
            i, j = np.argwhere(adj != adj.T)[0]
            # a pair whose distance is within the margin of r_cut may legitimately be decided differently in the two rows
            if clean[i] and clean[j]:
                R.fail(f"frame {t}: relation not symmetric for the pair {i + 1}, {j + 1} ({where})", sig=dict(sig, clause="symmetric"), sub="C05.symmetric")
    for s, b in zip(snaps.snapshots, before):
        if not np.array_equal(s.positions, b):
            R.fail("snapshot positions modified", sig=dict(sig, clause="input_modified"), sub="C05.scale")
    # ---- reading the file back: every rotation of the Nmax alphabet over the frames of ONE open handle; results are kept and
    #      compared again after all reads (a returned table must not alias a buffer that a later call overwrites)
    nreads = 0
    if not R.viol:
        offsets = [fr["start"] for fr in parsed] + [len(text)]
        pv = [X.padded(l, n) for l in all_lists1]
        m_all = [int(cn.max()) for cn, _ in pv]
        alph = NB.nmax_alphabet(all_lists1) + [None]

        def read(f, nm):
            return read_neighbors(f, n) if nm is None else read_neighbors(f, n, nm)

        def expect(t, nm, pvx, is_nl):
            return X.ref_read(pvx[t][0], pvx[t][1], 200 if nm is None else nm, is_nl)

        kept = []
        for s in range(len(alph)):
            with open(FN) as f:
                for t in range(F):
                    nm = alph[(s + t) % len(alph)]
                    tab = read(f, nm)
                    nreads += 1
                    s2 = dict(sig, file="neighborlist", Nmax=nmax_class(nm, m_all[t]), handles=1)
                    e = expect(t, nm, pv, True)
                    compare_big(R, tab, e, True, s2, f"{where}: frame {t} read with Nmax={nm}")
                    if f.tell() != offsets[t + 1]:
                        R.fail(f"{where}: cursor at {f.tell()} after frame {t}, next header at {offsets[t + 1]}", sig=dict(s2, clause="cursor"), sub="C05.cursor")
                    if len(kept) < 12:
                        kept.append((tab, e, True, s2, f"{where}: frame {t} (Nmax={nm}) looked at again after later reads"))
                if f.readline() != "":
                    R.fail(f"{where}: data left after the last frame", sig=dict(sig, clause="cursor"), sub="C05.cursor")
        # ---- two handles open at once on two different files (the library's neighbour file and a weights file with the same topology)
        if sum(int(cn.sum()) for cn, _ in pv) <= 200000:
            wl = [[[float(D[i, j - 1]) for j in l] for i, l in enumerate(lists1)] for lists1, (D, _) in zip(all_lists1, tabs)]
            with open(FW, "w") as f:
                for fr_w in wl:
                    f.write(W_HEADERS[0] + "\n")
                    for i, w in enumerate(fr_w):
                        f.write(f"{i + 1} {len(w)} " + " ".join(repr(x) for x in w) + "\n")
            pw = [X.padded(l, n) for l in wl]
            for first in ("nl", "w"):
                with open(FN) as f1, open(FW) as f2:
                    for t in range(F):
                        na = alph[t % len(alph)]
                        nb_ = na if first == "w" else alph[(t + 1) % len(alph)]
                        for which in ((("nl", "w") if first == "nl" else ("w", "nl"))):
                            is_nl = which == "nl"
                            nm = na if is_nl else nb_
                            tab = read(f1 if is_nl else f2, nm)
                            nreads += 1
                            s2 = dict(sig, file="neighborlist" if is_nl else "weights", Nmax=nmax_class(nm, m_all[t]), handles=2)
                            e = expect(t, nm, pv if is_nl else pw, is_nl)
                            compare_big(R, tab, e, is_nl, s2, f"{where}: frame {t} of the {'neighbour' if is_nl else 'weights'} file (two open handles, Nmax={nm})")
                            kept.append((tab, e, is_nl, s2, f"{where}: frame {t} of the {'neighbour' if is_nl else 'weights'} file (Nmax={nm}) looked at again after later reads"))
                    if f1.readline() != "" or f2.readline() != "":
                        R.fail(f"{where}: data left after the last frame (two handles)", sig=dict(sig, clause="cursor"), sub="C05.cursor")
            os.remove(FW)
        if not R.viol:
            for tab, e, is_nl, s2, what in kept:
                compare_big(R, tab, e, is_nl, dict(s2, retained=True), what)
    os.remove(FN)
    import hashlib

    R.outcome([hashlib.sha1(text.encode()).hexdigest(), nreads])
    R.nontrivial = compared > 0 and (kind == "nn" or len(cn_seen) > 1)
    R.elem = compared + nreads * n
    return R


# ---------------------------------------------------------------------------------------------- argument forms
# The documentation allows `ppp` "setting 1 for yes and 0 for no" (any sequence), integer-valued cutoffs and counts of any integer
# type; arrays may have any memory layout.  Differential oracle: the file written for a variant form must be byte-identical to the
# file written for the canonical form (float64 C-ordered arrays, ndarray ppp, python scalars), which the other sub-checks verify.
ARGFORMS = ["ppp_list", "ppp_tuple", "pos_fortran", "pos_noncontiguous", "types_int32", "scalar_numpy", "cutoff_int",
            # round 4 (L5)
            "ppp_bool", "ppp_float", "pos_float32", "rcut_fortran", "hmatrix_fortran", "types_uint8"]
F32_MARGIN = 1e-3   # single-precision positions: the pair separations are formed in float32 (relative error 1e-7 x coordinate)


def gen_argforms(tier, seed):
    for d in (2, 3):
        pl = [p for p in placements(seed, d, "quick") if p[0] == "jl"]
        pts = [p for p in pl if len(p[1]) == 5][0][1]
        for cell, mask in (("orth", [1] * d), ("tri+", [1] * d), ("tri-", [1] + [0] * (d - 1))):
            H = cell_for(d, cell)
            base = {"d": d, "cell": cell, "H": H.tolist(), "ppp": mask, "frames": more_frames(seed, pts, 2, d, f"af{d}"), "slice": "jl"}
            for form in ARGFORMS:
                yield dict(base, kind="nn", N=2, form=form)
                yield dict(base, kind="cut", rc=3.0, form=form)      # integer-valued cutoffs so that `cutoff_int` can pass 3 for 3.0
                yield dict(base, kind="type", types=[1, 2, 1, 2, 2], R=[[3.0, 4.0], [2.0, 3.0]], form=form)


def run_argforms(case):
    from PyMatterSim.neighbors.calculate_neighbors import Nnearests, cutoffneighbors, cutoffneighbors_particletype
    from PyMatterSim.neighbors.read_neighbors import read_neighbors
    from PyMatterSim.reader.reader_utils import Snapshots

    R = Result()
    d, kind, form = case["d"], case["kind"], case["form"]
    H = np.array(case["H"], float)
    frames = [np.array(f, float) for f in case["frames"]]
    if form == "pos_float32":
        # the coordinates are rounded to single precision FIRST: the canonical call (float64 storage) and the variant (float32 storage)
        # hold the same numbers
        frames = [np.array(f, np.float32).astype(float) for f in frames]
    n = len(frames[0])
    types = case.get("types") or [1] * n
    sig = {"kind": kind, "d": d, "cell": case["cell"], "form": form}
    for p in frames:     # a cutoff of 3.0 must not sit on a pair distance
        D = NB.dist_table(p, H, case["ppp"])
        thr = thresholds(case, n)
        m = min(NB.rank_margin(D), NB.self_margin(D), NB.geometry_margin(p, H, case["ppp"]) if case["cell"] != "orth" else 1.0)
        if thr is not None:
            m = min(m, NB.cut_margin(D, thr))
        if m < (F32_MARGIN if form == "pos_float32" else MARGIN):
            return R.screen()

    def call(snaps, ppp, N, rc, Rm, fn):
        if kind == "nn":
            Nnearests(snaps, N=N, ppp=ppp, fnfile=fn)
        elif kind == "cut":
            cutoffneighbors(snaps, r_cut=rc, ppp=ppp, fnfile=fn)
        else:
            cutoffneighbors_particletype(snaps, r_cut=Rm, ppp=ppp, fnfile=fn)

    canon_snaps = mk_snaps(frames, H, types)
    call(canon_snaps, np.array(case["ppp"]), case.get("N"), case.get("rc"), np.array(case.get("R", [[0.0]]), float), "c05_canon.dat")
    ppp, N, rc, Rm = np.array(case["ppp"]), case.get("N"), case.get("rc"), np.array(case.get("R", [[0.0]]), float)
    snaps = mk_snaps(frames, H, types)
    if form == "ppp_list":
        ppp = list(case["ppp"])
    elif form == "ppp_tuple":
        ppp = tuple(case["ppp"])
    elif form == "ppp_bool":
        ppp = np.array(case["ppp"], dtype=bool)
    elif form == "ppp_float":
        ppp = np.array(case["ppp"], dtype=float)
    elif form == "rcut_fortran":
        Rm = np.asfortranarray(Rm)
    elif form in ("pos_fortran", "pos_noncontiguous", "types_int32", "pos_float32", "hmatrix_fortran", "types_uint8"):
        new = []
        for sn in snaps.snapshots:
            pos = sn.positions
            ty = sn.particle_type
            hm = sn.hmatrix
            if form == "pos_fortran":
                pos = np.asfortranarray(pos)
            elif form == "pos_noncontiguous":
                wide = np.zeros((n, 2 * d))
                wide[:, ::2] = pos
                pos = wide[:, ::2]
            elif form == "pos_float32":
                pos = pos.astype(np.float32)
            elif form == "hmatrix_fortran":
                hm = np.asfortranarray(hm)
            elif form == "types_uint8":
                ty = np.asarray(ty, dtype=np.uint8)
            else:
                ty = np.asarray(ty, dtype=np.int32)
            new.append(type(sn)(sn.timestep, sn.nparticle, ty, pos, sn.boxlength, sn.boxbounds, sn.realbounds, hm))
        snaps = Snapshots(len(new), new)
    elif form == "scalar_numpy":
        N = None if N is None else np.int64(N)
        rc = None if rc is None else np.float32(rc)     # 3.0 is exact in float32
        Rm = Rm.astype(np.float32)
    elif form == "cutoff_int":
        rc = None if rc is None else int(rc)
        Rm = Rm.astype(int)
        N = None if N is None else np.int32(N)
    call(snaps, ppp, N, rc, Rm, FN)
    with open("c05_canon.dat") as f:
        a = f.read()
    with open(FN) as f:
        b = f.read()
    if a != b:
        R.fail(f"file written for the argument form '{form}' differs from the canonical call", sig=dict(sig, clause="argform"), sub="C05.argforms",
               exp=a[:600], obs=b[:600])
    # read_neighbors with numpy integers for nparticle / Nmax
    parsed, _ = NB.parse_listfile(a)
    with open("c05_canon.dat") as f1, open(FN) as f2:
        for fr in parsed:
            lists1, _ = NB.frame_lists(fr, n)
            m = max(len(l) for l in lists1)
            t1 = read_neighbors(f1, n, max(m - 1, 1))
            t2 = read_neighbors(f2, np.int64(n), np.int32(max(m - 1, 1)))
            exp = NB.ref_read(lists1, n, max(m - 1, 1), True)
            for t_, what in ((t1, "python ints"), (t2, "numpy ints")):
                if t_.shape != exp.shape or not np.array_equal(t_, exp) or t_.dtype.kind not in "iu":
                    R.fail(f"read_neighbors called with {what} differs from the file content", sig=dict(sig, clause="read_argform"), sub="C05.argforms")
    os.remove("c05_canon.dat")
    os.remove(FN)
    R.outcome(b)
    R.nontrivial = len(b.split()) > 6 * len(frames)
    R.elem = n * len(frames)
    return R


# ---------------------------------------------------------------------------------------------- C05.sequence (round 4, L6)
# Letters (mc/ref/c05y.py) are complete argument tuples of Nnearests / cutoffneighbors / cutoffneighbors_particletype followed by
# read_neighbors of the written file (every letter uses the SAME file name); pairs collide in plausible incomplete cache keys: same cell
# diagonal / other tilt, same snapshots / other N or cutoff, 3D then 2D, other mask, same (nframes, nparticle, ndim) / other positions,
# transposed cutoff matrix, same matrix / species swapped, a weights file under the name of a neighbour file.
def gen_sequence(tier, seed):
    depth = 2 if tier == "quick" else 3
    nl = len(Y.SEQ_LETTERS)
    for Lw in range(1, depth + 1):
        for word in itertools.product(range(nl), repeat=Lw):
            if Lw == 3 and (len(set(word)) == 1 or (word[0] + 2 * word[1] + 3 * word[2]) % 3):
                continue    # depth 3: every third word (each ordered pair still occurs as a prefix and as a suffix)
            for share in ((False,) if Lw == 1 else (False, True)):
                yield {"part": "sequence", "word": list(word), "share": share, "seed": seed}


_SEQ_FRESH = {}


def run_sequence(case):
    R = Result()
    seed = case["seed"]
    names = [Y.SEQ_LETTERS[k]["id"] for k in case["word"]]
    payload = X3.fresh_child(Y.seq_eval, case, Y.SEQ_MODS)
    if "err" in payload:
        R.fail(f"call sequence {names} (share={case['share']}) raised {payload['err']}", sig={"part": "sequence", "exception": True}, sub="C05.sequence")
        return R
    for k in set(case["word"]):
        if (seed, k) not in _SEQ_FRESH:
            one = X3.fresh_child(Y.seq_eval, {"seed": seed, "word": [k], "share": False}, Y.SEQ_MODS)
            if "err" in one:
                R.fail(f"single call {Y.SEQ_LETTERS[k]['id']} raised {one['err']}", sig={"part": "sequence", "exception": True}, sub="C05.sequence")
                return R
            _SEQ_FRESH[(seed, k)] = json.dumps(one["ok"][0], sort_keys=True)
    states = set()
    for pos_, (k, got) in enumerate(zip(case["word"], payload["ok"])):
        lt = Y.SEQ_LETTERS[k]
        g = json.dumps(got, sort_keys=True)
        if g != _SEQ_FRESH[(seed, k)]:
            ref = json.loads(_SEQ_FRESH[(seed, k)])
            what = "file written" if got["text"] != ref["text"] else "table returned by read_neighbors"
            R.fail(f"call #{pos_ + 1} ({lt['id']}: {lt['kind']}) of the sequence {names} ({'Snapshots object shared and edited in place' if case['share'] else 'fresh objects'}): "
                   f"{what} differs from the same call made first in a fresh process (earlier calls: {names[:pos_]})",
                   sig={"part": "sequence", "kind": lt["kind"], "position": "later" if pos_ else "first", "share": case["share"],
                        "what": "file" if got["text"] != ref["text"] else "read"},
                   exp=ref["text"][:300], obs=got["text"][:300], sub="C05.sequence")
        states.add(g[:4000])
    R.outcome(sorted(states))
    R.states = len(case["word"]) + 1
    R.transitions = len(case["word"])
    R.elem = len(case["word"]) * Y.SEQ_NP * Y.SEQ_F
    R.nontrivial = True
    return R


# ---------------------------------------------------------------------------------------------- registry
def subs(tier, seed):
    conf = ("all N-subsets (N=2..%d) of %d sites of a jittered 3^d lattice + cluster + gas, d in {2,3}, cells {orth, tri+, tri-}, "
            "all periodicity masks, F=1 (F=3 on every 4th placement with the fully periodic mask); one 25 (2D) / 27 (3D) particle placement in 3 geometries") % ((7, 7) if tier == "thorough" else (6, 6))
    dy = ("; dyadic slice: all 3-,4-%s subsets of 9 (2D) / 8 (3D) lattice sites with coordinates in {0,1,6}, box 8, {orth, tilt 2}, all masks"
          % ("" if tier == "quick" else ",5-"))
    R4 = ("round 4: unwrapped variants (particle i displaced by 0 / +2 / -3 / +4 whole cell vectors per periodic axis, different per particle, "
          "axis and frame) of every 3rd placement, of the F=3 files (constant and per-frame cells) and of every 4th dyadic placement; dyadic "
          "placements with the coordinate 0 of one axis moved to the UPPER box face (8); every 3rd placement (+ the F=3 files with per-frame cells) "
          "with coordinates, cell (edges and tilts) and cutoffs dilated by 2^-33 and 2^27 - identical lists demanded")
    s = [
        Sub("C05.nnearest", gen_nnearest, run_calc,
            rule=conf + ", every N in 1..N_p-1 (top value = all other particles)" + dy + " with every N; " + R4 + "; N = 0 passed explicitly on every "
            "4th placement; non-trivial = some list non-empty",
            bounds={"Np": [2, 7 if tier == "thorough" else 6], "N": "0..Np-1", "frames": [1, 3], "unwrap_cells": [-3, 4]}),
        Sub("C05.cutoff", gen_cutoff, run_calc,
            rule=conf + ", r_cut = below / every mid-point between consecutive sorted pair distances / above (every coordination "
            "pattern incl. cn=0)" + dy + " with r_cut EQUAL to every distinct pair distance (bit-exact, boundary inclusive); " + R4
            + "; r_cut = 0 and 0.0 passed explicitly on every 4th placement",
            bounds={"Np": [2, 7 if tier == "thorough" else 6], "rcut": "0, all mid-points + exact pair distances", "unwrap_cells": [-3, 4]}),
        Sub("C05.cutoff_type", gen_cutoff_type, run_calc,
            rule="all surjective type maps of N_p particles onto K species x cutoff matrices over three levels (nobody / half / everybody): "
            + ("K=1, K=2 all 81 matrices (N_p=3,4), K=3 all matrices with <= 2 (N_p=3; 163) / <= 1 (N_p=4; 19) entries off the middle level"
               if tier == "quick" else "K=1, K=2 all 81 (N_p=3,4,5), K=3 all 2^9 matrices over {half,everybody} and over {nobody,half}")
            + "; 4 geometries per d (orth/tri, periodic/masked); 3-frame files; dyadic 2D slice with matrix entries EQUAL to pair distances "
            "(3^4 matrices x 3 type maps); asymmetric matrices included throughout; round 4: 3-frame files with the cell changing per frame and "
            "particles displaced by whole cell vectors (unwrapped); all-zero int / float matrices",
            bounds={"K": [1, 3], "levels": 3}),
        Sub("C05.readback", gen_readback, run_readback,
            rule="synthetic files: n=3 all 125 topologies of ordered lists x all 6 row orders x 4 headers (2 neighbour, 2 weight) x Nmax in "
            "{1,m-1,m,m+1,200}; n=4" + (",5" if tier == "thorough" else "") + " all coordination patterns {0..n-1}^n x row orders; "
            "non-trivial = some cn > 0",
            bounds={"n": [3, 5 if tier == "thorough" else 4]}),
        Sub("C05.cursor", gen_cursor, run_cursor,
            rule="files with F=1..3 different frames (synthetic: every sequence over 4 (n=3) / 2 (n=4) frame topologies, neighbour and weight "
            "files, row order rotating per frame; library-written: N-nearest, global and asymmetric type-pair cutoff, 2D/3D, orth/tri); "
            "inner BFS over ALL |alphabet|^F sequences of read events, alphabet {1,m-1,m,m+1,200 for every frame's m}; "
            "non-trivial = F >= 2 and some cn > 0",
            bounds={"F": [1, 3], "events_per_file": "|alphabet|^1 + ... + |alphabet|^F"}),
        Sub("C05.scale", gen_scale, run_scale,
            rule="SCALE slice - enumerates SIZES with one fixed deterministic value pattern per size: N_p in %s particles (ids with 2-4 digits), "
            "2D/3D; N-nearest with N in {1,12,63,64,65,N_p-1} on a generic gas; global cutoff on a clustered configuration (cluster of N_p/2 "
            "(300 for N_p=1000) mutual neighbours straddling the box corner: coordination numbers > 127 / > 255 / > 200 next to particles with 0 "
            "neighbours) and a gas with about 66 neighbours; K=3 asymmetric type-pair matrices (60/20/20 %% and a single-member species); "
            "geometries {orthogonal with shortest edge y, tri+, tri-} x {periodic, partial masks} x F in {1,3} with the cell (edges and tilts) "
            "changing per frame, %s; margins per particle (rows with a rank/cutoff/half-cell margin < 1e-9 are compared for grammar only, "
            ">= 95 %% of the rows of every frame must be comparable); every written row compared with a vectorised full-sort reference; then "
            "one 130-frame file of 6 particles per d; read_neighbors: every rotation of the Nmax alphabet {1,m-1,m,m+1,200,default} over the frames of one open handle, and two handles "
            "open at once (neighbour file + weights file of the same topology) with interleaved reads; returned tables are compared again after "
            "all later reads; non-trivial = some row compared and (cutoffs) unequal coordination numbers"
            % (SCALE_NP[tier], "one geometry per item, rotating over the sizes" if tier == "quick" else "all six geometries per item"),
            bounds={"Np": SCALE_NP[tier], "N": SCALE_NN, "F": [1, 3]}),
        Sub("C05.argforms", gen_argforms, run_argforms,
            rule="documented argument forms: 5 particles, 2 frames, d in {2,3}, 3 geometries, {N-nearest, global cutoff, type-pair cutoff} x forms "
            + str(ARGFORMS) + " (ppp as list / tuple / bool / float array, Fortran-ordered, non-contiguous and single-precision position arrays, "
            "int32 / uint8 species, numpy scalars for N / r_cut, integer cutoffs, Fortran-ordered cutoff matrix and h-matrix); differential oracle: file byte-identical to the canonical call (ndarray ppp, float64 C-ordered, python "
            "scalars); read_neighbors with numpy integers for nparticle / Nmax; non-trivial = some list non-empty",
            bounds={"forms": len(ARGFORMS)}),
        Sub("C05.sequence", gen_sequence, run_sequence,
            rule=f"explicit-state search over call words of length <= {2 if tier == 'quick' else 3} over {len(Y.SEQ_LETTERS)} complete argument tuples (a writer + "
            "read_neighbors of both frames of the file it wrote, all under ONE file name): N-nearest (orth / tilted cell of the same diagonal, N = 2 / 3 "
            "with a truncating read, 2D, a mask with a 0, other positions of the same shape), global cutoff (two values, tilted cell), type-pair cutoff "
            "(asymmetric matrix, its transpose, species swapped), a weights file under the same name; every word with fresh Snapshots objects and with "
            "ONE Snapshots object per dimension whose arrays (positions, hmatrix, particle_type) are edited in place between the calls; every word in a "
            "forked child whose library modules were re-imported; every call must write / return bit for bit what the same call does when made "
            "first in a fresh child" + ("" if tier == "quick" else "; depth 3: every third word"),
            bounds={"letters": len(Y.SEQ_LETTERS), "depth": 2 if tier == "quick" else 3, "sharing": 2}),
    ]
    return s
