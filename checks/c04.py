"""C04 - S(q): every total and partial column equals the density-mode definition (E1).

Slices: routing (all 4 683 surjective type maps of six particles onto K = 1..6 species), explicit wave-vector lists
(grouping by |q|, boxes with equal / unequal edges, 2D/3D, 1-3 frames, tiny systems), the default wave-vector set
(qrange x box x onlypositive, plus choosewavevector itself for every numofq up to a bound), and the output files."""
import itertools
import math
import os

import numpy as np

from mc import alphabets as A
from mc.harness import Result, Sub
from mc.ref import c03x as X3
from mc.ref import c03y as Y3
from mc.ref import c04x as X
from mc.ref import c04y as Y
from mc.ref.base import mk_snaps
from mc.ref.c04c13 import (choose_ref, default_qset_ref, expected_columns, group_mean_interval, group_norms,
                           numofq_ref, sq_loops)

ASSUMPTIONS = [
    "species ids are 1..K; all frames share particle number, types and box (the library asserts the latter two)",
    "orthogonal cells only (the statement's domain); box origin 0",
    "documented range of the default wave-vector set is read as the half-open integer range [-int(N/2), int(N/2)) per "
    "axis with N = int(2*qrange/min(2 pi/L)) (DESIGN section 3/7: resolved towards the implementation); "
    "onlypositive=True keeps vectors with all components >= 0, 'x'/'y'/'z' keep positive multiples of that axis",
    "per-vector values are rounded to 6 decimals and then averaged over the vectors whose |q| agree (reference clusters "
    "|q| at 1e-9); the expected value is the interval obtained by rounding the reference value +-(1e-9 rel + 1e-11) ; "
    "wave-vector lists whose |q| clusters straddle a 6-decimal rounding boundary are screened out before the run",
    "returned q column = |q| rounded to 6 decimals, rows sorted by q",
    "sum rule tolerance = 0.5e-6 * (N + (sum_a sqrt(N_a))^2) + 1e-9 (worst case of the documented per-vector rounding)",
    "saveqvectors is only used together with an outputfile ending in '.csv' (the file name is derived from it)",
    "scale slice: one fixed deterministic point set per (size, dimension, box, frame); the reference is a vectorised Fourier sum; "
    "|q| clusters closer than 1e-5 units of the 6th decimal to a rounding boundary are screened (none in the fixed lists)",
    "explicit wave vectors are given as an integer ndarray (int64 or int32), C- or Fortran-ordered positions",
    "call sequences: results must not depend on earlier calls or on other live sq objects; 'fresh state' = library modules "
    "re-imported in a forked child",
    "storage forms: positions are a real (n, d) ndarray - float64 or float32 (the stored float32 values are the positions), any strides; "
    "species are an integer-valued ndarray of a signed / unsigned integer or float dtype (the GSD reader hands out uint32); explicit wave "
    "vectors are an integer ndarray (int64 / int32 / int16, any memory order - the documentation says 'NDArray of int'; lists and float "
    "arrays are not demanded); the box is float64 (a float32 box limits q = 2 pi n / L to 1e-7 relative, which the 1e-6 rounding of "
    "the q column does not survive - not checked)",
    "species classes: all frames share the composition (N_a is read from frame 0); the assignment of the species to the ids may change from "
    "frame to frame (sorted blocks in some frames, interleaved in others)",
    "unwrapped coordinates (particles displaced by whole box vectors) leave exp(-i q.r) unchanged for q = 2 pi n / L",
    "S(q) for integer wave vectors does not depend on the unit of length as long as the documented 6-decimal rounding of the q column keeps different "
    "|q| apart (box <= ~1e3; a box of 1e9 rounds every q to 0, which the statement's rounding clause allows)",
]

# slices whose unchanged-tree behaviour violates the property and is not yet repaired (none at present)
KNOWN_OPEN = []

BOX = {3: {"sqr": [8.0, 8.0, 10.0], "uneq": [7.0, 9.0, 11.0], "cube": [6.0, 6.0, 6.0], "xlong": [11.0, 7.0, 9.0]},
       2: {"sqr": [8.0, 8.0], "uneq": [7.0, 9.0], "cube": [6.0, 6.0], "xlong": [9.0, 7.0]}}  # xlong: the longest edge (which fixes numofq) is x

QL3 = {
    "six": [[1, 0, 0], [0, 1, 0], [-1, 0, 0], [1, 1, 0], [2, 0, 1], [0, 0, 3]],
    "shell1": [list(v) for v in itertools.product((-1, 0, 1), repeat=3) if any(v)],
    "single": [[1, 2, -1]],
    "dup": [[1, 0, 0], [1, 0, 0], [0, 2, 0], [0, 0, 1]],
    "pyth": [[3, 4, 0], [5, 0, 0], [0, -5, 0], [4, -3, 0], [0, 0, 5], [-3, 0, 4]],
    "neg": [[-1, -2, 0], [2, 1, 0], [-2, 0, -1], [0, 0, -2], [1, -2, 0], [0, -1, 2]],
}


def qlist(name, d):
    if d == 3:
        return QL3[name]
    out = []
    for v in QL3[name]:
        if any(v[:2]):
            out.append(v[:2])
    return out


def frames_for(seed, base, F, tag):
    base = np.array(base, float)
    fr = [base]
    for f in range(1, F):
        jit = np.array([[A.jitter(seed, f"{tag}fr{f}_{i}", a, 0.45) for a in range(base.shape[1])] for i in range(len(base))])
        fr.append(base + jit)
    return [x.tolist() for x in fr]


def generic(seed, n, L, tag):
    return (np.array(A.generic_points(seed, n, len(L), tag=tag)) * np.array(L)).tolist()


# ----------------------------------------------------------------------------------- slice A
def gen_routing(tier, seed):
    geoms = [(3, "sqr", "six", 1), (3, "uneq", "six", 1)]
    if tier == "thorough":
        geoms += [(2, "sqr", "six", 1), (2, "uneq", "neg", 1), (3, "sqr", "neg", 2), (3, "uneq", "pyth", 1),
                  (3, "sqr", "shell1", 1), (3, "uneq", "neg", 3), (2, "sqr", "pyth", 2), (3, "cube", "pyth", 1)]
    for (d, box, ql, F) in geoms:
        L = BOX[d][box]
        fr = frames_for(seed, generic(seed, 6, L, f"sqA{d}{box}"), F, f"sqA{d}{box}")
        for K in range(1, 7):
            for types in A.surjections(6, K):
                yield {"slice": "routing", "d": d, "box": box, "L": L, "frames": fr, "types": types, "qlist": ql,
                       "q": qlist(ql, d), "mode": "explicit", "csv": False}


# ----------------------------------------------------------------------------------- slice B
def type_vectors(n):
    out = []
    for K in range(1, min(n, 6) + 1):
        cyc = [1 + (i % K) for i in range(n)]
        skew = list(range(K, 1, -1)) + [1] * (n - K + 1)
        for t in (cyc, skew):
            if t not in out:
                out.append(t)
    return out


def placements(seed, d, L, tier):
    Ln = np.array(L)
    out = [("generic6", generic(seed, 6, L, f"sqB{d}"))]
    lat = [[(i + 0.5) * Ln[a] / 2 for a, i in enumerate(idx)] for idx in itertools.product(range(2), repeat=d)]
    out.append(("lattice", lat))
    cl = (np.array(A.generic_points(seed, 5, d, tag=f"sqcl{d}")) * 1.5 + 0.3 * Ln).tolist()
    out.append(("cluster5", cl))
    out.append(("pair2", generic(seed, 2, L, f"sqp{d}")))
    out.append(("single1", generic(seed, 1, L, f"sqs{d}")))
    if tier == "thorough":
        g = generic(seed, 5, L, f"sqT{d}")
        for n in (3, 4):
            for sub in itertools.combinations(range(5), n):
                out.append((f"sub{n}", [g[i] for i in sub]))
    return out


def gen_explicit(tier, seed):
    for d in (3, 2):
        for box in ("sqr", "uneq"):
            L = BOX[d][box]
            for name, pts in placements(seed, d, L, tier):
                for F in (1, 2, 3):
                    fr = frames_for(seed, pts, F, f"sqB{d}{box}{name}")
                    for types in type_vectors(len(pts)):
                        for ql in QL3:
                            if name.startswith("sub") and ql not in ("six", "neg"):
                                continue
                            yield {"slice": "explicit", "d": d, "box": box, "L": L, "placement": name, "frames": fr,
                                   "types": types, "qlist": ql, "q": qlist(ql, d), "mode": "explicit", "csv": False}
                            if F == 1 and ql in ("neg", "shell1", "six") and not name.startswith("sub"):
                                # options that are documented to apply to the GENERATED set only ("if None (default) use qrange & onlypositive")
                                # given together with an explicit list: all supplied vectors must still be used
                                for opts in ({"onlypositive": True}, {"onlypositive": "x", "qrange": 1.0}, {"qrange": 0.5}):
                                    yield {"slice": "explicit", "d": d, "box": box, "L": L, "placement": name, "frames": fr, "types": types,
                                           "qlist": ql, "q": qlist(ql, d), "mode": "explicit", "csv": False, "opts": opts}
                            if F > 1 and len(set(types)) > 1 and ql in ("six", "neg"):
                                # the species attached to the ids change from frame to frame (same composition: swap moves, relabelled frames)
                                tv = [types[f:] + types[:f] for f in range(F)]
                                if tv[1] != tv[0]:
                                    yield {"slice": "explicit", "d": d, "box": box, "L": L, "placement": name, "frames": fr, "types": types,
                                           "types_frames": tv, "qlist": ql, "q": qlist(ql, d), "mode": "explicit", "csv": False}


# ----------------------------------------------------------------------------------- slice C
def gen_default(tier, seed):
    for d in (3, 2):
        ops = [False, True, "x", "y"] + (["z"] if d == 3 else [])
        for box in ("sqr", "uneq", "cube", "xlong"):
            L = BOX[d][box]
            pts = generic(seed, 6, L, f"sqD{d}{box}")
            for qrange in (2.0, 3.0, 5.0):
                for op in ops:
                    if not default_qset_ref(L, qrange, op):
                        continue  # empty documented set (tiny cubic box, positive-only): nothing to evaluate
                    tvs = [[1] * 6, [1, 2, 1, 2, 2, 2]]
                    if tier == "thorough" or (qrange == 2.0 and op is False):
                        tvs += [[1, 2, 3, 4, 5, 1], [1, 2, 3, 4, 5, 6], [3, 1, 2, 3, 3, 1], [4, 3, 2, 1, 1, 4]]
                    for types in tvs:
                        for F in ((1, 2) if (tier == "thorough" or len(set(types)) <= 2) else (1,)):
                            yield {"slice": "default", "d": d, "box": box, "L": L, "frames": frames_for(seed, pts, F, f"sqD{d}{box}"),
                                   "types": types, "qrange": qrange, "onlypositive": op, "mode": "default", "csv": False}


def gen_default_empty(tier, seed):
    """numerical regime: int(2 qrange / min(2 pi / L)) is 0 or 1, so the documented integer range [-int(N/2), int(N/2)) holds no vector and
    the table must have no row (and N = 2, the smallest non-empty case, next to it)"""
    for d in (3, 2):
        for box in ("uneq", "cube"):
            L = BOX[d][box]
            pts = generic(seed, 6, L, f"sqE{d}{box}")
            for qrange in (0.1, 0.3, 0.4, 0.6):
                for op in (False, True):
                    for types in ([1] * 6, [1, 2, 1, 2, 2, 2], [1, 2, 3, 1, 2, 3]):
                        yield {"slice": "default", "d": d, "box": box, "L": L, "frames": frames_for(seed, pts, 1, f"sqE{d}{box}"),
                               "types": types, "qrange": qrange, "onlypositive": op, "mode": "default", "csv": False, "empty_ok": True}


def gen_choose(tier, seed):
    for d in (2, 3):
        top = (24 if tier == "thorough" else 16) if d == 2 else (16 if tier == "thorough" else 11)
        for n in range(0, top + 1):
            for op in [False, True, "x", "y"] + (["z"] if d == 3 else []):
                yield {"d": d, "numofq": n, "onlypositive": op}


# ----------------------------------------------------------------------------------- slice D
def gen_csv(tier, seed):
    for d in (3, 2):
        for box in ("sqr", "uneq"):
            L = BOX[d][box]
            pts = generic(seed, 6, L, f"sqC{d}{box}")
            for K in range(1, 7):
                types = [1 + ((i * i + i // 3) % K) for i in range(6)]
                if len(set(types)) != K:
                    types = [1 + (i % K) for i in range(6)]
                for F in (1, 2):
                    for save in (False, True):
                        base = {"slice": "csv", "d": d, "box": box, "L": L, "frames": frames_for(seed, pts, F, f"sqC{d}{box}"),
                                "types": types, "csv": True, "saveqvectors": save}
                        yield dict(base, mode="explicit", qlist="six", q=qlist("six", d))
                        if box == "sqr":
                            yield dict(base, mode="default", qrange=2.0, onlypositive=False)


# ------------------------------------------ slice G: storage forms, exact values, species classes, unwrapped
FORM_KEYS = ["pos", "tform", "qform"]
FORM_DOM = {"pos": Y3.POS_FORMS, "tform": Y3.TYPE_FORMS, "qform": Y.Q_FORMS}
GSD_FORM = {"pos": "f32view", "tform": "uint32", "qform": "int32"}  # read_gsd positions / species, choosewavevector's int32 table
FORM_TRAJ = [(1, "const"), (2, "sorted_first"), (3, "sorted_later"), (2, "const")]


def form_vectors(maxdev):
    out = []
    for combo in itertools.product(*(FORM_DOM[k] for k in FORM_KEYS)):
        fv = dict(zip(FORM_KEYS, combo))
        if sum(1 for k in FORM_KEYS if fv[k] != FORM_DOM[k][0]) <= maxdev:
            out.append(fv)
    if GSD_FORM not in out:
        out.append(dict(GSD_FORM))
    return out


def gen_forms(tier, seed):
    quick = tier == "quick"
    fvs = form_vectors(1 if quick else 2)
    for d in (3, 2):
        for box in ("sqr", "uneq"):
            L = BOX[d][box]
            for ip, pset in enumerate(("dyadic", "generic", "unwrapped")):
                for it, (F, tclass) in enumerate(FORM_TRAJ):
                    for K in ((1, 2, 3, 4, 5) if quick else (1, 2, 3, 4, 5, 6)):
                        if K == 1 and tclass != "const":
                            continue
                        for iq, ql in enumerate(("six", "neg")):
                            if quick and (ip + it + K + iq) % 2:
                                continue
                            for fv in fvs:
                                if pset == "unwrapped" and quick and fv not in (fvs[0], GSD_FORM, dict(fvs[0], pos="f32")):
                                    continue
                                yield dict({"slice": "forms", "d": d, "box": box, "L": L, "pset": pset, "F": F, "tclass": tclass, "K": K,
                                            "qlist": ql, "q": qlist(ql, d), "seed": seed}, **fv)
            # narrow integer storage whose SQUARES overflow (int8: |n| >= 12, uint8: n >= 16, int16: n >= 182 or a sum of squares > 32767)
            for name in Y.BIG_Q:
                qv, qforms = Y.big_q(name, d)
                for K in (1, 2, 3) if quick else (1, 2, 3, 4, 5, 6):
                    for qform in qforms:
                        for pset in ("generic", "dyadic"):
                            yield {"slice": "forms", "d": d, "box": box, "L": L, "pset": pset, "F": 1 if pset == "generic" else 2, "tclass": "const", "K": K,
                                   "qlist": name, "q": qv, "seed": seed, "pos": "f64", "tform": "int64", "qform": qform}


def forms_input(case):
    """(frames as given to the library, frames the reference may use instead (wrapped), species per frame)"""
    d, L, F, K = case["d"], case["L"], case["F"], case["K"]
    n = 7
    base = Y.dyadic_box_points(d, L) if case["pset"] == "dyadic" else np.array(generic(case["seed"], n, L, f"sqF{d}{case['box']}"))
    wrapped = [base] + [np.array(generic(case["seed"], n, L, f"sqF{d}{case['box']}fr{f}")) for f in range(1, F)]
    given = [Y.unwrap(p, L, pattern=f) for f, p in enumerate(wrapped)] if case["pset"] == "unwrapped" else wrapped
    ts = Y3.class_types(n, K, F, case["tclass"]) if K <= 5 else [[1, 2, 3, 4, 5, 6, 1]] * F
    return given, wrapped, ts


def run_forms(case):
    from PyMatterSim.static.sq import sq

    R = Result()
    d, F, K = case["d"], case["F"], case["K"]
    L = [float(x) for x in case["L"]]
    given, wrapped, ts = forms_input(case)
    stored = [Y3.store_positions(p, case["pos"]) for p in given]
    vals = [Y3.stored_values(p) for p in stored]
    qint = [list(v) for v in case["q"]]
    sig = {"slice": "forms", "K": K, "d": d, "box": case["box"], "F": F, "mode": "explicit", "pset": case["pset"], "tclass": case["tclass"],
           "pos": case["pos"], "types": case["tform"], "qform": case["qform"]}
    # unwrapped placements: the table is the one of the wrapped placement; float32 forms: the stored values are the positions
    exact_store = case["pos"] in ("f64", "strided")
    src = wrapped if exact_store else vals
    ref, qn = sq_loops([np.asarray(p, float).tolist() for p in src], L, ts, qint)
    groups = group_norms(qn, 6)
    if groups is None:
        return R.screen()
    types = ts[0]
    cols = expected_columns(types, "Sq")
    tst = [Y3.store_types(t, case["tform"]) for t in ts]
    snaps = Y3.raw_snaps(stored, [np.diag(L)] * F, tst)
    qarr = Y3.store_int(qint, case["qform"])
    p0 = [np.array(p, copy=True) for p in stored]
    t0 = [np.array(t, copy=True) for t in tst]
    res = sq(snaps, qvector=qarr).getresults()
    R.elem = len(cols) * len(groups)
    if not compare(R, res, cols, groups, ref, types, sig):
        return R
    for s, pb, tb in zip(snaps.snapshots, p0, t0):
        if not np.array_equal(s.positions, pb) or s.positions.dtype != pb.dtype or not np.array_equal(s.particle_type, tb):
            R.fail("snapshot positions / species modified", sig=dict(sig, clause="input_modified"))
    if not np.array_equal(qarr, np.array(qint)) or qarr.dtype != Y3.store_int(qint, case["qform"]).dtype:
        R.fail("caller's wave-vector array modified", sig=dict(sig, clause="input_modified"))
    R.outcome({c: res[c].values for c in ["q"] + cols}, nd=6)
    R.nontrivial = len(groups) >= 2 and float(np.ptp(res["Sq"].values)) > 1e-6
    return R


# ------------------------------------------------------------------- slice H: absolute scale (dilated box)
DIL_SCALES = {"2^-33": 2.0 ** -33, "2^+6": 2.0 ** 6}  # sq() rounds its q column to 6 decimals: a box of 1e9 would round every q to 0


def gen_dilated(tier, seed):
    for d in (3, 2):
        for box in ("sqr", "uneq"):
            L = BOX[d][box]
            for ql in (("six", "neg") if tier == "quick" else ("six", "neg", "shell1")):
                for K in ((1, 2, 3, 5) if tier == "quick" else (1, 2, 3, 4, 5, 6)):
                    for F in (1, 2):
                        for sname in DIL_SCALES:
                            yield {"slice": "dilated", "d": d, "box": box, "L": L, "qlist": ql, "q": qlist(ql, d), "K": K, "F": F, "scale": sname, "seed": seed}


def run_dilated(case):
    """differential: the dilated call against the undilated one (which C04.explicit compares with the definition).  Integer wave vectors:
    every phase q.r is the same number, so every S column must agree bit for bit; the q column is 2 pi |n / L| of the dilated box."""
    from PyMatterSim.static.sq import sq

    R = Result()
    d, K, F = case["d"], case["K"], case["F"]
    sc = DIL_SCALES[case["scale"]]
    L = np.array(case["L"], float)
    frames = [np.array(generic(case["seed"], 7, case["L"], f"sqDL{d}{case['box']}{f}")) for f in range(F)]
    ts = Y3.class_types(7, K, F, "const") if K <= 5 else [[1, 2, 3, 4, 5, 6, 1]] * F
    qarr = np.array(case["q"], dtype=int)
    sig = {"slice": "dilated", "K": K, "d": d, "box": case["box"], "F": F, "mode": "explicit", "scale": case["scale"]}
    rb = sq(mk_snaps(frames, np.diag(L), [np.array(t) for t in ts]), qvector=qarr.copy()).getresults()
    rd = sq(mk_snaps([f * sc for f in frames], np.diag(L * sc), [np.array(t) for t in ts]), qvector=qarr.copy()).getresults()
    cols = expected_columns(ts[0], "Sq")
    if list(rd.columns) != list(rb.columns) or len(rd) != len(rb):
        R.fail(f"table changes shape with the unit of length: {len(rd)} rows {list(rd.columns)} vs {len(rb)} rows", sig=dict(sig, clause="grouping"),
               sub="C04.grouping")
        return R
    for c in cols:
        if not np.allclose(rd[c].values, rb[c].values, rtol=0, atol=1e-12):  # means of 6-decimal numbers over the same groups
            k = int(np.argmax(np.abs(rd[c].values - rb[c].values)))
            R.fail(f"column {c} changes with the unit of length: {rd[c].values[k]!r} vs {rb[c].values[k]!r}", sig=dict(sig, clause="column", col=c),
                   exp=rb[c].values, obs=rd[c].values)
    qn = np.sort(np.unique(np.round(np.linalg.norm(qarr.astype(float) * (2 * math.pi / (L * sc)), axis=1), 6)))
    if not np.allclose(rd["q"].values, qn if len(qn) == len(rd) else rb["q"].values / sc, rtol=1e-9, atol=1.0000001e-6):
        R.fail("q column is not 2 pi |n / L| of the dilated box", sig=dict(sig, clause="grouping"), sub="C04.grouping", exp=qn, obs=rd["q"].values)
    R.elem = len(cols) * len(rb)
    R.outcome({c: rd[c].values for c in cols}, nd=6)
    R.nontrivial = len(rb) >= 2 and float(np.ptp(rb["Sq"].values)) > 1e-6
    return R


# ----------------------------------------------------------------------------------- slice E: scale
SCALE_N = {"quick": [65, 257, 600], "thorough": [64, 65, 130, 257, 600]}
SCALE_NQ = {"quick": [64, 65, 129, 257], "thorough": [63, 64, 65, 128, 129, 257]}
SCALE_BOX = {3: {"sqr": [8.0, 8.0, 10.0], "uneq": [7.0, 9.0, 11.0]}, 2: {"sqr": [8.0, 8.0], "uneq": [7.0, 9.0]}}
# default sets with more than 256 vectors: 3D numofq = 16 (279 vectors, half-range 8), 2D numofq = 261 (components up to 130)
SCALE_DEFAULT = [
    {"d": 3, "box": "uneq", "L": [7.0, 9.0, 11.0], "qrange": 4.6, "ops": [False, True, "z"]},
    {"d": 3, "box": "sqr", "L": [8.0, 8.0, 10.0], "qrange": 5.1, "ops": [False, "x"]},
    {"d": 2, "box": "wide", "L": [40.0, 30.0], "qrange": 20.5, "ops": [False, True, "y"]},
]


def gen_scale(tier, seed):
    quick = tier == "quick"
    for d in (3, 2):
        for bi, (box, L) in enumerate(SCALE_BOX[d].items()):
            for iN, n in enumerate(SCALE_N[tier]):
                for K in (1, 2, 3, 4, 5):
                    for F in (1, 3):
                        for iq, nq in enumerate(SCALE_NQ[tier]):
                            j = bi + iN + K + F // 2 + iq + d
                            if quick and j % 2:
                                continue  # quick: a checkerboard half of the product (every value of every factor still meets every K)
                            yield {"slice": "scale", "d": d, "box": box, "L": L, "n": n, "K": K, "F": F, "mode": "explicit", "nq": nq,
                                   "comp": "single" if (iN + K + iq) % 2 == 0 else "skew", "order": "F" if j % 4 == 1 else "C",
                                   "qdtype": "int32" if (K + iq) % 3 == 0 else "int64",
                                   "csv": (K + iq + bi) % 4 == 0, "saveqvectors": (K + iN) % 2 == 0, "seed": seed}
    for dflt in SCALE_DEFAULT:
        for iN, n in enumerate([257, 600] if quick else SCALE_N[tier]):
            for K in (1, 2, 3, 4, 5):
                for io, op in enumerate(dflt["ops"]):
                    F = 3 if (iN + K + io) % 2 else 1
                    if quick and (K + io + iN) % 2:
                        continue
                    yield {"slice": "scale", "d": dflt["d"], "box": dflt["box"], "L": dflt["L"], "n": n, "K": K, "F": F, "mode": "default",
                           "qrange": dflt["qrange"], "onlypositive": op, "comp": "single" if (K + io) % 2 else "skew",
                           "order": "C", "csv": (K + io) % 3 == 0, "saveqvectors": True, "seed": seed}


def scale_expand(case):
    """positions / species of a scale case (kept out of the case so that replays stay small): one point set per frame, the
    species attached to the ids rotate from frame to frame (same composition)"""
    n, K, F, L = case["n"], case["K"], case["F"], case["L"]
    t0 = X3.composition(n, K, case["comp"])
    out = dict(case)
    out["types"] = t0
    out["frames"] = [X.box_points(case["seed"], n, L, tag=f"c04s{case['d']}{case['box']}_{n}_{f}_") for f in range(F)]
    if F > 1 and K > 1:
        out["types_frames"] = [np.roll(np.array(t0), 17 * f).tolist() for f in range(F)]
    if case["mode"] == "explicit":
        out["q"] = X.shell_vectors(case["d"], case["nq"])
        out["qlist"] = f"shell{case['nq']}"
    return out


# --------------------------------------------------------------------------- slice F: call sequences
SEQ_MODS = ("PyMatterSim.utils.wavevector", "PyMatterSim.static.sq")
# letters share some derived quantities (numofq = int(qrange * Lmax / pi), dimension, box) and differ in others
SEQ_LETTERS = [
    {"id": "a", "d": 3, "L": [8.0, 8.0, 10.0], "qrange": 2.0, "op": False, "K": 2},   # numofq 6
    {"id": "b", "d": 3, "L": [8.0, 8.0, 10.0], "qrange": 2.0, "op": True, "K": 2},    # same, non-negative components only
    {"id": "c", "d": 3, "L": [8.0, 8.0, 10.0], "qrange": 2.0, "op": "x", "K": 2},     # same, along x
    {"id": "d", "d": 3, "L": [10.0, 7.0, 9.0], "qrange": 2.0, "op": False, "K": 2},   # same numofq, other box (x is the longest edge)
    {"id": "e", "d": 3, "L": [8.0, 8.0, 10.0], "qrange": 3.0, "op": False, "K": 3},   # other qrange (numofq 9), three species
    {"id": "f", "d": 2, "L": [8.0, 10.0], "qrange": 2.0, "op": False, "K": 2},        # numofq 6 in 2D
    {"id": "g", "d": 2, "L": [10.0, 8.0], "qrange": 2.0, "op": True, "K": 1},
    {"id": "i", "d": 2, "L": [10.0, 8.0], "defaults": True, "qrange": 10.0, "op": False, "K": 2},    # sq(snapshots): documented defaults qrange = 10, all vectors
    {"id": "h", "d": 3, "L": [8.0, 8.0, 10.0], "qvector": "six", "K": 2},             # explicit list
]
SEQ_MODES = ["serial", "reuse", "ahead"]
SEQ_NP = 6


def seq_input(seed, lt):
    pts = generic(seed, SEQ_NP, lt["L"], f"sqQ{lt['id']}")
    return [pts], [1 + (i % lt["K"]) for i in range(SEQ_NP)]


def seq_qint(lt):
    if "qvector" in lt:
        return qlist(lt["qvector"], lt["d"])
    return [list(v) for v in default_qset_ref(lt["L"], lt["qrange"], lt["op"])]


def gen_sequence(tier, seed):
    depth = 2 if tier == "quick" else 3
    for n in range(1, depth + 1):
        for word in itertools.product(range(len(SEQ_LETTERS)), repeat=n):
            for mode in SEQ_MODES:
                if n == 1 and mode != "serial":
                    continue
                if mode == "reuse" and len(set(word)) == n:
                    continue  # without a repeated letter 'reuse' is 'serial'
                yield {"slice": "sequence", "word": list(word), "mode": mode, "seed": seed}


def _seq_eval(case):
    """runs in the child: the calls of the word in order; the objects stay alive until the end of the word"""
    from PyMatterSim.static.sq import sq

    def make(k):
        lt = SEQ_LETTERS[k]
        frames, types = seq_input(case["seed"], lt)
        snaps = mk_snaps([np.array(f, float) for f in frames], np.diag(lt["L"]), np.array(types))
        if "qvector" in lt:
            return sq(snaps, qvector=np.array(seq_qint(lt), dtype=int))
        if lt.get("defaults"):
            return sq(snaps)
        return sq(snaps, qrange=lt["qrange"], onlypositive=lt["op"])

    def answer(o):
        res = X3.frame_to_json(o.getresults())
        res["qset"] = np.asarray(o.df_qvector.values).astype(int).tolist()
        return res

    word, mode = case["word"], case["mode"]
    out, alive = [], []
    if mode == "serial":
        for k in word:
            alive.append(make(k))
            out.append(answer(alive[-1]))
    elif mode == "reuse":
        objs = {}
        for k in word:
            if k not in objs:
                objs[k] = make(k)
            out.append(answer(objs[k]))
    else:
        alive = [make(k) for k in word]
        out = [answer(o) for o in alive]
    return out


_FRESH = {}


def run_sequence(case):
    import pandas as pd

    R = Result()
    seed = case["seed"]
    feat = {"slice": "sequence", "mode": case["mode"]}
    names = [SEQ_LETTERS[k]["id"] for k in case["word"]]
    payload = X3.fresh_child(_seq_eval, case, SEQ_MODS)
    if "err" in payload:
        R.fail(f"call sequence {names} ({case['mode']}) raised {payload['err']}", sig=dict(feat, exception=True))
        return R
    states = set()
    for pos, (k, got) in enumerate(zip(case["word"], payload["ok"])):
        lt = SEQ_LETTERS[k]
        key = (seed, k)
        if key not in _FRESH:
            frames, types = seq_input(seed, lt)
            qint = seq_qint(lt)
            ref, qn = sq_loops(frames, lt["L"], types, qint)
            one = X3.fresh_child(_seq_eval, {"word": [k], "mode": "serial", "seed": seed}, SEQ_MODS)
            _FRESH[key] = (ref, group_norms(qn, 6), types, qint, one.get("ok", [None])[0])
        ref, groups, types, qint, fresh = _FRESH[key]
        sig = dict(feat, K=lt["K"], d=lt["d"], position="first" if pos == 0 else "later", kind="explicit" if "qvector" in lt else str(lt["op"]))
        n0 = len(R.viol)
        if sorted(map(tuple, got["qset"])) != sorted(map(tuple, qint)):
            R.fail(f"sq letter '{lt['id']}' after {names[:pos]} ({case['mode']}): wave-vector set has {len(got['qset'])} vectors, documented set {len(qint)}",
                   sig=dict(sig, clause="default_qset"), exp=len(qint), obs=len(got["qset"]))
        elif groups is not None:
            res = pd.DataFrame(got["values"], columns=got["columns"])
            compare(R, res, expected_columns(types, "Sq"), groups, ref, types, sig)
        if fresh is not None and (got["columns"] != fresh["columns"] or got["qset"] != fresh["qset"]
                                  or not np.array_equal(np.array(got["values"]), np.array(fresh["values"]), equal_nan=True)):
            R.fail(f"sq letter '{lt['id']}' after {names[:pos]} ({case['mode']}) differs from the same call made first in a fresh state",
                   sig=dict(sig, clause="history"))
        if len(R.viol) > n0:
            break
        states.add((k, X3_digest(got)))
    R.elem = sum(len(g["values"]) * len(g["columns"]) for g in payload["ok"])
    R.states = len(states)
    R.transitions = len(case["word"])
    R.outcome([g["values"] for g in payload["ok"]], nd=6)
    return R


def X3_digest(obj):
    import hashlib
    import json

    return hashlib.sha1(json.dumps(obj, sort_keys=True).encode()).hexdigest()[:16]


# choosewavevector itself: one case = a first call; the child walks ALL continuations up to the depth, re-importing the module
# before every word, so every word starts from the import state and its calls share the module state
CW_LETTERS = [(d, n, op) for d in (2, 3) for n in (4, 5, 6) for op in (False, True, "x", "y")]


def gen_choose_sequence(tier, seed):
    for k in range(len(CW_LETTERS)):
        yield {"first": k, "depth": 2 if tier == "quick" else 3}


def _cw_eval(case):
    import sys

    exp = {k: choose_ref(*CW_LETTERS[k]) for k in range(len(CW_LETTERS))}
    bad, nwords, ncalls, seen = [], 0, 0, set()
    for n in range(1, case["depth"] + 1):
        for tail in itertools.product(range(len(CW_LETTERS)), repeat=n - 1):
            word = (case["first"],) + tail
            X3.reimport_library(("PyMatterSim.utils.wavevector",))
            f = sys.modules["PyMatterSim.utils.wavevector"].choosewavevector
            nwords += 1
            for pos, k in enumerate(word):
                got = np.asarray(f(*CW_LETTERS[k]))
                ncalls += 1
                g = sorted(tuple(int(x) for x in v) for v in got.tolist()) if got.ndim == 2 else None
                seen.add((k, len(g) if g is not None else -1))
                if g != exp[k] or not (got.size == 0 or np.issubdtype(got.dtype, np.integer)):
                    if len(bad) < 5:
                        bad.append({"word": [list(map(str, CW_LETTERS[j])) for j in word], "pos": pos, "got": len(g) if g is not None else -1, "exp": len(exp[k])})
                    break
    return {"bad": bad, "words": nwords, "calls": ncalls, "states": len(seen), "first": [list(v) for v in exp[case["first"]]] if not bad else None}


def run_choose_sequence(case):
    R = Result()
    payload = X3.fresh_child(_cw_eval, case, ("PyMatterSim.utils.wavevector",))
    feat = {"slice": "choose_sequence"}
    if "err" in payload:
        R.fail(f"choosewavevector call sequences starting with {CW_LETTERS[case['first']]} raised {payload['err']}", sig=dict(feat, exception=True))
        return R
    ok = payload["ok"]
    for b in ok["bad"]:
        R.fail(f"choosewavevector call #{b['pos'] + 1} of the sequence {b['word']} returned {b['got']} vectors, documented set has {b['exp']}",
               sig=dict(feat, clause="set", position="first" if b["pos"] == 0 else "later"), exp=b["exp"], obs=b["got"])
    R.elem = ok["calls"]
    R.states = ok["states"]
    R.transitions = ok["calls"]
    R.outcome([ok["words"], ok["calls"], len(ok["bad"]), ok["first"]])
    R.nontrivial = ok["words"] > 1
    return R


# ------------------------------------------------------------------------------------- oracle
OUTFILES = ("sq_out.csv", "sq_out_qvectors.csv")


def _clean():
    for f in OUTFILES:
        if os.path.exists(f):
            os.remove(f)


def run(case):
    """Scratch files never survive a case (a stale file would make the next case depend on the history)."""
    _clean()
    try:
        return _run(case)
    finally:
        _clean()


def _run(case):
    import pandas as pd
    from PyMatterSim.static.sq import sq

    R = Result()
    scale = case["slice"] == "scale"
    if scale:
        case = scale_expand(case)
    d = case["d"]
    L = [float(x) for x in case["L"]]
    types = [int(t) for t in case["types"]]
    frames = case["frames"]
    K = len(set(types))
    N = len(types)
    F = len(frames)
    sig = {"slice": case["slice"], "K": K, "d": d, "box": case["box"], "F": F, "mode": case["mode"]}
    if scale:
        sig.update(n=N, nq=case.get("nq", "default"))
    if case["mode"] == "explicit":
        qint = [list(v) for v in case["q"]]
    else:
        qint = [list(v) for v in default_qset_ref(L, case["qrange"], case["onlypositive"])]
        sig["onlypositive"] = str(case["onlypositive"])
    if not qint:
        if case["mode"] == "default" and case.get("empty_ok"):
            # the documented range is empty (int(2 qrange / min(2 pi / L)) < 2): the default set has no vector and the table no row
            from PyMatterSim.static.sq import sq as _sq
            snaps0 = mk_snaps([np.array(f, float) for f in frames], np.diag(L), np.array(types))
            res0 = _sq(snaps0, qrange=case["qrange"], onlypositive=case["onlypositive"]).getresults()
            n0 = 0 if res0 is None else len(res0)
            if n0 != 0:
                R.fail(f"documented default wave-vector set is empty (qrange {case['qrange']}, box {L}) but the table has {n0} rows",
                       sig=dict(sig, clause="default_qset", empty=True), sub="C04.default_qset", exp=0, obs=n0)
            R.outcome({"rows": n0}, nd=6)
            R.nontrivial = True
            return R
        # an empty wave-vector set is not a meaningful request; nothing to decide
        return R.screen()
    tsrc = case.get("types_frames") or types
    if case.get("types_frames"):
        sig["types_vary"] = True
    if scale:
        ref, qn = X.sq_vec(frames, L, case.get("types_frames") or [types] * F, qint)
        groups = X.group_norms_x(qn, 6)
    else:
        ref, qn = sq_loops(frames, L, tsrc, qint)
        groups = group_norms(qn, 6)
    if groups is None:
        return R.screen()
    cols = expected_columns(types, "Sq")

    order = case.get("order", "C")
    snaps = mk_snaps([np.asfortranarray(np.array(f, float)) if order == "F" else np.array(f, float) for f in frames], np.diag(L),
                     [np.array(t) for t in tsrc] if case.get("types_frames") else np.array(types))
    before = [s.positions.copy() for s in snaps.snapshots]
    out = "sq_out.csv" if case["csv"] else None
    kw = {"outputfile": out}
    if case["csv"]:
        kw["saveqvectors"] = bool(case["saveqvectors"])
    if case["mode"] == "explicit":
        qarr = np.array(qint, dtype=case.get("qdtype", "int64"))
        q0 = qarr.copy()
        if case.get("opts"):
            sig["opts"] = "+".join(sorted(case["opts"]))
        obj = sq(snaps, qvector=qarr, **kw, **(case.get("opts") or {}))
    else:
        obj = sq(snaps, qrange=case["qrange"], onlypositive=case["onlypositive"], **kw)
        got = sorted(tuple(int(x) for x in v) for v in np.asarray(obj.df_qvector.values).tolist())
        exp = sorted(tuple(v) for v in qint)
        if got != exp:
            miss = [v for v in exp if v not in got][:4]
            extra = [v for v in got if v not in exp][:4]
            R.fail(f"default wave-vector set has {len(got)} vectors, documented set has {len(exp)}; missing {miss} extra {extra}",
                   sig=dict(sig, clause="default_qset"), sub="C04.default_qset", exp=len(exp), obs=len(got))
    res = obj.getresults()
    R.elem = len(cols) * len(groups)
    if not compare(R, res, cols, groups, ref, types, sig):
        return R
    keys = np.array([k for k, _ in groups])
    for s, b in zip(snaps.snapshots, before):
        if not np.array_equal(s.positions, b):
            R.fail("snapshot positions modified", sig=dict(sig, clause="input_modified"))
    if case["mode"] == "explicit" and not np.array_equal(qarr, q0):
        R.fail("caller's wave-vector array modified", sig=dict(sig, clause="input_modified"))

    if case["csv"]:
        if not os.path.exists(out):
            R.fail(f"outputfile {out} was not written", sig=dict(sig, clause="csv"), sub="C04.csv")
            return R
        back = pd.read_csv(out)
        if list(back.columns) != list(res.columns) or back.shape != res.shape or \
                not np.allclose(back.values, res.values, rtol=0, atol=0.5000001e-6):
            R.fail("CSV file differs from the returned frame beyond %.6f", sig=dict(sig, clause="csv"), sub="C04.csv")
        qf = out[:-4] + "_qvectors.csv"
        if case["saveqvectors"]:
            if not os.path.exists(qf):
                R.fail(f"saveqvectors=True but {qf} was not written", sig=dict(sig, clause="qvectors_file"), sub="C04.csv")
            else:
                pv = pd.read_csv(qf)
                qc = [f"q{i}" for i in range(d)]
                if list(pv.columns)[:d] != qc or sorted(pv.columns[d:]) != sorted(["q"] + cols) or len(pv) != len(qint):
                    R.fail(f"per-vector file: columns {list(pv.columns)} rows {len(pv)}, expected {qc + ['q'] + cols} rows {len(qint)}",
                           sig=dict(sig, clause="qvectors_file"), sub="C04.csv")
                else:
                    # rows may come in any order: match them by the integer vector
                    rows = {tuple(int(round(x)) for x in r): i for i, r in enumerate(pv[qc].values)}
                    okv = len(rows) == len(set(map(tuple, qint))) and all(tuple(v) in rows for v in qint)
                    if not okv:
                        R.fail("per-vector file does not list the wave vectors that were used", sig=dict(sig, clause="qvectors_file"), sub="C04.csv")
                    else:
                        idx = [rows[tuple(v)] for v in qint]
                        if not np.allclose(pv["q"].values[idx], qn, rtol=0, atol=0.5000001e-6 + 1e-9):
                            R.fail("per-vector file: |q| column wrong", sig=dict(sig, clause="qvectors_file"), sub="C04.csv")
                        for c in cols:
                            if not np.allclose(pv[c].values[idx], ref[c], rtol=1e-9, atol=0.5000001e-6 + 1e-9):
                                R.fail(f"per-vector file: column {c} differs from the per-vector reference", sig=dict(sig, clause="qvectors_file", col=c), sub="C04.csv")
                                break
        elif os.path.exists(qf):
            R.fail("saveqvectors=False but a per-vector file was written", sig=dict(sig, clause="qvectors_file"), sub="C04.csv")
    R.outcome({c: res[c].values for c in ["q"] + cols}, nd=6)
    spread = float(np.ptp(res["Sq"].values)) if len(res) > 1 else 0.0
    averaged = any(len(idx) >= 2 and float(np.ptp(ref["Sq"][idx])) > 1e-6 for _, idx in groups)
    R.nontrivial = (len(groups) >= 2 and (spread > 1e-6 or N == 1)) or len(qint) == 1 or averaged
    return R


def compare(R, res, cols, groups, ref, types, sig):
    """column names, |q| rows, every row of every column against the rounded-interval reference, and the consequences stated
    in the property (sum rule, non-negative diagonal terms) on the implementation's own output.  False if the table has the
    wrong shape (nothing else can be compared then)."""
    K = len(set(types))
    N = len(types)
    if sorted(res.columns) != sorted(["q"] + cols) or res.columns[0] != "q":
        R.fail(f"columns {list(res.columns)} != {['q'] + cols}", sig=dict(sig, clause="columns"), sub="C04.columns",
               exp=["q"] + cols, obs=list(res.columns))
        return False
    keys = np.array([k for k, _ in groups])
    if len(res) != len(groups) or not np.allclose(res["q"].values, keys, rtol=0, atol=1e-9):
        R.fail(f"|q| groups differ: got {len(res)} rows {res['q'].values[:6].tolist()}, expected {len(groups)} rows {keys[:6].tolist()}",
               sig=dict(sig, clause="grouping"), sub="C04.grouping", exp=keys[:20], obs=res["q"].values[:20])
        return False
    for c in cols:
        lo, hi = group_mean_interval(ref[c], groups, 6)
        v = res[c].values.astype(float)
        bad = (v < lo - 1e-12) | (v > hi + 1e-12) | ~np.isfinite(v)
        if bad.any():
            k = int(np.argmax(bad))
            R.fail(f"column {c} at q={keys[k]:.6f} ({len(groups[k][1])} vectors): got {v[k]!r}, reference in [{lo[k]!r}, {hi[k]!r}]"
                   f" ({int(bad.sum())} of {len(v)} rows differ)",
                   sig=dict(sig, clause="column", col=c), exp=[lo[k], hi[k]], obs=v[k])
    # consequences stated in the property, on the implementation's own output
    if 1 < K <= 5:
        tl = sorted(set(types))
        Na = {t: types.count(t) for t in tl}
        tot = np.zeros(len(res))
        for c in cols[1:]:
            a, b = int(c[2]), int(c[3])
            tot += (Na[a] if a == b else 2.0 * np.sqrt(Na[a] * Na[b])) * res[c].values
        tol = 0.5e-6 * (N + sum(np.sqrt(Na[t]) for t in tl) ** 2) + 1e-9
        dev = np.abs(tot - N * res["Sq"].values)
        if (dev > tol).any():
            k = int(np.argmax(dev))
            R.fail(f"sum rule N S = sum N_a S_aa + 2 sum sqrt(N_a N_b) S_ab violated by {dev[k]:.3g} at q={keys[k]:.6f}",
                   sig=dict(sig, clause="sumrule"), sub="C04.sumrule", exp=N * res["Sq"].values[k], obs=tot[k])
        for c in cols[1:]:
            if c[2] == c[3] and (res[c].values < -1e-9).any():
                R.fail(f"diagonal term {c} negative", sig=dict(sig, clause="diag_nonneg"), sub="C04.diag_nonneg")
    if (res["Sq"].values < -1e-9).any():
        R.fail("total S(q) negative", sig=dict(sig, clause="diag_nonneg"), sub="C04.diag_nonneg")
    return True


def run_choose(case):
    from PyMatterSim.utils.wavevector import choosewavevector

    R = Result()
    d, n, op = case["d"], case["numofq"], case["onlypositive"]
    sig = {"d": d, "onlypositive": str(op), "parity": n % 2}
    got = choosewavevector(d, n, op)
    got = np.asarray(got)
    exp = choose_ref(d, n, op)
    if got.ndim != 2 or (got.size and got.shape[1] != d):
        R.fail(f"shape {got.shape}", sig=dict(sig, clause="shape"))
        return R
    if got.size and not np.issubdtype(got.dtype, np.integer):
        R.fail(f"dtype {got.dtype} is not integer", sig=dict(sig, clause="dtype"))
    g = sorted(tuple(int(x) for x in v) for v in got.tolist())
    if len(set(g)) != len(g):
        R.fail("duplicate wave vectors", sig=dict(sig, clause="duplicates"))
    if g != exp:
        miss = [v for v in exp if v not in g][:4]
        extra = [v for v in g if v not in exp][:4]
        R.fail(f"choosewavevector({d},{n},{op!r}): {len(g)} vectors, documented set {len(exp)}; missing {miss} extra {extra}",
               sig=dict(sig, clause="set"), exp=len(exp), obs=len(g))
    R.outcome(g)
    R.elem = max(1, len(exp))
    R.nontrivial = len(exp) >= 2
    return R


def subs(tier, seed):
    return [
        Sub("C04.routing", gen_routing, run,
            rule="six particles at fixed generic positions; every surjective map of the six particles onto K species, K=1..6 "
                 "(4683 maps) per (dimension, box, wave-vector list, frames); every |q| row of every column compared with the "
                 "loop reference (rounded-interval oracle), plus column names, grouping, sum rule, non-negativity; "
                 "non-trivial = >= 2 |q| groups with different S, or a group that averages >= 2 vectors with different S",
            bounds={"type_maps": 4683, "geometries": 2 if tier == "quick" else 10}),
        Sub("C04.explicit", gen_explicit, run,
            rule="{2D,3D} x {Lx=Ly box, unequal box} x placements {generic6, 2^d lattice (Bragg/zero), cluster5, pair, single"
                 + (", all 3-/4-subsets of 5 generic points" if tier == "thorough" else "")
                 + "} x frames {1,2,3} x type vectors (cyclic and skewed, K=1..min(N,6)) x six explicit wave-vector lists "
                 "(symmetric triple, full first shell, single vector, duplicate vector, Pythagorean shell, negative components)",
            bounds={"qlists": len(QL3), "frames": [1, 2, 3]}),
        Sub("C04.default_qset", lambda t, s_: itertools.chain(gen_default(t, s_), gen_default_empty(t, s_)), run,
            rule="qrange {2,3,5} x boxes {Lx=Ly, unequal (z longest), cubic, unequal (x longest)} x {2D,3D} x onlypositive {False,True,'x','y','z'(3D)} x "
                 "compositions x frames; the set used (df_qvector) must equal the independent enumeration and the returned frame "
                 "must equal the reference evaluated on the independently enumerated set",
            bounds={"qrange": [2, 3, 5]}),
        Sub("C04.choosewavevector", gen_choose, run_choose,
            rule="choosewavevector(d, numofq, onlypositive) for every numofq = 0..bound, d in {2,3}, every onlypositive option, "
                 "compared as a set with the independent enumeration; non-trivial = >= 2 vectors",
            bounds={"numofq_max_2d": 24 if tier == "thorough" else 16, "numofq_max_3d": 16 if tier == "thorough" else 11}),
        Sub("C04.csv", gen_csv, run,
            rule="K=1..6 x {2D,3D} x boxes x frames {1,2} x saveqvectors {False,True} x {explicit list, default set}: output file "
                 "parsed back and compared at %.6f; per-vector file (q0.., q, S columns) compared with the per-vector reference"),
        Sub("C04.scale", gen_scale, run,
            rule="SIZE slice (enumerates sizes, one fixed value pattern per size): N in " + str(SCALE_N[tier]) + " generic particles x K = 1..5 "
                 "species (unequal counts, every second pattern with a ONE-member species) x {2D,3D} x {Lx=Ly, unequal edges} x frames {1,3} "
                 "(positions and the species attached to the ids change per frame) x explicit wave-vector lists = the first nq integer vectors "
                 "by shell, nq in " + str(SCALE_NQ[tier]) + (" (checkerboard half of the product)" if tier == "quick" else "")
                 + "; plus the default set for ranges that give > 256 vectors (3D numofq 16: 279 vectors; 2D numofq 261: components up to 130) "
                 "with onlypositive False/True/axis; int32/int64 lists, C/Fortran-ordered positions, output files; EVERY |q| row of EVERY "
                 "column against a vectorised density-mode sum (rounded-interval oracle), grouping, sum rule, files",
            bounds={"N": SCALE_N[tier], "nq": SCALE_NQ[tier], "K": [1, 5], "frames": [1, 3]}),
        Sub("C04.forms", gen_forms, run_forms,
            rule="STORAGE FORMS, exact values, species classes, unwrapped coordinates: positions {float64, float32, strided float64 view, float32 "
                 "column slice} x species dtype {int64, int32, float64, uint32} x wave-vector table {int64, int32, int16, Fortran-ordered int32, "
                 "strided int64 view}; lists with components up to 16 / 300 stored as int8 / uint8 / int16 / uint16 (their squares overflow the storage type); " + ("every form vector with <= 1 deviation" if tier == "quick" else "every form vector with <= 2 deviations")
                 + " from (float64, int64, int64) plus the GSD-reader combination (float32 slice, uint32, int32); x {2D,3D} x {Lx=Ly, unequal} x "
                 "point sets {seven points at DYADIC fractions of the box: one at the origin, on the faces x = L_x, y = 0, z = L_z, two coincident; "
                 "seven generic points; the generic points displaced by whole box vectors n L, n in {0,+2,-3,+4}} x trajectories {1 frame; 2 frames, "
                 "species in sorted blocks in frame 0 and interleaved later; 3 frames, interleaved in frame 0 and sorted later; 2 frames, same species} "
                 "x K = 1.." + ("5" if tier == "quick" else "6") + " x two wave-vector lists" + (" (checkerboard half of the product)" if tier == "quick" else "")
                 + "; loop reference on exactly the stored values (wrapped placement for the displaced points), rounded-interval oracle, grouping, "
                 "sum rule, inputs unchanged",
            bounds={"form_deviations": 1 if tier == "quick" else 2, "K": [1, 5 if tier == "quick" else 6]}),
        Sub("C04.dilated", gen_dilated, run_dilated,
            rule="ABSOLUTE SCALE, differential: positions and box multiplied by 2^-33 and 2^+6 (integer wave vectors, so every phase is the same number): every "
                 "S column equal to the one of the undilated call, same |q| groups, q column = 2 pi |n / L| of the dilated box; {2D,3D} x boxes x lists x K x frames",
            bounds={"scales": list(DIL_SCALES)}),
        Sub("C04.sequence", gen_sequence, run_sequence,
            rule="explicit-state search over CALL SEQUENCES of sq: all words of length <= " + ("2" if tier == "quick" else "3") + f" over {len(SEQ_LETTERS)} "
                 "letters (dimension, box, qrange, onlypositive / explicit list, composition; several share numofq) in three modes (new object per "
                 "call / one object per letter called again / all objects constructed before the first evaluation); every word runs in ONE "
                 "forked child whose library modules were re-imported; every call must use the documented wave-vector set, equal the loop "
                 "reference and, bit for bit, the same call made first in a fresh state",
            bounds={"depth": 2 if tier == "quick" else 3, "letters": len(SEQ_LETTERS), "modes": SEQ_MODES}),
        Sub("C04.choose_sequence", gen_choose_sequence, run_choose_sequence,
            rule="call sequences of choosewavevector: one case per first call (d in {2,3} x numofq in {4,5,6} x onlypositive in "
                 "{False,True,'x','y'} = 24 letters); the child walks every word of length <= " + ("2" if tier == "quick" else "3")
                 + " starting with it, re-importing the module before each word; every call of every word must return the documented set",
            bounds={"letters": len(CW_LETTERS), "depth": 2 if tier == "quick" else 3}),
    ]
