"""C08 - tabulated spherical harmonics equal the orthonormal Condon-Shortley Y_lm (E3: finite unisolvent set).

Cutoff argument (DESIGN.md section 3 / C08).  If every entry of SphHarm1..10 is a trigonometric polynomial of
degree <= D in theta and in phi (established from the SOURCE by mc.ref.ylm.table_structure, D = 10), then it and the
analytically continued Y_lm (signed sine) are both trigonometric polynomials of degree <= D on the torus; two such
functions that agree on an equispaced full-period grid with M >= 2D+1 nodes per variable are identical, and because
the DFT on that grid is an isometry every Fourier coefficient differs by at most the largest nodal difference.  So
the complete M x M grid (M = 64) decides "identically in both angles".  If the structural walk fails (a refactoring),
the continuation is not demanded any more: the torus grid is dropped, only the grid on the documented domain
[0,pi] x (-pi,pi] is enumerated and the sub-checks are marked exhaustive=False ("bounded grid only") - never a
violation by itself.

Strengthened slices (docs/STRENGTHEN_TASK.md; alphabets in mc/ref/c08x.py):
  C08.types     both angles as python float / int, np.float64 / float32 / int64 / int32 scalars and as numpy 0-d arrays (round 4), l as int / np.int64 /
                int32 / int16 / int8, azimuth up to 2 pi
  C08.scale     the polar angle as a numpy array (sizes 1, 64, 65, 257, 2-D; thorough 63..1025) with a scalar azimuth
  C08.sequence  explicit-state search over call words (l = 4, 6, 12 x two angle pairs x dispatcher / direct) in forked children
"""
import math
import os

import numpy as np

from mc import harness
from mc.harness import Result, Sub
from mc.ref import c08x, c08y, ylm

# KNOWN_OPEN ----------------------------------------------------------------------------------------------------------------------
# Defects of the unchanged tree found by the round-4 slices and NOT yet repaired in /repo; the listed cases are skipped so that the
# check stays silent.  Remove an entry when the maintainer has repaired it - the cases then run and must pass.
#   "0d-azimuth-inplace": SphHarm_above (l > 10) does `phi += 2*np.pi` for a negative azimuth.  With the azimuth given as a numpy 0-d
#       array this (a) overwrites the CALLER's array in place (float dtypes; the returned values are right) and (b) raises
#       UFuncTypeError for an integer 0-d array (witness: SphHarm_above(11, np.array(1), np.array(-1))).
#       Proposed repair (one line): `phi = phi + 2 * np.pi`.
KNOWN_OPEN = []  # "0d-azimuth-inplace" was repaired by /repo commit 8721bbe (known_findings.json: fixed)

ASSUMPTIONS = [
    "first argument = polar angle, second = azimuth (the docstrings of the module have the two names exchanged; the "
    "formulas, the callers in boo_3d and the property statement use polar first)",
    "l = 1..10: identity in both angles follows from agreement on the 64x64 full-period grid ONLY together with the "
    "structural degree bound read from the source (AST walk: sin/cos of the polar argument to non-negative literal "
    "powers, exp((integer)j*azimuth), constants); if the walk fails the claim is the bounded grid on the documented domain",
    "agreement means |difference| <= 1e-11 + 1e-9*|reference| at every node (so <= ~1e-11 in every Fourier coefficient)",
    "l = 11..20 (delegated to scipy): bounded claim on the (theta in [0,pi]) x (phi in (-pi,pi]) grid including "
    "theta in {0,pi}, phi < 0, phi = 0, phi = pi; no degree bound is available from the source",
    "the reference Y_lm (exact rational Legendre coefficients, exact Horner evaluation) is cross-checked against "
    "scipy.special.sph_harm_y on the domain grid in C08.oracle; a failure there is a defect of the oracle, not of /repo",
    "C08.types: the angles may be given as python float / int, np.float64 / float32 / int64 / int32 scalars (the docstrings say "
    "float); float32 arguments are only required to give float32 accuracy (1e-3 absolute; the unchanged tree is within 2e-5)",
    "C08.scale: a numpy array of POLAR angles (1-D or 2-D) with a scalar azimuth is accepted by every SphHarm{l}, SphHarm_above "
    "and sph_harm_l of the unchanged tree and returns shape (2l+1,) + theta.shape; this undocumented vectorised use is "
    "exercised, but a TypeError / ValueError is NOT reported (arrays are not promised by the docstrings) - only wrong values, "
    "a wrong shape or a modified input array are.  Azimuth arrays are not exercised (the unchanged tree rejects them for "
    "l <= 10 and overwrites a negative azimuth array in place for l > 10)",
    "C08.sequence: the value returned by a call must not depend on the calls made before it in the same process",
    "C08.types (round 4): numpy 0-d arrays (float64, float32, int64) are accepted for both angles like the corresponding scalars and must come back unchanged; "
    "the degree may be a signed numpy integer of any width that holds 2l+1 (int8..int64); unsigned numpy integers are NOT demanded (-l wraps around: "
    "np.uint8(11) makes SphHarm_above raise on the unchanged tree - `l (int)` is what the docstrings promise); KNOWN_OPEN 0d-azimuth-inplace: negative "
    "azimuth as a 0-d array for l > 10 is skipped until repaired",
]

RTOL, ATOL = 1e-9, 1e-11
SRC = os.path.join(harness.REPO, "PyMatterSim", "utils", "spherical_harmonics.py")
_STRUCT = None


def structure():
    global _STRUCT
    if _STRUCT is None:
        try:
            with open(SRC) as f:
                _STRUCT = ylm.table_structure(f.read())
        except OSError as e:
            _STRUCT = {"ok": False, "why": str(e), "per_l": {}, "max_deg": None}
    return _STRUCT


def sizes(tier):
    # torus nodes per variable, domain theta nodes, domain phi nodes, rows per case
    return (64, 33, 32, 8) if tier == "quick" else (128, 65, 64, 8)


def torus_ok(M):
    s = structure()
    return bool(s["ok"] and s["max_deg"] is not None and 2 * s["max_deg"] + 1 <= M)


# ------------------------------------------------------------------------------------------ grids
def grid(case):
    M, rows = case["M"], range(case["rows"][0], case["rows"][1])
    if case["grid"] == "torus":
        th = [2 * math.pi * (j + 0.5) / M for j in rows]
        ph = [-math.pi + 2 * math.pi * (k + 1) / M for k in range(M)]
    else:  # documented domain, end points included
        th = [math.pi * j / (M - 1) for j in rows]
        ph = [-math.pi + 2 * math.pi * (k + 1) / case["P"] for k in range(case["P"])]
    return th, ph


def gen_cases(tier, ls, torus=True, domain=True):
    M, DT, DP, B = sizes(tier)
    for l in ls:
        if torus and l <= 10 and torus_ok(M):
            for j0 in range(0, M, B):
                yield {"l": l, "grid": "torus", "M": M, "rows": [j0, min(M, j0 + B)]}
        if domain:
            for j0 in range(0, DT, B):
                yield {"l": l, "grid": "domain", "M": DT, "P": DP, "rows": [j0, min(DT, j0 + B)]}


def evaluate(R, case, via="direct"):
    """got[theta, phi, m] from the real code, or None after reporting a shape/None violation"""
    import PyMatterSim.utils.spherical_harmonics as sh

    l = case["l"]
    th, ph = grid(case)
    if via == "dispatch":
        f = lambda a, b: sh.sph_harm_l(l, a, b)
    elif l <= 10:
        f = getattr(sh, "SphHarm%d" % l)
    else:
        f = lambda a, b: sh.SphHarm_above(l, a, b)
    got = np.empty((len(th), len(ph), 2 * l + 1), complex)
    for i, a in enumerate(th):
        for k, b in enumerate(ph):
            v = f(a, b)
            if v is None:
                R.fail(f"l={l}: returned None", sig={"clause": "none", "l": l, "via": via})
                return None
            v = np.asarray(v)
            if v.shape != (2 * l + 1,):
                R.fail(f"l={l}: shape {v.shape}, expected ({2 * l + 1},) (orders m=-l..l)", sig={"clause": "shape", "l": l, "via": via},
                       exp=[2 * l + 1], obs=list(v.shape))
                return None
            got[i, k] = v
    R.elem = got.size
    return got


def compare(R, case, got, ref, clause, via="direct"):
    l = case["l"]
    th, ph = grid(case)
    bad = np.abs(got - ref) > ATOL + RTOL * np.abs(ref)
    bad |= ~np.isfinite(got)
    if bad.any():
        for mi in np.nonzero(bad.any(axis=(0, 1)))[0][:4]:
            dev = np.where(np.isfinite(got[:, :, mi]), np.abs(got[:, :, mi] - ref[:, :, mi]), np.inf)
            i, k = np.unravel_index(int(np.argmax(dev)), dev.shape)
            where = "on [0,pi]" if 0 <= th[i] <= math.pi else "on the analytic continuation (theta > pi), hence somewhere on [0,pi]"
            R.fail(f"l={l} entry {int(mi)} (m={int(mi) - l}) differs from Y_lm by {dev[i, k]:.3g} at theta={th[i]:.6f}, phi={ph[k]:.6f} {where}",
                   sig={"clause": clause, "l": l, "m": int(mi) - l, "via": via},
                   exp={"theta": th[i], "phi": ph[k], "Y": ref[i, k, mi]}, obs=got[i, k, mi])


# ------------------------------------------------------------------------------------------ sub-checks
def run_table(case):
    R = Result()
    got = evaluate(R, case)
    if got is None:
        return R
    th, ph = grid(case)
    compare(R, case, got, ylm.Y_grid(case["l"], th, ph), "table")
    R.outcome(got)
    R.nontrivial = bool((np.abs(got) > 1e-3).any())
    return R


def run_above(case):
    R = Result()
    got = evaluate(R, case)
    if got is None:
        return R
    th, ph = grid(case)
    compare(R, case, got, ylm.Y_grid(case["l"], th, ph), "above")
    R.outcome(got)
    R.nontrivial = bool((np.abs(got) > 1e-3).any())
    return R


def run_sum(case):
    R = Result()
    got = evaluate(R, case)
    if got is None:
        return R
    l = case["l"]
    th, ph = grid(case)
    s = (np.abs(got) ** 2).sum(axis=2)
    exp = (2 * l + 1) / (4 * math.pi)
    dev = np.where(np.isfinite(s), np.abs(s - exp), np.inf)
    if dev.max() > RTOL * exp + ATOL:
        i, k = np.unravel_index(int(np.argmax(dev)), dev.shape)
        R.fail(f"l={l}: sum_m |Y_lm|^2 = {s[i, k]!r} != (2l+1)/4pi = {exp!r} at theta={th[i]:.6f}, phi={ph[k]:.6f}",
               sig={"clause": "sum_rule", "l": l}, exp=exp, obs=s[i, k])
    R.outcome(np.round(np.abs(got), 9))
    R.nontrivial = True
    return R


def run_conj(case):
    R = Result()
    got = evaluate(R, case)
    if got is None:
        return R
    l = case["l"]
    th, ph = grid(case)
    for m in range(0, l + 1):
        a, b = got[:, :, l - m], (-1) ** m * np.conj(got[:, :, l + m])
        dev = np.where(np.isfinite(a) & np.isfinite(b), np.abs(a - b), np.inf)
        if (dev > ATOL + RTOL * np.abs(b)).any():
            i, k = np.unravel_index(int(np.argmax(dev)), dev.shape)
            R.fail(f"l={l}: Y_l,-{m} != (-1)^{m} conj(Y_l,{m}) by {dev[i, k]:.3g} at theta={th[i]:.6f}, phi={ph[k]:.6f}"
                   + (" (m=0 must be real)" if m == 0 else ""),
                   sig={"clause": "conj", "l": l, "m": m}, exp=b[i, k], obs=a[i, k])
    R.outcome(got)
    R.nontrivial = bool((np.abs(got.imag) > 1e-3).any())
    return R


def gen_dispatch(tier, seed):
    # coarse grids (all of them for every l): 9 x 8 on the domain, 8 x 8 on the torus for the tabulated degrees
    for l in range(1, 21):
        yield {"l": l, "grid": "domain", "M": 9, "P": 8, "rows": [0, 9]}
        if tier == "thorough":
            yield {"l": l, "grid": "domain", "M": 17, "P": 16, "rows": [0, 17]}
        if l <= 10 and torus_ok(64):
            yield {"l": l, "grid": "torus", "M": 64, "rows": [5, 6]}
            yield {"l": l, "grid": "torus", "M": 64, "rows": [40, 41]}


def run_dispatch(case):
    R = Result()
    l = case["l"]
    got = evaluate(R, case, via="dispatch")
    if got is None:
        return R
    R2 = Result()
    direct = evaluate(R2, case, via="direct")
    th, ph = grid(case)
    if direct is not None and not np.array_equal(got, direct):
        which = "SphHarm%d" % l if l <= 10 else "SphHarm_above(%d, .)" % l
        R.fail(f"sph_harm_l({l}, .) is not what {which} returns", sig={"clause": "dispatch_vs_direct", "l": l})
    compare(R, case, got, ylm.Y_grid(l, th, ph), "dispatch", via="dispatch")
    R.elem = got.size
    R.outcome(got)
    R.nontrivial = True
    return R


def run_oracle(case):
    """reference model against scipy (independent implementations of the same definition)"""
    import scipy.special as sp

    R = Result()
    l = case["l"]
    th, ph = grid(case)
    ref = ylm.Y_grid(l, th, ph)
    if hasattr(sp, "sph_harm_y"):
        f = lambda m, a, b: sp.sph_harm_y(l, m, a, b)
    else:
        f = lambda m, a, b: sp.sph_harm(m, l, b % (2 * math.pi), a)
    got = np.array([[[complex(f(m, a, b)) for m in range(-l, l + 1)] for b in ph] for a in th])
    dev = np.abs(got - ref)
    R.elem = got.size
    if (dev > ATOL + RTOL * np.abs(ref)).any():
        i, k, mi = np.unravel_index(int(np.argmax(dev)), dev.shape)
        R.fail(f"ORACLE: reference Y_{l},{int(mi) - l} and scipy differ by {dev.max():.3g} at theta={th[i]}, phi={ph[k]}",
               sig={"clause": "oracle_vs_scipy", "l": l})
    R.outcome(ref)
    return R

# ------------------------------------------------------------------------------------------ strengthened slices
def _fn(l, via):
    import PyMatterSim.utils.spherical_harmonics as sh

    if via == "dispatch":
        return lambda a, b: sh.sph_harm_l(l, a, b)
    if via == "dispatch_npint":  # the degree itself as a numpy integer
        return lambda a, b: sh.sph_harm_l(np.int64(l), a, b)
    if via.startswith("dispatch_np:"):
        lt = c08y.L_TYPES[via.split(":")[1]](l)
        return lambda a, b: sh.sph_harm_l(lt, a, b)
    if via.startswith("direct_np:") and l > 10:
        lt = c08y.L_TYPES[via.split(":")[1]](l)
        return lambda a, b: sh.SphHarm_above(lt, a, b)
    if l <= 10:
        return getattr(sh, "SphHarm%d" % l)
    if via == "direct_npint":
        return lambda a, b: sh.SphHarm_above(np.int64(l), a, b)
    return lambda a, b: sh.SphHarm_above(l, a, b)


def gen_types(tier, seed):
    for l in range(1, 21):
        for form in c08x.SCALAR_FORMS + c08y.ZERO_D_FORMS:
            yield {"l": l, "form": form}


def run_types(case):
    R = Result()
    l, form = case["l"], case["form"]
    mk = {"pyfloat": float, "np.float64": np.float64, "np.float32": np.float32, "pyint": int, "np.int64": np.int64, "np.int32": np.int32, **c08y.MAKERS}[form]
    ths, phs = (c08x.INT_THETA, c08x.INT_PHI) if "int" in form else (c08x.DYADIC_THETA, c08x.DYADIC_PHI)
    ref = ylm.Y_grid(l, ths, phs)
    rt, at = (1e-3, 1e-3) if "float32" in form else (RTOL, ATOL)
    zero_d = form in c08y.ZERO_D_FORMS
    allv = []
    for via in ("direct", "dispatch", "dispatch_npint", "direct_npint", "dispatch_np:int32", "dispatch_np:int8", "dispatch_np:int16", "direct_np:int16", "direct_np:int8"):
        if via.startswith("direct_np") and l <= 10:
            continue
        f = _fn(l, via)
        sig = {"clause": "types", "l": l, "via": via.split(":")[0], "form": form}
        for i, a in enumerate(ths):
            for k, b in enumerate(phs):
                if zero_d and l > 10 and b < 0 and "0d-azimuth-inplace" in KNOWN_OPEN:
                    continue
                a_, b_ = mk(a), mk(b)
                v = f(a_, b_)
                if zero_d and not (a_.shape == () and b_.shape == () and a_.dtype == mk(a).dtype and b_.dtype == mk(b).dtype and a_ == mk(a) and b_ == mk(b)):
                    R.fail(f"l={l} ({via}) with {form} angles ({a}, {b}): the caller's 0-d arrays were modified (now {a_!r}, {b_!r})", sig=dict(sig, clause="input_modified"))
                    return R
                if v is None or np.shape(v) != (2 * l + 1,):
                    R.fail(f"l={l} ({via}) with {form} angles ({a}, {b}): returned shape {np.shape(v)}, expected ({2 * l + 1},)", sig=dict(sig, clause="shape"))
                    return R
                v = np.asarray(v).astype(complex)
                allv.append(v)
                dev = np.where(np.isfinite(v), np.abs(v - ref[i, k]), np.inf)
                if (dev > at + rt * np.abs(ref[i, k])).any():
                    mi = int(np.argmax(dev))
                    R.fail(f"l={l} ({via}) with {form} angles theta={a}, phi={b}: entry {mi} (m={mi - l}) = {v[mi]} differs from Y_lm = {ref[i, k, mi]}",
                           sig=sig, exp=ref[i, k], obs=v)
                    return R
    R.elem = len(allv) * (2 * l + 1)
    R.outcome(np.round(np.array(allv), 3 if "float32" in form else 9))
    return R


SHAPES_Q = [[1], [64], [65], [257], [5, 13]]
SHAPES_T = SHAPES_Q + [[2], [63], [127], [128], [129], [255], [256], [1025], [64, 2], [3, 43]]


def gen_scale(tier, seed):
    for l in range(1, 21):
        for shape in SHAPES_Q if tier == "quick" else SHAPES_T:
            for via in ("direct", "dispatch"):
                for phi in (-2.25, 1.0625):
                    yield {"l": l, "shape": shape, "via": via, "phi": phi}


def run_scale(case):
    R = Result()
    l, via, phi, shape = case["l"], case["via"], case["phi"], tuple(case["shape"])
    n = int(np.prod(shape))
    th = c08x.theta_array(n)
    arr = np.array(th).reshape(shape)
    arr0 = arr.copy()
    sig = {"clause": "theta_array", "l": l, "via": via, "ndim": len(shape), "size": "<=64" if n <= 64 else ">64"}
    try:
        v = _fn(l, via)(arr, phi)
    except (TypeError, ValueError):
        # arrays are not promised by the docstrings: an implementation that rejects them does not violate C08
        R.nontrivial = False
        R.outcome("unsupported")
        return R
    if not np.array_equal(arr, arr0):
        R.fail(f"l={l} ({via}): the theta array was modified", sig=dict(sig, clause="input_modified"))
    if v is None or np.shape(v) != (2 * l + 1,) + shape:
        R.fail(f"l={l} ({via}) theta array of shape {shape}: returned shape {np.shape(v)}, expected {(2 * l + 1,) + shape}", sig=dict(sig, clause="shape"))
        return R
    got = np.asarray(v).astype(complex).reshape(2 * l + 1, n).T  # [theta, m]
    ref = ylm.Y_grid(l, th, [phi])[:, 0, :]
    dev = np.where(np.isfinite(got), np.abs(got - ref), np.inf)
    bad = dev > ATOL + RTOL * np.abs(ref)
    if bad.any():
        rows = np.nonzero(bad.any(axis=1))[0]
        i = int(rows[0])
        mi = int(np.argmax(dev[i]))
        R.fail(f"l={l} ({via}) theta array of shape {shape}, phi={phi}: {len(rows)} of {n} angles wrong (first index {i}, last {int(rows[-1])}); "
               f"at theta={th[i]!r} entry m={mi - l} = {got[i, mi]} but Y_lm = {ref[i, mi]}", sig=sig, exp=ref[i], obs=got[i])
    R.elem = got.size
    R.outcome(got)
    R.nontrivial = True
    return R


def gen_sequence(tier, seed):
    import itertools

    nl = len(c08x.seq_letters(tier))
    for L in (1, 2, 3):
        for word in itertools.product(range(nl), repeat=L):
            yield {"word": list(word), "tier": tier}


def _seq_child(case):
    letters = c08x.seq_letters(case["tier"])
    outs = []
    for k in case["word"]:
        lt = letters[k]
        v = np.asarray(_fn(lt["l"], lt["via"])(lt["theta"], lt["phi"])).astype(complex)
        outs.append([v.real.tolist(), v.imag.tolist(), list(v.shape)])
    return outs


def run_sequence(case):
    R = Result()
    letters = c08x.seq_letters(case["tier"])
    payload = c08x.forked(_seq_child, case)
    if "err" in payload:
        R.fail(f"call sequence {[letters[k] for k in case['word']]} raised {payload['err']}", sig={"clause": "sequence", "exception": True})
        return R
    states = set()
    for pos, (k, got) in enumerate(zip(case["word"], payload["ok"])):
        lt = letters[k]
        l = lt["l"]
        ref = ylm.Y_all(l, lt["theta"], lt["phi"])
        sig = {"clause": "sequence", "position": "first" if pos == 0 else "later", "via": lt["via"], "tabulated": l <= 10}
        if pos:
            pv = letters[case["word"][pos - 1]]
            sig["changed"] = sorted(f for f in ("l", "theta", "phi", "via") if pv[f] != lt[f])
        states.add((k, str(got)))
        if got[2] != [2 * l + 1]:
            R.fail(f"call #{pos + 1} of {[letters[i] for i in case['word']]}: shape {got[2]}, expected [{2 * l + 1}]", sig=dict(sig, clause="sequence_shape"))
            break
        v = np.array(got[0]) + 1j * np.array(got[1])
        dev = np.where(np.isfinite(v), np.abs(v - ref), np.inf)
        if (dev > ATOL + RTOL * np.abs(ref)).any():
            mi = int(np.argmax(dev))
            R.fail(f"call #{pos + 1} of the sequence {[letters[i] for i in case['word']]}: entry m={mi - l} = {v[mi]} but Y_lm = {ref[mi]} "
                   "(first call of a fresh process gives the right value: state carried between calls)", sig=sig, exp=ref, obs=v)
            break
    R.elem = sum(2 * letters[k]["l"] + 1 for k in case["word"])
    R.states = len(states)
    R.transitions = len(case["word"])
    R.outcome(payload["ok"])
    return R


def subs(tier, seed):
    M, DT, DP, B = sizes(tier)
    st = structure()
    tok = torus_ok(M)
    sb = {"torus_nodes_per_variable": M if tok else 0, "domain_grid": [DT, DP], "rows_per_case": B,
          "structural_degree_bound": st["max_deg"] if st["ok"] else None,
          "structure_walk": "ok" if st["ok"] else "FAILED (%s): bounded grid only" % st["why"],
          "tolerance": [RTOL, ATOL]}
    claim = ("identity in both angles (unisolvent %dx%d full-period grid, structural degree bound %s from the AST walk)" % (M, M, st["max_deg"])
             if tok else "BOUNDED GRID ONLY on [0,pi]x(-pi,pi] (structural walk failed: %s)" % st["why"])
    out = []
    s = Sub("C08.table", lambda t, s_: gen_cases(t, range(1, 11)), run_table,
            rule="one case = (degree l, grid kind, block of 8 theta rows); every (theta,phi) node of the block x all phi and all 2l+1 "
                 "entries are compared with the reference Y_lm in the order m=-l..l; " + claim + "; non-trivial = some |Y| > 1e-3",
            exhaustive=tok, bounds=dict(sb, l=[1, 10]))
    out.append(s)
    s = Sub("C08.sum_rule", lambda t, s_: gen_cases(t, range(1, 21)), run_sum,
            rule="same cases for l=1..20 (l>10: domain grid only); sum_m |Y_lm|^2 == (2l+1)/(4 pi) at every node; " + claim,
            exhaustive=tok, bounds=dict(sb, l=[1, 20]))
    out.append(s)
    s = Sub("C08.conj", lambda t, s_: gen_cases(t, range(1, 21)), run_conj,
            rule="same cases for l=1..20; Y_l,-m == (-1)^m conj(Y_l,m) for m=0..l at every node; non-trivial = some |Im| > 1e-3; " + claim,
            exhaustive=tok, bounds=dict(sb, l=[1, 20]))
    out.append(s)
    s = Sub("C08.dispatch", gen_dispatch, run_dispatch,
            rule="l=1..20: sph_harm_l(l,.) is an array (not None) of 2l+1 entries, bit-identical to SphHarm{l} / SphHarm_above(l,.) and "
                 "equal to the reference Y_lm on a coarse domain grid (+ two torus rows for l<=10)",
            bounds={"l": [1, 20]})
    out.append(s)
    s = Sub("C08.above", lambda t, s_: gen_cases(t, range(11, 21), torus=False), run_above,
            rule="delegated branch l=11..20 on the %dx%d grid of [0,pi]x(-pi,pi] incl. theta in {0,pi}, phi<0, phi=0, phi=pi; BOUNDED claim "
                 "(no degree bound available from the source)" % (DT, DP),
            bounds={"l": [11, 20], "domain_grid": [DT, DP], "claim": "bounded grid"})
    out.append(s)
    s = Sub("C08.oracle", lambda t, s_: gen_cases(t, range(1, 21), torus=False), run_oracle,
            rule="cross-check of the reference model against scipy.special.sph_harm_y, l=1..20, domain grid (not a claim about /repo)",
            bounds={"l": [1, 20], "domain_grid": [DT, DP]})
    out.append(s)
    s = Sub("C08.types", gen_types, run_types,
            rule="ARGUMENT TYPES: l=1..20 x storage of both angles (scalars: " + ", ".join(c08x.SCALAR_FORMS) + "; numpy 0-d ARRAYS: " + ", ".join(c08y.ZERO_D_FORMS)
                 + ", which must come back unchanged) x SphHarm{l}/SphHarm_above and sph_harm_l (l as python int and as np.int64 / int32 / int16 / int8)"
                 + ("; KNOWN_OPEN " + ", ".join(KNOWN_OPEN) + ": 0-d arrays with a negative azimuth are skipped for l > 10" if KNOWN_OPEN else "") + "; all pairs of 4 integer polar x 7 integer azimuth angles (radians) resp. 6 x 8 dyadic angles "
                 "(exact in float32; azimuth also in (pi, 2 pi], which the docstrings allow), compared with the reference Y_lm (float32: to 1e-3 only)",
            bounds={"forms": c08x.SCALAR_FORMS + c08y.ZERO_D_FORMS, "l_types": list(c08y.L_TYPES), "int_theta": c08x.INT_THETA, "int_phi": c08x.INT_PHI, "dyadic_theta": c08x.DYADIC_THETA, "dyadic_phi": c08x.DYADIC_PHI})
    out.append(s)
    s = Sub("C08.scale", gen_scale, run_scale,
            rule="SIZES: the polar angle given as a numpy array of shape " + str(SHAPES_Q if tier == "quick" else SHAPES_T) + " (one fixed angle "
                 "pattern per size: 0, a Weyl sequence in (0,pi), pi) with a scalar azimuth in {-2.25, 1.0625}, l=1..20, direct and via "
                 "sph_harm_l; result must have shape (2l+1,)+theta.shape and equal Y_lm at every angle; a TypeError/ValueError counts as "
                 "'arrays unsupported' (not a violation, case then trivial); non-trivial = the call returned",
            bounds={"shapes": SHAPES_Q if tier == "quick" else SHAPES_T, "l": [1, 20]})
    out.append(s)
    s = Sub("C08.sequence", gen_sequence, run_sequence,
            rule="explicit-state search over CALL SEQUENCES: all words of length <= 3 over %d calls (l in {4, 6, 12%s} x two angle pairs, "
                 "sph_harm_l and the direct functions; e.g. l=4 then 6 then 4 at the same angles, the same l at two angles), each word in a forked "
                 "child in which no harmonic was evaluated before; every call must return Y_lm of ITS OWN arguments" % (len(c08x.seq_letters(tier)), "" if tier == "quick" else ", 10, 11"),
            bounds={"depth": 3, "letters": len(c08x.seq_letters(tier))})
    out.append(s)
    return out
