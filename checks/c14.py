"""C14 - time_correlation: origin-averaged normalised autocorrelation (E2 over frame-append histories).

A state is the series built so far (T = 1, 2, ... frames); an event appends one frame, i.e. assigns every
particle one value of a three-letter alphabet (scalar, 2-vector or 2x2 tensor; real or complex) and - in
the `steps` variant - also the timestep increment.  In EVERY state the whole returned table is compared with
the reference (mc/ref/dyn.py: explicit loops over lags, origins, particles, components).
"""
import collections
import hashlib
import itertools

import numpy as np

from mc.harness import Result, Sub
from mc.ref.base import mk_snaps
from mc.ref import dyn as RD

ASSUMPTIONS = [
    "value alphabets: real {1,-1,2}, complex {1, i, -1+i}; vectors / 2x2 tensors are fixed asymmetric arrangements of these "
    "letters; no all-zero series (C(0) > 0, otherwise 0/0); nothing is claimed about other values",
    "tensor series: 'product with the conjugate' is not spelled out by the documentation; the table must equal ONE of the two "
    "readings for all rows - trace of the matrix product A(t) conj(A(t0)) (what the code does) or the element-wise (Frobenius) "
    "product; the symmetric-tensor alphabet makes both coincide",
    "evenly spaced = exactly one distinct difference between consecutive timesteps (a two-frame series is evenly spaced, a "
    "one-frame series has no difference and takes the single-origin path; both paths give the same table there)",
    "the Snapshots object only supplies timesteps and the particle number",
    "float tolerance rtol 1e-9 / atol 1e-11; time axis rtol 1e-12; lag zero compared with == 1.0",
]

REAL = [1.0, -1.0, 2.0]
CPLX = [1.0 + 0j, 1j, -1.0 + 1j]


def letters(shape, cplx, sym=False):
    """Three values of the requested shape built from the scalar letters."""
    a = CPLX if cplx else REAL
    if shape == "s":
        return [np.array(v) for v in a]
    if shape == "v":
        return [np.array([a[0], a[2]]), np.array([a[1], a[0]]), np.array([a[2], a[1]])]
    if sym:
        return [np.array([[a[0], a[1]], [a[1], a[2]]]), np.array([[a[1], a[2]], [a[2], a[0]]]), np.array([[a[2], a[0]], [a[0], a[1]]])]
    # asymmetric, and Re tr(A conj(A)) > 0 for every letter (3, 9|1, 1|5) so that C(0) > 0 under either reading
    return [np.array([[a[2], a[0]], [a[1], a[0]]]), np.array([[a[1], a[2]], [a[0], a[2]]]), np.array([[a[2], a[1]], [a[2], a[1]]])]


SPACINGS = {
    "even": [0, 10, 20, 30, 40, 50],
    "uneven": [0, 1, 10, 100, 1000, 10000],
    "late": [0, 10, 20, 50, 60, 70],  # evenly spaced up to three frames, uneven from the fourth on
    "even7": [0, 7, 14, 21, 28, 35],
}
INCS = [10, 40]  # step increments when the increment is part of the event
# three increments: contains every way a cheap evenness heuristic is fooled within four frames, e.g. 0,10,15,30 (total span ==
# (T-1) x first gap) and 0,10,15,25 (first gap == last gap) - both are UNEVEN series (more than one distinct difference)
INCS3 = [10, 5, 15]


def root_cases(sub, shapes, cplxs, Ns, Tmax, spacings, dts, sym=False, offset=30, alpha=None):
    for shape in shapes:
        for cplx in cplxs:
            for N in Ns:
                for sp in spacings:
                    for dt in dts:
                        for first in itertools.product(range(3), repeat=N):
                            yield {"sub": sub, "shape": shape, "cplx": cplx, "N": N, "Tmax": Tmax, "spacing": sp, "dt": dt,
                                   "sym": sym, "offset": offset, "prefix": [list(first)]}


def gen_linear(tier, seed):
    T = 4 if tier == "quick" else 5
    yield from root_cases("C14.linear", "svt", (False, True), (1, 2), T, ["even"], [0.002])
    yield from root_cases("C14.linear", "t", (False, True), (2,), T, ["even7"], [0.002], sym=True)
    if tier == "thorough":
        yield from root_cases("C14.linear", "sv", (True,), (3,), 4, ["even"], [0.002])


def gen_log(tier, seed):
    T = 4 if tier == "quick" else 5
    yield from root_cases("C14.log", "svt", (False, True), (1, 2), T, ["uneven"], [0.002])
    yield from root_cases("C14.log", "svt", (False, True), (2,), T, ["late"], [0.002])
    # the timestep increment is part of the appended event: every pattern of even / uneven spacing up to Tmax
    yield from root_cases("C14.log", "svt", (False, True), (1,), T + 1, ["event"], [0.002])
    yield from root_cases("C14.log", "t", (True,), (2,), T, ["uneven"], [0.002], sym=True)
    # three increments per event: all 3^(T-1) gap patterns (every pattern that fools a span / first-vs-last-gap heuristic)
    yield from root_cases("C14.log", "svt", (False, True), (1,), T, ["event3"], [0.002])


def gen_lag0(tier, seed):
    # letters scaled by non-dyadic factors: C(0)/C(0) must still be exactly 1.0 (and every |C(k)| <= 1 follows from Cauchy-Schwarz
    # only for the all-origin average of a stationary series, so it is not demanded)
    for sc in (0.1, 1.0 / 3.0, 1e-8, 7e5):
        for c in root_cases("C14.lag0", "svt", (False, True), (2,), 3, ["even", "uneven"], [0.002]):
            c["scale"] = sc
            yield c


def gen_time_axis(tier, seed):
    for off in (0, 30, 123456):
        yield from root_cases("C14.time_axis", "s", (False,), (1,), 5, ["event"], [0.002, 0.005, 1.0], offset=off)
    yield from root_cases("C14.time_axis", "v", (True,), (2,), 3, ["even", "uneven", "late"], [0.005], offset=77)


def gen_dtypes(tier, seed):
    """the same series stored in other dtypes of the same kind (the statement says real or complex, not float64 / complex128);
    the letters are small integers, so every product and sum is exact in every dtype"""
    T = 3 if tier == "quick" else 4
    for dt_, cplx in (("complex64", True), ("float32", False), ("int64", False), ("int32", False)):
        for c in root_cases("C14.dtypes", "svt", (cplx,), (2,), T, ["even", "uneven"], [0.002]):
            c["dtype"] = dt_
            yield c


def run(case):
    from PyMatterSim.dynamic.time_corr import time_correlation

    R = Result()
    N = case["N"]
    L = letters(case["shape"], case["cplx"], case.get("sym", False))
    scale = case.get("scale", 1.0)
    L = [v * scale for v in L]
    moves = [list(m) for m in itertools.product(range(3), repeat=N)]
    incs = INCS3 if case["spacing"] == "event3" else INCS
    ev_steps = case["spacing"] in ("event", "event3")
    events = [m + [k] for m in moves for k in range(len(incs))] if ev_steps else moves
    sig0 = {"shape": case["shape"], "complex": bool(case["cplx"]), "spacing": case["spacing"]}
    if case.get("dtype"):
        sig0["dtype"] = case["dtype"]
    queue = collections.deque([list(case["prefix"])])
    seen = set()
    h = hashlib.sha1()
    states = transitions = rows = 0
    nfail = 0
    nonflat = 0
    outside = 0
    pos0 = np.zeros((N, 2))
    H = np.eye(2) * 4.0
    while queue:
        hist = queue.popleft()
        T = len(hist)
        x = np.array([[L[ev[i]] for i in range(N)] for ev in hist])
        if ev_steps:
            steps = [case["offset"]]
            for ev in hist[1:]:
                steps.append(steps[-1] + incs[ev[N]])
        else:
            steps = [case["offset"] + s for s in SPACINGS[case["spacing"]][:T]]
        key = hashlib.sha1(x.tobytes() + repr(steps).encode()).digest()
        if key in seen:
            continue
        seen.add(key)
        states += 1
        snaps = mk_snaps([pos0] * T, H, [1] * N, steps=steps)
        if case.get("dtype"):
            x = x.astype(case["dtype"])
        x_in = x.copy()
        res = time_correlation(snaps, x_in, dt=case["dt"])
        t_ref, c_ref, c0, linear = RD.ref_time_corr(x, steps, case["dt"])
        sig = dict(sig0, path="linear" if linear else "single_origin")
        where = f"T={T} steps={steps} history={hist}"
        if not c0 > 0:
            outside += 1  # 0/0: outside the domain (cannot happen with the letters above)
        elif list(res.columns) != ["t", "time_corr"] or res.shape != (T, 2):
            R.fail(f"table {list(res.columns)} shape {res.shape} ({where})", sig=dict(sig, clause="shape"))
            nfail += 1
        else:
            obs = res.values.astype(float)
            rows += T
            ok = np.allclose(obs[:, 1], c_ref, rtol=1e-9, atol=1e-11)
            if not ok and case["shape"] == "t":
                # the other reading of "product" for tensors (element-wise), see ASSUMPTIONS
                xt = np.swapaxes(x, -1, -2)
                alt = RD.ref_time_corr(x, steps, case["dt"], y=xt)[1]
                ok = np.allclose(obs[:, 1], alt, rtol=1e-9, atol=1e-11)
            if not ok:
                nfail += 1
                k = int(np.argmax(~np.isclose(obs[:, 1], c_ref, rtol=1e-9, atol=1e-11)))
                R.fail(f"time_corr at lag index {k} = {obs[k, 1]!r}, reference {c_ref[k]!r} ({where})",
                       sig=dict(sig, clause="value"), exp={"t": t_ref, "C": c_ref}, obs=obs)
            if not (obs[0, 1] == 1.0):
                nfail += 1
                R.fail(f"lag-zero value {obs[0, 1]!r} is not exactly 1 ({where})", sig=dict(sig, clause="lag0"), sub="C14.lag0")
            if not np.allclose(obs[:, 0], t_ref, rtol=1e-12, atol=0):
                nfail += 1
                R.fail(f"time axis {obs[:, 0].tolist()} != (step - step0) * dt = {t_ref.tolist()} ({where})",
                       sig=dict(sig, clause="time_axis"), sub="C14.time_axis")
            if T > 1 and np.abs(obs[1:, 1] - 1.0).max() > 1e-6:
                nonflat += 1
            h.update(np.round(obs, 9).tobytes())
        if not np.array_equal(x_in, x):
            nfail += 1
            R.fail("input series modified", sig=dict(sig, clause="input_modified"))
        if nfail >= 3:
            break
        if T < case["Tmax"]:
            for ev in events:
                queue.append(hist + [ev])
                transitions += 1
    R.out = h.hexdigest()[:16]
    R.states = states
    R.transitions = transitions + 1
    R.elem = rows
    R.nontrivial = nonflat > 0 and outside == 0
    return R


SCALE_T = [63, 64, 65, 66, 127, 128, 129, 130, 255, 256, 257]


def gen_scale(tier, seed):
    """long series: every length around the powers of two where a blocked / chunked / small-dtype implementation changes regime"""
    Ts = SCALE_T if tier == "thorough" else [64, 65, 129, 257]
    for T in Ts:
        for shape in "svt":
            for cplx in (False, True):
                for sp in ("even", "log", "late"):
                    if tier == "quick" and sp == "late" and shape != "s":
                        continue
                    yield {"sub": "C14.scale", "T": T, "shape": shape, "cplx": cplx, "spacing": sp, "N": 2, "dt": 0.002}


def run_scale(case):
    from PyMatterSim.dynamic.time_corr import time_correlation

    R = Result()
    T, N = case["T"], case["N"]
    L = letters(case["shape"], case["cplx"])
    # deterministic aperiodic letter pattern (quadratic residues), different per particle
    x = np.array([[L[(t * t + 3 * i * t + i) % 7 % 3] for i in range(N)] for t in range(T)])
    if case["spacing"] == "even":
        steps = [100 + 20 * t for t in range(T)]
    elif case["spacing"] == "log":
        steps = [100 + (t * (t + 1)) // 2 for t in range(T)]  # every gap different
    else:
        steps = [100 + 20 * t + (7 if t == T - 1 else 0) for t in range(T)]  # even except for the very last gap
    snaps = mk_snaps([np.zeros((N, 2))] * T, np.eye(2) * 4.0, [1] * N, steps=steps)
    x_in = x.copy()
    res = time_correlation(snaps, x_in, dt=case["dt"])
    t_ref, c_ref, c0, linear = RD.ref_time_corr(x, steps, case["dt"])
    sig = {"shape": case["shape"], "complex": bool(case["cplx"]), "spacing": case["spacing"], "path": "linear" if linear else "single_origin",
           "scale": True}
    where = f"T={T} spacing={case['spacing']}"
    obs = res.values.astype(float)
    if obs.shape != (T, 2):
        R.fail(f"table shape {obs.shape} ({where})", sig=dict(sig, clause="shape"))
        return R
    ok = np.allclose(obs[:, 1], c_ref, rtol=1e-9, atol=1e-11)
    if not ok and case["shape"] == "t":
        alt = RD.ref_time_corr(x, steps, case["dt"], y=np.swapaxes(x, -1, -2))[1]
        ok = np.allclose(obs[:, 1], alt, rtol=1e-9, atol=1e-11)
    if not ok:
        k = int(np.argmax(~np.isclose(obs[:, 1], c_ref, rtol=1e-9, atol=1e-11)))
        R.fail(f"time_corr at lag index {k} = {obs[k, 1]!r}, reference {c_ref[k]!r} ({where})", sig=dict(sig, clause="value"))
    if not (obs[0, 1] == 1.0):
        R.fail(f"lag-zero value {obs[0, 1]!r} is not exactly 1 ({where})", sig=dict(sig, clause="lag0"))
    if not np.allclose(obs[:, 0], t_ref, rtol=1e-12, atol=0):
        R.fail(f"time axis differs from (step - step0) dt ({where})", sig=dict(sig, clause="time_axis"))
    if not np.array_equal(x_in, x):
        R.fail("input series modified", sig=dict(sig, clause="input_modified"))
    R.outcome(np.round(obs, 9))
    R.elem = T
    R.nontrivial = bool(np.abs(obs[1:, 1] - 1.0).max() > 1e-6)
    return R


def subs(tier, seed):
    q = tier == "quick"
    hist = "BFS over frame-append histories below each root (root = shape x real/complex x N x spacing x dt x first frame); an event " \
           "gives every particle one of three values; every state T = 1..Tmax compared in every row; "
    return [
        Sub("C14.linear", gen_linear, run,
            rule=hist + "evenly spaced timesteps, scalar / 2-vector / 2x2 tensor, real and complex, N = 1, 2" + ("" if q else ", 3")
                 + f", Tmax = {4 if q else 5}: all origins; non-trivial = some state with a lag value != 1",
            bounds={"Tmax": 4 if q else 5, "letters": 3}),
        Sub("C14.log", gen_log, run,
            rule=hist + "unevenly spaced timesteps (0,1,10,100,..; even then uneven; increment {10,40} - and {10,5,15}, all gap patterns - chosen per "
                        "event so that every even/uneven pattern incl. the degenerate T = 1, 2 and the patterns with span == (T-1) x first gap occurs): origin 0 only exactly when more than one distinct "
                        "difference exists",
            bounds={"Tmax": 4 if q else 5, "Tmax_event_steps": 5 if q else 6}),
        Sub("C14.lag0", gen_lag0, run,
            rule=hist + "letters scaled by 0.1, 1/3, 1e-8, 7e5: the lag-zero entry must be == 1.0 bit for bit (also checked in every "
                        "state of the other sub-checks)", bounds={"Tmax": 3}),
        Sub("C14.time_axis", gen_time_axis, run,
            rule=hist + "first timestep 0 / 30 / 77 / 123456, dt 0.002 / 0.005 / 1.0, increments per event: t = (step - step_0) dt "
                        "(also checked in every state of the other sub-checks)", bounds={"Tmax": 5}),
        Sub("C14.dtypes", gen_dtypes, run,
            rule=hist + "the series stored as complex64 / float32 / int64 / int32 (integer letters: every product and sum is exact), scalar / vector / "
                        "tensor, even and uneven spacing, N = 2: same table as for float64 / complex128", bounds={"Tmax": 3 if q else 4}),
        Sub("C14.scale", gen_scale, run_scale,
            rule="long series: every length T in " + str(SCALE_T if not q else [64, 65, 129, 257]) + " (around the powers of two where a blocked / "
                 "chunked implementation changes regime) x scalar/vector/tensor x real/complex x {even, every-gap-different, even-except-last-gap}; "
                 "one fixed aperiodic letter pattern per length; every row compared with the loop reference", bounds={"T": SCALE_T if not q else [64, 65, 129, 257]}),
    ]
