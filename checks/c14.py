"""C14 - time_correlation: origin-averaged normalised autocorrelation (E2 over frame-append histories).

A state is the series built so far (T = 1, 2, ... frames); an event appends one frame, i.e. assigns every
particle one value of a three-letter alphabet (scalar, 2-vector or 2x2 tensor; real or complex) and - in
the `steps` variant - also the timestep increment.  In EVERY state the whole returned table is compared with
the reference (mc/ref/dyn.py: explicit loops over lags, origins, particles, components).
"""
import collections
import hashlib
import itertools
import json
import os

import numpy as np

from mc.harness import Result, Sub
from mc.ref.base import mk_snaps
from mc.ref import dyn as RD
from mc.ref import c03x as X3
from mc.ref import c14y as Y

ASSUMPTIONS = [
    "value alphabets: real {1,-1,2}, complex {1, i, -1+i}; vectors / 2x2 tensors are fixed asymmetric arrangements of these "
    "letters; no all-zero series (C(0) > 0, otherwise 0/0); nothing is claimed about other values",
    "tensor series: 'product with the conjugate' is not spelled out by the documentation; the table must equal ONE of the two "
    "readings for all rows - trace of the matrix product A(t) conj(A(t0)) (what the code does) or the element-wise (Frobenius) "
    "product; the symmetric-tensor alphabet makes both coincide",
    "evenly spaced = exactly one distinct difference between consecutive timesteps (a two-frame series is evenly spaced, a "
    "one-frame series has no difference and takes the single-origin path; both paths give the same table there)",
    "the Snapshots object only supplies timesteps and the particle number; timesteps are integers up to 1e12 + span (exact in int64 and float64); "
    "evenly spaced is decided on the integer timesteps alone - neither their absolute size nor dt enters",
    "float tolerance rtol 1e-9 / atol 1e-11; time axis rtol 1e-12; lag zero compared with == 1.0",
    "C14.outputfile: the file named by `outputfile` is a comma-separated table with the header t,time_corr and one line per frame whose "
    "numbers equal the returned table to the documented 8 decimals (|difference| <= 0.5e-8); the textual form of the numbers is not "
    "demanded; a call without `outputfile` writes / touches no file",
    "C14.sequence: the result of a call must not depend on the calls made before it in the same process (oracle: the same call made "
    "first in a forked child with a re-imported library, which is additionally compared with the loop reference); in the 'shared' mode the "
    "same Snapshots object is passed to all calls with the same timesteps and ONE series buffer per (shape, dtype) is refilled in place "
    "between the calls; the frozen Snapshots / SingleSnapshot objects themselves are never edited in place (documented as immutable)",
]

REAL = [1.0, -1.0, 2.0]
CPLX = [1.0 + 0j, 1j, -1.0 + 1j]


def letters(shape, cplx, sym=False):
    """Three values of the requested shape built from the scalar letters."""
    a = CPLX if cplx else REAL
    if shape == "s":
        return [np.array(v) for v in a]
    if shape == "v":
        return [np.array([a[0], a[2]]), np.array([a[1], a[0]]), np.array([a[2], a[1]])]
    if sym:
        return [np.array([[a[0], a[1]], [a[1], a[2]]]), np.array([[a[1], a[2]], [a[2], a[0]]]), np.array([[a[2], a[0]], [a[0], a[1]]])]
    # asymmetric, and Re tr(A conj(A)) > 0 for every letter (3, 9|1, 1|5) so that C(0) > 0 under either reading
    return [np.array([[a[2], a[0]], [a[1], a[0]]]), np.array([[a[1], a[2]], [a[0], a[2]]]), np.array([[a[2], a[1]], [a[2], a[1]]])]


SPACINGS = {
    "even": [0, 10, 20, 30, 40, 50],
    "uneven": [0, 1, 10, 100, 1000, 10000],
    "late": [0, 10, 20, 50, 60, 70],  # evenly spaced up to three frames, uneven from the fourth on
    "even7": [0, 7, 14, 21, 28, 35],
    "pow2": [0, 1, 2, 4, 8, 16],
}
INCS = [10, 40]  # step increments when the increment is part of the event
# three increments: contains every way a cheap evenness heuristic is fooled within four frames, e.g. 0,10,15,30 (total span ==
# (T-1) x first gap) and 0,10,15,25 (first gap == last gap) - both are UNEVEN series (more than one distinct difference)
INCS3 = [10, 5, 15]


def root_cases(sub, shapes, cplxs, Ns, Tmax, spacings, dts, sym=False, offset=30, alpha=None):
    for shape in shapes:
        for cplx in cplxs:
            for N in Ns:
                for sp in spacings:
                    for dt in dts:
                        for first in itertools.product(range(3), repeat=N):
                            yield {"sub": sub, "shape": shape, "cplx": cplx, "N": N, "Tmax": Tmax, "spacing": sp, "dt": dt,
                                   "sym": sym, "offset": offset, "prefix": [list(first)]}


def gen_linear(tier, seed):
    T = 4 if tier == "quick" else 5
    yield from root_cases("C14.linear", "svt", (False, True), (1, 2), T, ["even"], [0.002])
    yield from root_cases("C14.linear", "t", (False, True), (2,), T, ["even7"], [0.002], sym=True)
    if tier == "thorough":
        yield from root_cases("C14.linear", "sv", (True,), (3,), 4, ["even"], [0.002])


def gen_log(tier, seed):
    T = 4 if tier == "quick" else 5
    yield from root_cases("C14.log", "svt", (False, True), (1, 2), T, ["uneven"], [0.002])
    yield from root_cases("C14.log", "svt", (False, True), (2,), T, ["late"], [0.002])
    # the timestep increment is part of the appended event: every pattern of even / uneven spacing up to Tmax
    yield from root_cases("C14.log", "svt", (False, True), (1,), T + 1, ["event"], [0.002])
    yield from root_cases("C14.log", "t", (True,), (2,), T, ["uneven"], [0.002], sym=True)
    # three increments per event: all 3^(T-1) gap patterns (every pattern that fools a span / first-vs-last-gap heuristic)
    yield from root_cases("C14.log", "svt", (False, True), (1,), T, ["event3"], [0.002])
    # numeric regimes of the spacing test: HUGE absolute timesteps with a small span (a relative tolerance on the absolute values calls every
    # such schedule evenly spaced) - all gap patterns, the doubling schedule and the evenly spaced counterpart at the same offset
    for off in (2_000_000_000, 10 ** 12):
        yield from root_cases("C14.log", "s", (False,), (1,), T - 1, ["event3"], [0.002], offset=off)
        yield from root_cases("C14.log", "v", (True,), (1,), T - 1, ["event3"], [0.002], offset=off)
        yield from root_cases("C14.log", "s", (False,), (1,), T + 1, ["pow2", "even"], [0.002], offset=off)
        yield from root_cases("C14.log", "t", (True,), (1,), T, ["pow2"], [0.002], offset=off)
    # tiny / huge dt with uneven spacing (a test applied to the dt-scaled time axis with an absolute tolerance lets dt decide whether all
    # origins are used): dt may only scale the t column
    for dt in (1e-15, 2e-12, 1e6):
        yield from root_cases("C14.log", "s", (False,), (1,), T - 1, ["event3"], [dt])
        yield from root_cases("C14.log", "v", (True,), (1,), T - 1, ["event3"], [dt])
        yield from root_cases("C14.log", "s", (False,), (1,), T, ["uneven", "late", "even"], [dt])


def gen_lag0(tier, seed):
    # letters scaled by non-dyadic factors: C(0)/C(0) must still be exactly 1.0 (and every |C(k)| <= 1 follows from Cauchy-Schwarz
    # only for the all-origin average of a stationary series, so it is not demanded)
    for sc in (0.1, 1.0 / 3.0, 1e-8, 7e5):
        for c in root_cases("C14.lag0", "svt", (False, True), (2,), 3, ["even", "uneven"], [0.002]):
            c["scale"] = sc
            yield c


def gen_time_axis(tier, seed):
    for off in (0, 30, 123456):
        yield from root_cases("C14.time_axis", "s", (False,), (1,), 5, ["event"], [0.002, 0.005, 1.0], offset=off)
    yield from root_cases("C14.time_axis", "v", (True,), (2,), 3, ["even", "uneven", "late"], [0.005], offset=77)
    # dt given explicitly as 0 / 0.0 (a numeric option with a default: `dt or 0.002` is exact for every other value): t == 0 in every row
    yield from root_cases("C14.time_axis", "sv", (False, True), (1,), 4, ["even", "uneven"], [0.0, 0], offset=30)
    yield from root_cases("C14.time_axis", "s", (False,), (1,), 4, ["event"], [1e-15, 2e-12, 1e6], offset=10 ** 12)
    # dt given as a Python int (1 fs steps in real units are common): with non-integer values an accumulator whose dtype follows dt truncates
    for c in root_cases("C14.time_axis", "svt", (False, True), (2,), 3, ["even", "uneven"], [1, 2], offset=30):
        c["scale"] = 1.0 / 3.0
        yield c


def gen_dtypes(tier, seed):
    """the same series stored in other dtypes of the same kind (the statement says real or complex, not float64 / complex128);
    the letters are small integers, so every product and sum is exact in every dtype"""
    T = 3 if tier == "quick" else 4
    for dt_, cplx in (("complex64", True), ("float32", False), ("int64", False), ("int32", False)):
        for c in root_cases("C14.dtypes", "svt", (cplx,), (2,), T, ["even", "uneven"], [0.002]):
            c["dtype"] = dt_
            yield c


def gen_outputfile(tier, seed):
    """the csv requested with `outputfile`: every state whose frame count is odd (and the very first state) asks for the file, the others do not;
    the non-dyadic scale factor makes every normalised value a non-terminating decimal"""
    T = 3 if tier == "quick" else 4
    for name, shapes in (("c14_out.csv", "svt"), ("c14_out.dat", "s")):
        for c in root_cases("C14.outputfile", shapes, (False, True), (2,), T, ["even", "uneven"], [0.002]):
            c["outfile"] = name
            c["scale"] = 1.0 / 3.0
            yield c
    yield from ({**c, "outfile": "c14_out.csv"} for c in root_cases("C14.outputfile", "s", (False,), (1,), 4, ["event"], [0.005], offset=123456))


def check_file(R, name, obs, sig, where):
    """the csv against the RETURNED table (obs: float array (T, 2)); returns the number of violations"""
    if not os.path.exists(name):
        R.fail(f"outputfile {name!r} was not written ({where})", sig=dict(sig, clause="outputfile_missing"))
        return 1
    head, rows, err = Y.read_csv_table(name)
    if err or head != ["t", "time_corr"] or len(rows) != len(obs) or any(len(r) != 2 for r in rows):
        R.fail(f"outputfile: header {head}, {len(rows)} rows, {err} - expected header ['t', 'time_corr'] and {len(obs)} rows of two numbers ({where})",
               sig=dict(sig, clause="outputfile_layout"))
        return 1
    got = np.array(rows, float)
    bad = np.abs(got - obs) > 0.5000001e-8 + 1e-15 * np.abs(obs)
    if bad.any():
        k = tuple(int(v) for v in np.argwhere(bad)[0])
        R.fail(f"outputfile entry {k} = {got[k]!r}, returned table {obs[k]!r}: differs by more than 0.5e-8 ({where})",
               sig=dict(sig, clause="outputfile_value"), exp=obs, obs=got)
        return 1
    return 0


def run(case):
    from PyMatterSim.dynamic.time_corr import time_correlation

    R = Result()
    N = case["N"]
    L = letters(case["shape"], case["cplx"], case.get("sym", False))
    scale = case.get("scale", 1.0)
    L = [v * scale for v in L]
    moves = [list(m) for m in itertools.product(range(3), repeat=N)]
    incs = INCS3 if case["spacing"] == "event3" else INCS
    ev_steps = case["spacing"] in ("event", "event3")
    events = [m + [k] for m in moves for k in range(len(incs))] if ev_steps else moves
    sig0 = {"shape": case["shape"], "complex": bool(case["cplx"]), "spacing": case["spacing"]}
    if case.get("dtype"):
        sig0["dtype"] = case["dtype"]
    queue = collections.deque([list(case["prefix"])])
    seen = set()
    h = hashlib.sha1()
    states = transitions = rows = 0
    nfail = 0
    nonflat = 0
    outside = 0
    pos0 = np.zeros((N, 2))
    H = np.eye(2) * 4.0
    while queue:
        hist = queue.popleft()
        T = len(hist)
        x = np.array([[L[ev[i]] for i in range(N)] for ev in hist])
        if ev_steps:
            steps = [case["offset"]]
            for ev in hist[1:]:
                steps.append(steps[-1] + incs[ev[N]])
        else:
            steps = [case["offset"] + s for s in SPACINGS[case["spacing"]][:T]]
        key = hashlib.sha1(x.tobytes() + repr(steps).encode()).digest()
        if key in seen:
            continue
        seen.add(key)
        states += 1
        snaps = mk_snaps([pos0] * T, H, [1] * N, steps=steps)
        if case.get("dtype"):
            x = x.astype(case["dtype"])
        x_in = x.copy()
        ofile = case.get("outfile")
        want_file = bool(ofile) and (T % 2 == 1 or states == 1)
        if ofile:
            before = open(ofile).read() if os.path.exists(ofile) else None
        if want_file:
            res = time_correlation(snaps, x_in, dt=case["dt"], outputfile=ofile)
        else:
            res = time_correlation(snaps, x_in, dt=case["dt"])
        t_ref, c_ref, c0, linear = RD.ref_time_corr(x, steps, case["dt"])
        sig = dict(sig0, path="linear" if linear else "single_origin")
        where = f"T={T} steps={steps} history={hist}"
        if ofile and not want_file and (open(ofile).read() if os.path.exists(ofile) else None) != before:
            nfail += 1
            R.fail(f"a call without outputfile changed the file {ofile!r} ({where})", sig=dict(sig, clause="outputfile_touched"))
        if not c0 > 0:
            outside += 1  # 0/0: outside the domain (cannot happen with the letters above)
        elif list(res.columns) != ["t", "time_corr"] or res.shape != (T, 2):
            R.fail(f"table {list(res.columns)} shape {res.shape} ({where})", sig=dict(sig, clause="shape"))
            nfail += 1
        else:
            obs = res.values.astype(float)
            rows += T
            ok = np.allclose(obs[:, 1], c_ref, rtol=1e-9, atol=1e-11)
            if not ok and case["shape"] == "t":
                # the other reading of "product" for tensors (element-wise), see ASSUMPTIONS
                xt = np.swapaxes(x, -1, -2)
                alt = RD.ref_time_corr(x, steps, case["dt"], y=xt)[1]
                ok = np.allclose(obs[:, 1], alt, rtol=1e-9, atol=1e-11)
            if not ok:
                nfail += 1
                k = int(np.argmax(~np.isclose(obs[:, 1], c_ref, rtol=1e-9, atol=1e-11)))
                R.fail(f"time_corr at lag index {k} = {obs[k, 1]!r}, reference {c_ref[k]!r} ({where})",
                       sig=dict(sig, clause="value"), exp={"t": t_ref, "C": c_ref}, obs=obs)
            if not (obs[0, 1] == 1.0):
                nfail += 1
                R.fail(f"lag-zero value {obs[0, 1]!r} is not exactly 1 ({where})", sig=dict(sig, clause="lag0"), sub="C14.lag0")
            if not np.allclose(obs[:, 0], t_ref, rtol=1e-12, atol=0):
                nfail += 1
                R.fail(f"time axis {obs[:, 0].tolist()} != (step - step0) * dt = {t_ref.tolist()} ({where})",
                       sig=dict(sig, clause="time_axis"), sub="C14.time_axis")
            if T > 1 and np.abs(obs[1:, 1] - 1.0).max() > 1e-6:
                nonflat += 1
            h.update(np.round(obs, 9).tobytes())
            if want_file:
                nfail += check_file(R, ofile, obs, sig, where)
        if not np.array_equal(x_in, x):
            nfail += 1
            R.fail("input series modified", sig=dict(sig, clause="input_modified"))
        if nfail >= 3:
            break
        if T < case["Tmax"]:
            for ev in events:
                queue.append(hist + [ev])
                transitions += 1
    if case.get("outfile") and os.path.exists(case["outfile"]):
        os.remove(case["outfile"])
    R.out = h.hexdigest()[:16]
    R.states = states
    R.transitions = transitions + 1
    R.elem = rows
    R.nontrivial = nonflat > 0 and outside == 0
    return R


SCALE_T = [63, 64, 65, 66, 127, 128, 129, 130, 255, 256, 257]


def gen_scale(tier, seed):
    """long series: every length around the powers of two where a blocked / chunked / small-dtype implementation changes regime"""
    Ts = SCALE_T if tier == "thorough" else [64, 65, 129, 257]
    for T in Ts:
        for shape in "svt":
            for cplx in (False, True):
                for sp in ("even", "log", "late"):
                    if tier == "quick" and sp == "late" and shape != "s":
                        continue
                    yield {"sub": "C14.scale", "T": T, "shape": shape, "cplx": cplx, "spacing": sp, "N": 2, "dt": 0.002}


def run_scale(case):
    from PyMatterSim.dynamic.time_corr import time_correlation

    R = Result()
    T, N = case["T"], case["N"]
    L = letters(case["shape"], case["cplx"])
    # deterministic aperiodic letter pattern (quadratic residues), different per particle
    x = np.array([[L[(t * t + 3 * i * t + i) % 7 % 3] for i in range(N)] for t in range(T)])
    if case["spacing"] == "even":
        steps = [100 + 20 * t for t in range(T)]
    elif case["spacing"] == "log":
        steps = [100 + (t * (t + 1)) // 2 for t in range(T)]  # every gap different
    else:
        steps = [100 + 20 * t + (7 if t == T - 1 else 0) for t in range(T)]  # even except for the very last gap
    snaps = mk_snaps([np.zeros((N, 2))] * T, np.eye(2) * 4.0, [1] * N, steps=steps)
    x_in = x.copy()
    res = time_correlation(snaps, x_in, dt=case["dt"])
    t_ref, c_ref, c0, linear = RD.ref_time_corr(x, steps, case["dt"])
    sig = {"shape": case["shape"], "complex": bool(case["cplx"]), "spacing": case["spacing"], "path": "linear" if linear else "single_origin",
           "scale": True}
    where = f"T={T} spacing={case['spacing']}"
    obs = res.values.astype(float)
    if obs.shape != (T, 2):
        R.fail(f"table shape {obs.shape} ({where})", sig=dict(sig, clause="shape"))
        return R
    ok = np.allclose(obs[:, 1], c_ref, rtol=1e-9, atol=1e-11)
    if not ok and case["shape"] == "t":
        alt = RD.ref_time_corr(x, steps, case["dt"], y=np.swapaxes(x, -1, -2))[1]
        ok = np.allclose(obs[:, 1], alt, rtol=1e-9, atol=1e-11)
    if not ok:
        k = int(np.argmax(~np.isclose(obs[:, 1], c_ref, rtol=1e-9, atol=1e-11)))
        R.fail(f"time_corr at lag index {k} = {obs[k, 1]!r}, reference {c_ref[k]!r} ({where})", sig=dict(sig, clause="value"))
    if not (obs[0, 1] == 1.0):
        R.fail(f"lag-zero value {obs[0, 1]!r} is not exactly 1 ({where})", sig=dict(sig, clause="lag0"))
    if not np.allclose(obs[:, 0], t_ref, rtol=1e-12, atol=0):
        R.fail(f"time axis differs from (step - step0) dt ({where})", sig=dict(sig, clause="time_axis"))
    if not np.array_equal(x_in, x):
        R.fail("input series modified", sig=dict(sig, clause="input_modified"))
    R.outcome(np.round(obs, 9))
    R.elem = T
    R.nontrivial = bool(np.abs(obs[1:, 1] - 1.0).max() > 1e-6)
    return R


# ----------------------------------------------------------------------------------------- C14.sequence
def gen_sequence(tier, seed):
    depth = 2 if tier == "quick" else 3
    nl = len(Y.SEQ_LETTERS)
    for mode in ("fresh", "shared"):
        for Lw in range(1, depth + 1):
            for word in itertools.product(range(nl), repeat=Lw):
                if Lw == 3 and len(set(word)) == 1:
                    continue
                yield {"sub": "C14.sequence", "word": list(word), "mode": mode}


_SEQ_FRESH = {}


def _seq_same(g, r):
    return g["columns"] == r["columns"] and g["file"] == r["file"] and np.array_equal(np.array(g["values"]), np.array(r["values"]), equal_nan=True)


def run_sequence(case):
    R = Result()
    names = [Y.SEQ_LETTERS[k]["id"] for k in case["word"]]
    payload = X3.fresh_child(Y.seq_eval, case, Y.SEQ_MODS)
    if "err" in payload:
        R.fail(f"call sequence {names} ({case['mode']} objects) raised {payload['err']}", sig={"part": "sequence", "exception": True})
        return R
    for k in set(case["word"]):
        if k in _SEQ_FRESH:
            continue
        lt = Y.SEQ_LETTERS[k]
        one = X3.fresh_child(Y.seq_eval, {"word": [k], "mode": "fresh"}, Y.SEQ_MODS)
        if "err" in one:
            R.fail(f"single call {lt['id']} raised {one['err']}", sig={"part": "sequence", "exception": True})
            return R
        rec = one["ok"][0]
        # the single first call against the definition (3-vectors and these timestep lists occur in no other sub-check)
        x = Y.seq_series(lt)
        t_ref, c_ref, c0, linear = RD.ref_time_corr(x, lt["steps"], lt["dt"])
        obs = np.array(rec["values"], float)
        sig = {"part": "sequence", "shape": lt["shape"], "complex": bool(lt["cplx"]), "position": "single"}
        if rec["columns"] != ["t", "time_corr"] or obs.shape != (len(lt["steps"]), 2):
            R.fail(f"single call {lt['id']}: table {rec['columns']} shape {obs.shape}", sig=dict(sig, clause="shape"))
            return R
        ok = np.allclose(obs[:, 1], c_ref, rtol=1e-9, atol=1e-11)
        if not ok and lt["shape"] == "t":
            ok = np.allclose(obs[:, 1], RD.ref_time_corr(x, lt["steps"], lt["dt"], y=np.swapaxes(x, -1, -2))[1], rtol=1e-9, atol=1e-11)
        if not ok or not np.allclose(obs[:, 0], t_ref, rtol=1e-12, atol=0) or obs[0, 1] != 1.0:
            R.fail(f"single call {lt['id']} (shape {lt['shape']}, d={lt['d']}, steps {lt['steps']}, dt {lt['dt']}) differs from the loop reference",
                   sig=dict(sig, clause="value"), exp={"t": t_ref, "C": c_ref}, obs=obs)
        if lt["file"]:
            if rec["file"] is None:
                R.fail(f"single call {lt['id']}: outputfile not written", sig=dict(sig, clause="outputfile_missing"))
            else:
                with open("c14_seq_ref.csv", "w") as f:
                    f.write(rec["file"])
                check_file(R, "c14_seq_ref.csv", obs, sig, f"single call {lt['id']}")
                os.remove("c14_seq_ref.csv")
        elif rec["file"] is not None:
            R.fail(f"single call {lt['id']} without outputfile: {rec['file']}", sig=dict(sig, clause="outputfile_touched"))
        _SEQ_FRESH[k] = rec
    states = set()
    for pos_, (k, got) in enumerate(zip(case["word"], payload["ok"])):
        ref = _SEQ_FRESH[k]
        lt = Y.SEQ_LETTERS[k]
        if not _seq_same(got, ref):
            what = "table" if (got["columns"] == ref["columns"] and got["values"] != ref["values"]) else "file / layout"
            R.fail(f"call #{pos_ + 1} ({lt['id']}: shape {lt['shape']} d={lt['d']} complex={lt['cplx']} N={lt['N']} steps={lt['steps']} dt={lt['dt']} "
                   f"file={lt['file']}) of the sequence {names} ({case['mode']} objects) differs ({what}) from the same call made first in a fresh process",
                   sig={"part": "sequence", "mode": case["mode"], "position": "later" if pos_ else "first"},
                   exp={"values": ref["values"], "file": ref["file"]}, obs={"values": got["values"], "file": got["file"]})
        states.add(json.dumps(got, sort_keys=True)[:4000])
    R.outcome(sorted(states), nd=9)
    R.states = len(case["word"]) + 1
    R.transitions = len(case["word"])
    R.elem = sum(len(g["values"]) for g in payload["ok"])
    R.nontrivial = True
    return R


def subs(tier, seed):
    q = tier == "quick"
    hist = "BFS over frame-append histories below each root (root = shape x real/complex x N x spacing x dt x first frame); an event " \
           "gives every particle one of three values; every state T = 1..Tmax compared in every row; "
    return [
        Sub("C14.linear", gen_linear, run,
            rule=hist + "evenly spaced timesteps, scalar / 2-vector / 2x2 tensor, real and complex, N = 1, 2" + ("" if q else ", 3")
                 + f", Tmax = {4 if q else 5}: all origins; non-trivial = some state with a lag value != 1",
            bounds={"Tmax": 4 if q else 5, "letters": 3}),
        Sub("C14.log", gen_log, run,
            rule=hist + "unevenly spaced timesteps (0,1,10,100,..; even then uneven; increment {10,40} - and {10,5,15}, all gap patterns - chosen per "
                        "event so that every even/uneven pattern incl. the degenerate T = 1, 2 and the patterns with span == (T-1) x first gap occurs): origin 0 only exactly when more than one distinct "
                        "difference exists; the same gap patterns at the offsets 2e9 and 1e12 (plus 0,1,2,4,8,16 and the evenly spaced counterpart there) and with "
                        "dt = 1e-15, 2e-12, 1e6 (dt only scales the t column)",
            bounds={"Tmax": 4 if q else 5, "Tmax_event_steps": 5 if q else 6}),
        Sub("C14.lag0", gen_lag0, run,
            rule=hist + "letters scaled by 0.1, 1/3, 1e-8, 7e5: the lag-zero entry must be == 1.0 bit for bit (also checked in every "
                        "state of the other sub-checks)", bounds={"Tmax": 3}),
        Sub("C14.time_axis", gen_time_axis, run,
            rule=hist + "first timestep 0 / 30 / 77 / 123456, dt 0.002 / 0.005 / 1.0 and dt = 0.0 / 0 given explicitly, increments per event: t = (step - step_0) dt "
                        "(also checked in every state of the other sub-checks)", bounds={"Tmax": 5}),
        Sub("C14.dtypes", gen_dtypes, run,
            rule=hist + "the series stored as complex64 / float32 / int64 / int32 (integer letters: every product and sum is exact), scalar / vector / "
                        "tensor, even and uneven spacing, N = 2: same table as for float64 / complex128", bounds={"Tmax": 3 if q else 4}),
        Sub("C14.outputfile", gen_outputfile, run,
            rule=hist + "values scaled by 1/3 (non-terminating decimals), scalar / vector / tensor, real / complex, even / uneven / per-event spacing; "
                        "states with an odd frame count pass `outputfile` (names ending in .csv and .dat, the same NAME rewritten by every such state), "
                        "the others do not: the file has the header t,time_corr, one line per frame, every number equal to the returned table within "
                        "0.5e-8; calls without `outputfile` leave the file untouched", bounds={"Tmax": 3 if q else 4}),
        Sub("C14.sequence", gen_sequence, run_sequence,
            rule=f"explicit-state search over call words of length <= {2 if q else 3} over {len(Y.SEQ_LETTERS)} complete argument tuples (pairs collide in plausible "
                 "incomplete memo keys: same (nframes, first, last timestep) / different interior - even, uneven, uneven with the same first and last gap; "
                 "same series / other dt; same shape and timesteps / other values; 2-vectors then 3-vectors; scalar / vector / tensor of the same leading "
                 "shape; real then complex; other N; other first timestep; same output file NAME / other content) x {fresh objects per call (all alive), "
                 "shared Snapshots objects and ONE series buffer refilled in place}; every word in a forked child whose library module was re-imported; "
                 "every call must return (table and file) bit for bit what the same call returns when made first, which is compared with the loop reference",
            bounds={"letters": len(Y.SEQ_LETTERS), "depth": 2 if q else 3, "modes": 2}),
        Sub("C14.scale", gen_scale, run_scale,
            rule="long series: every length T in " + str(SCALE_T if not q else [64, 65, 129, 257]) + " (around the powers of two where a blocked / "
                 "chunked implementation changes regime) x scalar/vector/tensor x real/complex x {even, every-gap-different, even-except-last-gap}; "
                 "one fixed aperiodic letter pattern per length; every row compared with the loop reference", bounds={"T": SCALE_T if not q else [64, 65, 129, 257]}),
    ]
