"""C02 - minimum-image displacements (E1: cells x masks x fractional grid x lattice shifts)."""
import itertools

import numpy as np

from mc import alphabets as A
from mc.harness import Result, Sub

ASSUMPTIONS = [
    "displacements are generated on the dyadic fractional grid {+-1/8,...,+-15/8}^d (never a half-cell tie) plus the "
    "exact ties {+-1/2,+-3/2}; lattice shifts {-2..2}^d; nothing is claimed about other real values",
    "float comparison tolerance 1e-9 (relative to cell size)",
]

GRID = [k / 8.0 for k in range(-15, 16, 2)]  # 16 values, never k/2
TIES = [-1.5, -0.5, 0.5, 1.5]


def kind(H):
    H = np.array(H)
    if np.allclose(H, np.diag(np.diag(H))):
        return "diag"
    if np.allclose(H, np.tril(H)):
        return "tri"
    return "general"


def gen(tier, seed):
    for d in (2, 3):
        cells = A.cells2d() if d == 2 else A.cells3d(full=(tier == "thorough"))
        for H in cells:
            for m in A.masks(d):
                for mode in ("batch", "ties", "single"):
                    for ptype in ("array", "list"):
                        if ptype == "list" and mode != "batch":
                            continue
                        if mode == "single" and tier == "quick" and d == 3 and kind(H) != "diag" and m != [1, 1, 1]:
                            continue
                        yield {"d": d, "H": H, "ppp": m, "mode": mode, "ppp_type": ptype}


def run(case):
    from PyMatterSim.utils.pbc import remove_pbc

    R = Result()
    d = case["d"]
    H = np.array(case["H"], float)
    Hinv = np.linalg.inv(H)
    m = np.array(case["ppp"])
    ppp = m if case["ppp_type"] == "array" else list(case["ppp"])
    sig = {"cell": kind(H), "d": d, "masked": bool((m == 0).any()), "mode": case["mode"]}
    vals = TIES if case["mode"] == "ties" else GRID
    s = np.array(list(itertools.product(vals, repeat=d)))
    if case["mode"] == "ties":
        # ties on one axis at a time combined with grid values on the others
        rows = []
        for ax in range(d):
            for t in TIES:
                for rest in itertools.product(GRID[::5], repeat=d - 1):
                    v = list(rest)
                    v.insert(ax, t)
                    rows.append(v)
        s = np.array(rows)
    r = s @ H
    r0 = r.copy()
    if case["mode"] == "single":
        out = np.array([np.asarray(remove_pbc(r[i], H, ppp)).reshape(-1, d)[0] for i in range(0, len(r), 1 if d == 2 else 7)])
        idx = np.arange(0, len(r), 1 if d == 2 else 7)
        s, r = s[idx], r[idx]
        r0 = r.copy()
    else:
        out = np.asarray(remove_pbc(r, H, ppp))
    R.elem = len(r)
    if not np.array_equal(r, r0):
        R.fail("input array modified", sig=dict(sig, clause="input_modified"))
    if out.shape != r.shape:
        R.fail(f"shape {out.shape} != {r.shape}", sig=dict(sig, clause="shape"))
        return R
    scale = np.abs(H).max()
    # (1) lattice translations only, none on non-periodic axes
    n = (out - r) @ Hinv
    if np.abs(n - np.rint(n)).max() > 1e-9:
        i = int(np.argmax(np.abs(n - np.rint(n)).max(axis=1)))
        R.fail("output - input is not an integer combination of cell vectors", sig=dict(sig, clause="lattice"), exp="integer", obs={"r": r[i], "out": out[i], "n": n[i]})
    if np.abs(n[:, m == 0]).max(initial=0) > 1e-9:
        i = int(np.argmax(np.abs(n[:, m == 0]).max(axis=1)))
        R.fail("component along a non-periodic axis changed", sig=dict(sig, clause="nonperiodic"), obs={"r": r[i], "out": out[i], "n": n[i]})
    # (2) fractional coordinates on periodic axes in [-1/2, 1/2]
    f = out @ Hinv
    if np.abs(f[:, m == 1]).max(initial=0) > 0.5 + 1e-9:
        i = int(np.argmax(np.abs(f[:, m == 1]).max(axis=1)))
        R.fail("fractional coordinate outside [-1/2,1/2]", sig=dict(sig, clause="halfcell"), obs={"r": r[i], "out": out[i], "frac": f[i]})
    if case["mode"] != "ties":
        # direct reference: s - rint(s) on periodic axes (exact on the dyadic grid)
        exp = (s - np.rint(s) * m) @ H
        if not np.allclose(out, exp, rtol=0, atol=1e-9 * scale):
            i = int(np.argmax(np.abs(out - exp).max(axis=1)))
            R.fail("differs from the minimum-image reference", sig=dict(sig, clause="reference"), exp=exp[i], obs={"r": r[i], "out": out[i]})
    if case["mode"] == "batch":
        # (4) invariance under lattice shifts of periodic axes
        worst = 0.0
        for sh in itertools.product(range(-2, 3), repeat=d):
            sh = np.array(sh) * m
            if not sh.any():
                continue
            o2 = np.asarray(remove_pbc(r + sh @ H, H, ppp))
            dv = np.abs(o2 - out).max()
            if dv > worst:
                worst = dv
                wsh = sh
        R.elem += len(r) * (5**d - 1)
        if worst > 1e-9 * scale:
            R.fail(f"result changes by {worst:.3g} when lattice vector {wsh.tolist()} is added", sig=dict(sig, clause="shift_invariance"))
        # (5) idempotent
        o3 = np.asarray(remove_pbc(out, H, ppp))
        if np.abs(o3 - out).max() > 1e-9 * scale:
            R.fail("not idempotent", sig=dict(sig, clause="idempotent"))
        # (6) orthogonal cells: the shortest of all periodic images
        if kind(H) == "diag":
            best = np.full(len(r), np.inf)
            for sh in itertools.product(range(-3, 4), repeat=d):
                sh = np.array(sh) * m
                best = np.minimum(best, np.linalg.norm(r + sh @ H, axis=1))
            if np.abs(np.linalg.norm(out, axis=1) - best).max() > 1e-9 * scale:
                i = int(np.argmax(np.abs(np.linalg.norm(out, axis=1) - best)))
                R.fail("not the shortest periodic image", sig=dict(sig, clause="shortest_orth"), exp=best[i], obs={"r": r[i], "out": out[i]})
    R.outcome(np.round(out, 9))
    R.nontrivial = bool(np.abs(out - r).max() > 0)
    return R


def subs(tier, seed):
    return [
        Sub(
            "C02.contract",
            gen,
            run,
            rule="one case = (cell matrix, periodicity mask, call shape); each case evaluates the whole fractional grid "
            "(16^d nodes) and, in batch mode, all 5^d-1 lattice shifts; non-trivial = at least one vector is moved",
            bounds={"grid_per_axis": len(GRID), "ties": TIES, "shifts": "{-2..2}^d", "cells2d": len(A.cells2d()),
                    "cells3d": len(A.cells3d(full=(tier == "thorough")))},
        )
    ]
