"""C02 - minimum-image displacements (E1: cells x masks x fractional grid x lattice shifts).

Strengthened slices (docs/STRENGTHEN_TASK.md; helpers in mc/ref/c02x.py):
  C02.scale     batch sizes 0, 1, 2, 63..65, 127..129, 255..257, 4097 (thorough up to 65537) rows in ONE call
  C02.forms     argument forms: RIJ list / Fortran / strided / negative stride / read-only / float32 / int64 / (d,) vector,
                hmatrix Fortran / strided / read-only / int64, ppp list / tuple / int / bool / float / read-only / default;
                rotated, zero-diagonal, upper-triangular and general cells; no argument (nor the default ppp) may be modified
  C02.extreme   lattice shifts up to 3e9 cells (tolerance scaled with |n|); cells with aspect ratios up to 2^20 and huge tilts
  C02.sequence  explicit-state search over call words (2D / 3D, cells sharing shape / diagonal / determinant, argument buffers
                overwritten in place) in forked children
Round 4 (docs/STRENGTHEN_TASK2.md; helpers in mc/ref/c02y.py):
  C02.zeros     lesson L4: displacements that ARE the zero vector / a lattice vector, or have some components exactly 0, -0.0 or on a
                lattice point while the others are generic; all-zero batches; (n,d), (d,) and list call shapes
  C02.dtypes    lesson L5: RIJ float32 / int32 / int16 / Fortran float64, hmatrix float32, ppp uint8 / int8 / float32 arrays, lists of
                python bools and of numpy uint8 scalars (full product)
  C02.dilated   lesson L9: cell AND displacements multiplied by 2**-33 / 2**27 (exact in binary floating point): the result is the undilated
                result times the same factor ("is this cell orthogonal / is this component zero" guards with absolute tolerances change their answer)
"""
import itertools

import numpy as np

from mc import alphabets as A
from mc.harness import Result, Sub
from mc.ref import c02x as X
from mc.ref import c02y as Y

ASSUMPTIONS = [
    "displacements are generated on the dyadic fractional grid {+-1/8,...,+-15/8}^d (never a half-cell tie) plus the "
    "exact ties {+-1/2,+-3/2}; lattice shifts {-2..2}^d; nothing is claimed about other real values",
    "float comparison tolerance 1e-9 (relative to cell size)",
    "C02.scale / C02.forms / C02.extreme / C02.sequence use the odd/16 fractional grid (exact reference, no tie) with one fixed "
    "value pattern per batch size: these slices enumerate sizes, argument forms, shift magnitudes and call words, not values",
    "argument forms beyond the docstring's np.array are those numpy treats alike on the unchanged tree: RIJ as list of lists, "
    "Fortran-ordered, strided / negative-stride views, read-only, float32 (result then compared at float32 accuracy 1e-6 only), "
    "int64; hmatrix Fortran-ordered / strided view / read-only / int64; ppp as list, tuple, int64 / int32 / bool / float array, "
    "read-only array, or omitted (3D, all periodic).  hmatrix as a python list is NOT exercised",
    "huge lattice shifts (up to 3e9 cells) are demanded only on well-conditioned cells (cond < 10) with a tolerance of "
    "1e-9 + 64 eps |n| cond(H) in fractional units; cells with aspect ratios up to 2^20 and tilts up to 250 cell lengths only "
    "with shifts {-2..2}^d (beyond that the double-precision product r H^-1 itself loses the integer part: not a defect)",
    "call sequences: the result of a call must not depend on earlier calls, also when the caller re-uses ONE hmatrix / RIJ "
    "buffer object and overwrites it in place between the calls",
    "C02.zeros: the zero displacement, exact lattice vectors and components that are exactly 0 / -0.0 / an integer number of cells are valid "
    "real displacements (self pairs, particles on lattice sites): the result must be finite and equal the minimum image (zero on the "
    "periodic axes for lattice points) within 1e-9; exact integers are not half-cell ties",
    "C02.dtypes: the statement speaks of real displacements, real cell matrices and masks in {0,1}, not of float64 / int64: float32 and "
    "int32 / int16 displacement arrays, a float32 cell matrix (then compared at float32 accuracy, 2e-6 cond(H) in fractional units) and masks "
    "stored as uint8 / int8 / float32 arrays, python bools or numpy uint8 scalars in a list mean the same numbers.  float16 and extended "
    "precision are not exercised (numpy.linalg does not support them); hmatrix as a python list is not documented and not exercised",
    "C02.dilated: the minimum image is scale-covariant: remove_pbc(c r, c H) = c remove_pbc(r, H); for c a power of two this holds to rounding "
    "(checked to 1e-9 in fractional coordinates and 1e-12 relative against the undilated call); c in {2**-33, 2**27} (SI-sized / huge boxes)",
]

GRID = [k / 8.0 for k in range(-15, 16, 2)]  # 16 values, never k/2
TIES = [-1.5, -0.5, 0.5, 1.5]


def kind(H):
    H = np.array(H)
    if np.allclose(H, np.diag(np.diag(H))):
        return "diag"
    if np.allclose(H, np.tril(H)):
        return "tri"
    return "general"


def gen(tier, seed):
    for d in (2, 3):
        cells = A.cells2d() if d == 2 else A.cells3d(full=(tier == "thorough"))
        for H in cells:
            for m in A.masks(d):
                for mode in ("batch", "ties", "single"):
                    for ptype in ("array", "list"):
                        if ptype == "list" and mode != "batch":
                            continue
                        if mode == "single" and tier == "quick" and d == 3 and kind(H) != "diag" and m != [1, 1, 1]:
                            continue
                        yield {"d": d, "H": H, "ppp": m, "mode": mode, "ppp_type": ptype}


def run(case):
    from PyMatterSim.utils.pbc import remove_pbc

    R = Result()
    d = case["d"]
    H = np.array(case["H"], float)
    Hinv = np.linalg.inv(H)
    m = np.array(case["ppp"])
    ppp = m if case["ppp_type"] == "array" else list(case["ppp"])
    sig = {"cell": kind(H), "d": d, "masked": bool((m == 0).any()), "mode": case["mode"]}
    vals = TIES if case["mode"] == "ties" else GRID
    s = np.array(list(itertools.product(vals, repeat=d)))
    if case["mode"] == "ties":
        # ties on one axis at a time combined with grid values on the others
        rows = []
        for ax in range(d):
            for t in TIES:
                for rest in itertools.product(GRID[::5], repeat=d - 1):
                    v = list(rest)
                    v.insert(ax, t)
                    rows.append(v)
        s = np.array(rows)
    r = s @ H
    r0 = r.copy()
    if case["mode"] == "single":
        out = np.array([np.asarray(remove_pbc(r[i], H, ppp)).reshape(-1, d)[0] for i in range(0, len(r), 1 if d == 2 else 7)])
        idx = np.arange(0, len(r), 1 if d == 2 else 7)
        s, r = s[idx], r[idx]
        r0 = r.copy()
    else:
        out = np.asarray(remove_pbc(r, H, ppp))
    R.elem = len(r)
    if not np.array_equal(r, r0):
        R.fail("input array modified", sig=dict(sig, clause="input_modified"))
    if out.shape != r.shape:
        R.fail(f"shape {out.shape} != {r.shape}", sig=dict(sig, clause="shape"))
        return R
    scale = np.abs(H).max()
    # (1) lattice translations only, none on non-periodic axes
    n = (out - r) @ Hinv
    if np.abs(n - np.rint(n)).max() > 1e-9:
        i = int(np.argmax(np.abs(n - np.rint(n)).max(axis=1)))
        R.fail("output - input is not an integer combination of cell vectors", sig=dict(sig, clause="lattice"), exp="integer", obs={"r": r[i], "out": out[i], "n": n[i]})
    if np.abs(n[:, m == 0]).max(initial=0) > 1e-9:
        i = int(np.argmax(np.abs(n[:, m == 0]).max(axis=1)))
        R.fail("component along a non-periodic axis changed", sig=dict(sig, clause="nonperiodic"), obs={"r": r[i], "out": out[i], "n": n[i]})
    # (2) fractional coordinates on periodic axes in [-1/2, 1/2]
    f = out @ Hinv
    if np.abs(f[:, m == 1]).max(initial=0) > 0.5 + 1e-9:
        i = int(np.argmax(np.abs(f[:, m == 1]).max(axis=1)))
        R.fail("fractional coordinate outside [-1/2,1/2]", sig=dict(sig, clause="halfcell"), obs={"r": r[i], "out": out[i], "frac": f[i]})
    if case["mode"] != "ties":
        # direct reference: s - rint(s) on periodic axes (exact on the dyadic grid)
        exp = (s - np.rint(s) * m) @ H
        if not np.allclose(out, exp, rtol=0, atol=1e-9 * scale):
            i = int(np.argmax(np.abs(out - exp).max(axis=1)))
            R.fail("differs from the minimum-image reference", sig=dict(sig, clause="reference"), exp=exp[i], obs={"r": r[i], "out": out[i]})
    if case["mode"] == "batch":
        # (4) invariance under lattice shifts of periodic axes
        worst = 0.0
        for sh in itertools.product(range(-2, 3), repeat=d):
            sh = np.array(sh) * m
            if not sh.any():
                continue
            o2 = np.asarray(remove_pbc(r + sh @ H, H, ppp))
            dv = np.abs(o2 - out).max()
            if dv > worst:
                worst = dv
                wsh = sh
        R.elem += len(r) * (5**d - 1)
        if worst > 1e-9 * scale:
            R.fail(f"result changes by {worst:.3g} when lattice vector {wsh.tolist()} is added", sig=dict(sig, clause="shift_invariance"))
        # (5) idempotent
        o3 = np.asarray(remove_pbc(out, H, ppp))
        if np.abs(o3 - out).max() > 1e-9 * scale:
            R.fail("not idempotent", sig=dict(sig, clause="idempotent"))
        # (6) orthogonal cells: the shortest of all periodic images
        if kind(H) == "diag":
            best = np.full(len(r), np.inf)
            for sh in itertools.product(range(-3, 4), repeat=d):
                sh = np.array(sh) * m
                best = np.minimum(best, np.linalg.norm(r + sh @ H, axis=1))
            if np.abs(np.linalg.norm(out, axis=1) - best).max() > 1e-9 * scale:
                i = int(np.argmax(np.abs(np.linalg.norm(out, axis=1) - best)))
                R.fail("not the shortest periodic image", sig=dict(sig, clause="shortest_orth"), exp=best[i], obs={"r": r[i], "out": out[i]})
    R.outcome(np.round(out, 9))
    R.nontrivial = bool(np.abs(out - r).max() > 0)
    return R


# ------------------------------------------------------------------------------------------ shared oracle of the new slices
def compare_frac(R, sig, out, r, s_ref, H, m, tol_rows, what=""):
    """out must equal (s - rint(s) m) H; compared row by row in fractional coordinates (treats all axes alike whatever
    the aspect ratio).  s_ref: exact fractional coordinates of the input rows, tol_rows: tolerance per row."""
    out = np.asarray(out)
    if out.shape != np.shape(r):
        R.fail(f"{what}shape {out.shape} != {np.shape(r)}", sig=dict(sig, clause="shape"))
        return False
    if out.dtype.kind not in "fiu" or not np.isfinite(out.astype(float)).all():
        R.fail(f"{what}non-finite / non-real result (dtype {out.dtype})", sig=dict(sig, clause="finite"))
        return False
    if out.size == 0:
        return True
    fo = X.frac(out, H)
    exp = s_ref - np.rint(s_ref) * m
    err = np.abs(fo - exp).max(axis=1)
    bad = np.nonzero(err > tol_rows)[0]
    if len(bad):
        i = int(bad[0])
        dn = fo[i] - exp[i]
        if np.abs(dn[m == 0]).max(initial=0) > tol_rows[i]:
            cl = "nonperiodic"
        elif np.abs(dn - np.rint(dn)).max() <= tol_rows[i]:
            cl = "halfcell"
        else:
            cl = "lattice"
        R.fail(f"{what}row {i} of {len(err)} ({len(bad)} rows wrong; first wrong row {i}, last {int(bad[-1])}): fractional result "
               f"{fo[i].tolist()} but minimum image is {exp[i].tolist()}", sig=dict(sig, clause=cl),
               exp=(exp[i] @ H), obs={"r": np.asarray(r, float)[i], "out": out[i]})
        return False
    return True


# ------------------------------------------------------------------------------------------ C02.scale
SIZES_Q = [0, 1, 2, 63, 64, 65, 127, 128, 129, 255, 256, 257, 4097]
SIZES_T = SIZES_Q + [1023, 1024, 1025, 16385, 65537]


def gen_scale(tier, seed):
    for d in (2, 3):
        for ci, H in enumerate(X.CELLS_SCALE[d]):
            for m in A.masks(d):
                for n in SIZES_Q if tier == "quick" else SIZES_T:
                    yield {"d": d, "H": H, "ppp": m, "n": n, "salt": ci}


def run_scale(case):
    from PyMatterSim.utils.pbc import remove_pbc

    R = Result()
    d, n = case["d"], case["n"]
    H = np.array(case["H"], float)
    m = np.array(case["ppp"])
    s = X.frac_rows(n, d, case["salt"])
    r = s @ H
    r0, H0 = r.copy(), H.copy()
    sig = {"cell": kind(H), "d": d, "masked": bool((m == 0).any()), "slice": "scale",
           "size": "0" if n == 0 else "<=64" if n <= 64 else ("65..128" if n <= 128 else ">128")}
    out = remove_pbc(r, H, m)
    R.elem = n
    if not (np.array_equal(r, r0) and np.array_equal(H, H0) and np.array_equal(m, case["ppp"])):
        R.fail("an input array was modified", sig=dict(sig, clause="input_modified"))
    compare_frac(R, sig, out, r, s, H, m, np.full(n, 1e-9), what=f"n={n}: ")
    R.outcome(np.round(np.asarray(out, float), 9))
    R.nontrivial = bool(np.abs(np.asarray(out) - r)[-1].max() > 0) if (m.any() and n) else False
    return R


# ------------------------------------------------------------------------------------------ C02.forms
RIJ_FORMS = ["array", "list", "fortran", "rows_slice", "cols_slice", "negstride", "readonly", "float32", "int64", "single", "single_list", "single_strided"]
H_FORMS = ["array", "fortran", "view", "readonly", "int64"]
PPP_FORMS = ["list", "tuple", "int64", "int32", "bool", "float", "readonly", "default"]
NFORM = 65
SENT = 99.5


def gen_forms(tier, seed):
    for d in (2, 3):
        cells = X.CELLS_SCALE[d] + X.CELLS_GENERAL[d]
        if tier == "quick":
            cells = [X.CELLS_SCALE[d][1], X.CELLS_GENERAL[d][0], X.CELLS_GENERAL[d][1], X.CELLS_GENERAL[d][3]]
        for ci, H in enumerate(cells):
            for m in A.masks(d):
                for rf in RIJ_FORMS:
                    yield {"d": d, "H": H, "ppp": m, "rij_form": rf, "salt": ci}


def _mk_rij(form, r):
    """-> (object passed, container whose bytes must not change, its pristine copy)"""
    n, d = r.shape
    if form == "array":
        a = r.copy()
        return a, a, a.copy()
    if form == "list":
        a = r.tolist()
        return a, np.array(a), np.array(a)
    if form == "fortran":
        a = np.asfortranarray(r)
        return a, a, a.copy()
    if form == "rows_slice":
        big = np.full((2 * n, d), SENT)
        big[::2] = r
        return big[::2], big, big.copy()
    if form == "cols_slice":
        wide = np.full((n, d + 2), SENT)
        wide[:, 1:1 + d] = r
        return wide[:, 1:1 + d], wide, wide.copy()
    if form == "negstride":
        base = r[::-1].copy()
        return base[::-1], base, base.copy()
    if form == "readonly":
        a = r.copy()
        a.flags.writeable = False
        return a, a, a.copy()
    if form == "float32":
        a = r.astype(np.float32)
        return a, a, a.copy()
    if form == "int64":
        a = r.astype(np.int64)
        return a, a, a.copy()
    if form == "single":  # one (d,) vector
        a = r[0].copy()
        return a, a, a.copy()
    if form == "single_list":
        a = r[0].tolist()
        return a, np.array(a), np.array(a)
    if form == "single_strided":  # one column of a (d, k) array
        blk = np.full((d, 3), SENT)
        blk[:, 1] = r[0]
        return blk[:, 1], blk, blk.copy()
    raise ValueError(form)


def _mk_h(form, H):
    d = len(H)
    if form == "array":
        a = H.copy()
        return a, a, a.copy()
    if form == "fortran":
        a = np.asfortranarray(H)
        return a, a, a.copy()
    if form == "view":
        big = np.full((d, 2 * d), SENT)
        big[:, ::2] = H
        return big[:, ::2], big, big.copy()
    if form == "readonly":
        a = H.copy()
        a.flags.writeable = False
        return a, a, a.copy()
    if form == "int64":
        a = H.astype(np.int64)
        return a, a, a.copy()
    raise ValueError(form)


def _mk_ppp(form, m):
    if form == "list":
        return [int(v) for v in m]
    if form == "tuple":
        return tuple(int(v) for v in m)
    if form in ("int64", "int32", "bool", "float"):
        return np.array(m, dtype={"int64": np.int64, "int32": np.int32, "bool": bool, "float": float}[form])
    if form == "readonly":
        a = np.array(m)
        a.flags.writeable = False
        return a
    raise ValueError(form)


def run_forms(case):
    from PyMatterSim.utils import pbc

    R = Result()
    d, rf = case["d"], case["rij_form"]
    H = np.array(case["H"], float)
    m = np.array(case["ppp"])
    condH = float(np.linalg.cond(H))
    if rf == "int64":
        r = X.int_rows(NFORM, d, case["salt"]).astype(float)
        s = X.frac(r, H)
        # integer displacements are not on the dyadic fractional grid: rows within 1e-6 of a half-cell tie are not compared
        per = s[:, m == 1]
        keep = (np.abs(np.abs(per - np.rint(per)) - 0.5).min(axis=1, initial=1.0) > 1e-6)
    else:
        s = X.frac_rows(NFORM, d, case["salt"])
        r = s @ H
        keep = np.ones(NFORM, bool)
    tol = np.full(NFORM, 1e-6 if rf == "float32" else 1e-9) * max(1.0, condH / 4)
    if rf.startswith("single"):
        r, s, keep, tol = r[-1:], s[-1:], keep[-1:], tol[-1:]
    outs = []
    n_calls = 0
    for hf in H_FORMS:
        for pf in PPP_FORMS:
            if pf == "default" and not (d == 3 and m.all()):
                continue
            if hf == "int64" and not np.array_equal(H, np.rint(H)):
                continue  # an integer-typed hmatrix only for integer-valued cells
            sig = {"cell": kind(H), "d": d, "masked": bool((m == 0).any()), "slice": "forms", "rij": rf, "hmatrix": hf, "ppp": pf}
            a_r, c_r, c_r0 = _mk_rij(rf, r)
            a_h, c_h, c_h0 = _mk_h(hf, H)
            default0 = np.array(pbc.remove_pbc.__defaults__[0]).copy()
            if pf == "default":
                out = pbc.remove_pbc(a_r, a_h)
                a_p = p0 = None
            else:
                a_p = _mk_ppp(pf, m)
                p0 = np.array(a_p).copy()
                out = pbc.remove_pbc(a_r, a_h, a_p)
            n_calls += 1
            if not (np.array_equal(c_r, c_r0) and c_r.dtype == c_r0.dtype):
                R.fail(f"RIJ ({rf}) or the memory around the view was modified", sig=dict(sig, clause="input_modified", arg="RIJ"))
            if not np.array_equal(c_h, c_h0):
                R.fail(f"hmatrix ({hf}) or the memory around the view was modified", sig=dict(sig, clause="input_modified", arg="hmatrix"))
            if a_p is not None and not (np.shape(a_p) == p0.shape and np.array_equal(np.array(a_p), p0) and type(a_p) in (list, tuple, np.ndarray)):
                R.fail(f"ppp ({pf}) was modified", sig=dict(sig, clause="input_modified", arg="ppp"))
            dflt = pbc.remove_pbc.__defaults__[0]
            if not (np.shape(dflt) == default0.shape == (3,) and np.array_equal(np.array(dflt), default0) and np.array_equal(default0, [1, 1, 1])):
                R.fail(f"the default value of ppp is now {dflt!r}", sig=dict(sig, clause="default_mutated"))
            o = np.asarray(out)
            if rf.startswith("single"):
                # a (d,) input: the statement does not fix whether (d,) or (1, d) comes back
                if o.size != d:
                    R.fail(f"{o.size} numbers returned for one {d}-vector", sig=dict(sig, clause="shape"))
                    break
                o = o.reshape(1, d)
            ok = o.shape == r.shape
            if not ok:
                R.fail(f"shape {o.shape} != {r.shape}", sig=dict(sig, clause="shape"))
                break
            compare_frac(R, sig, o[keep], r[keep], s[keep], H, m, tol[keep])
            outs.append(np.round(o.astype(float), 6))
            if R.viol:
                break  # one witness per case: the first failing (hmatrix form, ppp form)
        if R.viol:
            break
    R.elem = n_calls * len(r)
    R.outcome(outs[0] if outs else None)
    R.nontrivial = bool(m.any()) and bool(keep.sum() >= (len(r) + 1) // 2)
    return R


# ------------------------------------------------------------------------------------------ C02.extreme
def gen_extreme(tier, seed):
    for d in (2, 3):
        for H in X.CELLS_SCALE[d] + X.CELLS_GENERAL[d]:
            for m in A.masks(d):
                if not any(m):
                    continue
                yield {"d": d, "H": H, "ppp": m, "what": "bigshift"}
        for H in X.CELLS_ASPECT[d]:
            for m in A.masks(d):
                yield {"d": d, "H": H, "ppp": m, "what": "aspect"}


def run_extreme(case):
    from PyMatterSim.utils.pbc import remove_pbc

    R = Result()
    d = case["d"]
    H = np.array(case["H"], float)
    m = np.array(case["ppp"])
    sig = {"cell": kind(H), "d": d, "masked": bool((m == 0).any()), "slice": case["what"]}
    base = X.frac_rows(8, d, 1)
    if case["what"] == "bigshift":
        mags = X.BIG if d == 2 else X.BIG[::2] + [X.BIG[-1]]
        N = np.array(list(itertools.product(mags, repeat=d)), float) * m
    else:
        N = np.array(list(itertools.product(range(-2, 3), repeat=d)), float) * m
    s = (base[None, :, :] + N[:, None, :]).reshape(-1, d)  # exact: < 2^36 with 4 fractional bits
    r = s @ H
    r0 = r.copy()
    out = remove_pbc(r, H, m)
    R.elem = len(r)
    if not np.array_equal(r, r0):
        R.fail("input array modified", sig=dict(sig, clause="input_modified"))
    eps = np.finfo(float).eps
    if case["what"] == "bigshift":
        tol = 1e-9 + 64 * eps * np.abs(s).max(axis=1) * float(np.linalg.cond(H))
    else:
        tol = np.full(len(r), 1e-9)
    ok = compare_frac(R, sig, out, r, s, H, m, tol)
    if ok and X.is_orthogonal(H) and case["what"] == "aspect":
        # orthogonal cell: the shortest of all periodic images
        o = np.asarray(out)
        best = np.full(len(r), np.inf)
        for sh in itertools.product(range(-1, 2), repeat=d):
            best = np.minimum(best, np.linalg.norm(o + (np.array(sh) * m) @ H, axis=1))
        if (np.linalg.norm(o, axis=1) > best * (1 + 1e-12) + 1e-300).any():
            R.fail("not the shortest periodic image", sig=dict(sig, clause="shortest_orth"))
    R.outcome(np.round(X.frac(out, H), 6))
    R.nontrivial = bool(m.any())
    return R


# ------------------------------------------------------------------------------------------ C02.sequence (E2)
# letters: (d, cell, mask or None (= default argument), rows, single vector?)
SEQ_LETTERS = [
    {"d": 2, "H": [[4.0, 0.0], [0.0, 8.0]], "ppp": [1, 1], "n": 5},
    {"d": 2, "H": [[4.0, 0.0], [1.0, 8.0]], "ppp": [1, 1], "n": 5},  # same diagonal, tilt
    {"d": 2, "H": [[4.0, 0.0], [-2.0, 8.0]], "ppp": [1, 0], "n": 7},
    {"d": 2, "H": [[0.0, 4.0], [-8.0, 0.0]], "ppp": [1, 1], "n": 5},  # quarter turn: zero diagonal, same shape
    {"d": 3, "H": [[4.0, 0.0, 0.0], [0.0, 8.0, 0.0], [0.0, 0.0, 6.0]], "ppp": None, "n": 5},
    {"d": 3, "H": [[4.0, 0.0, 0.0], [1.0, 8.0, 0.0], [-1.0, 1.0, 6.0]], "ppp": [1, 1, 1], "n": 5},  # same diagonal / det / trace
    {"d": 3, "H": [[4.0, 1.0, 0.5], [-1.0, 5.0, 1.0], [0.5, -1.0, 6.0]], "ppp": [1, 0, 1], "n": 7},
    {"d": 3, "H": [[4.0, 0.0, 0.0], [0.0, 8.0, 0.0], [0.0, 0.0, 6.0]], "ppp": None, "n": 1, "single": True},
]


def gen_sequence(tier, seed):
    depth = 2 if tier == "quick" else 3
    nl = len(SEQ_LETTERS)
    for buf in (False, True):
        for L in range(1, depth + 1):
            for word in itertools.product(range(nl), repeat=L):
                yield {"word": list(word), "buffers": buf}


def _seq_child(case):
    """forked child: the calls of the word in order.  With buffers=True every call passes the SAME hmatrix / RIJ / ppp array
    objects per dimension (overwritten in place with the letter's values), so object identity carries no information."""
    from PyMatterSim.utils import pbc

    bufH = {2: np.zeros((2, 2)), 3: np.zeros((3, 3))}
    bufR = {2: np.zeros((7, 2)), 3: np.zeros((7, 3))}
    bufP = {2: np.zeros(2, dtype=int), 3: np.zeros(3, dtype=int)}
    outs = []
    for pos, k in enumerate(case["word"]):
        lt = SEQ_LETTERS[k]
        d = lt["d"]
        H = np.array(lt["H"])
        r = X.frac_rows(lt["n"], d, k) @ H
        if case["buffers"]:
            np.copyto(bufH[d], H)
            H = bufH[d]
            bufR[d][: lt["n"]] = r
            r = bufR[d][: lt["n"]]
            if lt["ppp"] is not None:
                np.copyto(bufP[d], lt["ppp"])
        if lt.get("single"):
            r = r[0]
        if lt["ppp"] is None:
            o = pbc.remove_pbc(r, H)
        else:
            o = pbc.remove_pbc(r, H, bufP[d] if case["buffers"] else list(lt["ppp"]))
        outs.append(np.asarray(o, float).reshape(-1, d).tolist())
    return {"outs": outs, "default": np.asarray(pbc.remove_pbc.__defaults__[0]).tolist()}


def run_sequence(case):
    R = Result()
    payload = X.forked(_seq_child, case)
    feat = {"slice": "sequence", "buffers": case["buffers"]}
    if "err" in payload:
        R.fail(f"call sequence {case['word']} raised {payload['err']}", sig=dict(feat, clause="exception"))
        return R
    res = payload["ok"]
    states = set()
    for pos, (k, got) in enumerate(zip(case["word"], res["outs"])):
        lt = SEQ_LETTERS[k]
        d = lt["d"]
        H = np.array(lt["H"])
        m = np.array(lt["ppp"] if lt["ppp"] is not None else [1, 1, 1])
        s = X.frac_rows(lt["n"], d, k)
        if lt.get("single"):
            s = s[:1]
        sig = dict(feat, position="first" if pos == 0 else "later", d=d)
        if pos > 0:
            prev = SEQ_LETTERS[case["word"][pos - 1]]
            sig["prev_same_d"] = prev["d"] == d
        states.add((k, str(got)))
        if not compare_frac(R, sig, np.array(got), s @ H, s, H, m, np.full(len(s), 1e-9),
                            what=f"call #{pos + 1} of the word {case['word']} (letters = cells/masks of SEQ_LETTERS): "):
            break
    if res["default"] != [1, 1, 1]:
        R.fail(f"default ppp is {res['default']} after the calls", sig=dict(feat, clause="default_mutated"))
    R.elem = sum(SEQ_LETTERS[k]["n"] for k in case["word"])
    R.states = len(states)
    R.transitions = len(case["word"])
    R.outcome(res["outs"])
    return R


# ------------------------------------------------------------------------------------------ C02.zeros (round 4, L4)
def gen_zeros(tier, seed):
    for d in (2, 3):
        cells = (A.cells2d() if d == 2 else A.cells3d(full=(tier == "thorough"))) + X.CELLS_GENERAL[d]
        for H in cells:
            for m in A.masks(d):
                for shape in ("batch", "single", "allzero"):
                    yield {"d": d, "H": H, "ppp": m, "shape": shape, "tier": tier}


def _cmp_rows(R, sig, out, r, s, H, m, tol, what=""):
    """every row against (s - rint(s) m) H in fractional coordinates; the signature names the class of the first wrong row"""
    o = np.asarray(out)
    if o.shape != np.shape(r):
        R.fail(f"{what}shape {o.shape} != {np.shape(r)}", sig=dict(sig, clause="shape"))
        return False
    if o.dtype.kind not in "fiu" or not np.isfinite(o.astype(float)).all():
        i = int(np.argmax(~np.isfinite(o.astype(float)).all(axis=1))) if o.dtype.kind in "fc" else 0
        R.fail(f"{what}non-finite / non-real result (dtype {o.dtype}); first such row {i}: input fractional {s[i].tolist()} -> {o[i].tolist()}",
               sig=dict(sig, clause="finite", rows=Y.row_class(s[i], m)), obs={"r": np.asarray(r, float)[i], "out": o[i]})
        return False
    if o.size == 0:
        return True
    fo = X.frac(o, H)
    exp = s - np.rint(s) * m
    err = np.abs(fo - exp).max(axis=1)
    bad = np.nonzero(err > tol)[0]
    if len(bad):
        i = int(bad[0])
        R.fail(f"{what}row {i} of {len(err)} ({len(bad)} rows wrong): input fractional {s[i].tolist()} -> fractional result {fo[i].tolist()}, minimum image "
               f"is {exp[i].tolist()}", sig=dict(sig, clause="reference", rows=Y.row_class(s[i], m)), exp=exp[i] @ H, obs={"r": np.asarray(r, float)[i], "out": o[i]})
        return False
    return True


def run_zeros(case):
    from PyMatterSim.utils.pbc import remove_pbc

    R = Result()
    d = case["d"]
    H = np.array(case["H"], float)
    m = np.array(case["ppp"])
    sig = {"cell": kind(H), "d": d, "masked": bool((m == 0).any()), "slice": "zeros", "shape": case["shape"]}
    s = Y.zero_rows(d, case["tier"])
    scale = np.abs(H).max()
    if case["shape"] == "allzero":
        # nothing but zero displacements: (n, d) float, (1, d), integer zeros, a list of lists, and the (d,) zero vector
        outs = []
        for tag, arg in (("(5,d) float zeros", np.zeros((5, d))), ("(1,d) float zeros", np.zeros((1, d))), ("(3,d) negative zeros", -np.zeros((3, d))),
                         ("(4,d) int64 zeros", np.zeros((4, d), dtype=np.int64)), ("list of zero rows", [[0.0] * d, [0.0] * d]), ("(d,) zero vector", np.zeros(d))):
            keep = np.array(arg, float)
            o = np.asarray(remove_pbc(arg, H, m), float)
            if not np.array_equal(np.array(arg, float), keep):
                R.fail(f"{tag}: input modified", sig=dict(sig, clause="input_modified"))
            o2 = o.reshape(-1, d) if o.size == keep.size else o
            _cmp_rows(R, sig, o2, keep.reshape(-1, d), np.zeros((keep.size // d, d)), H, m, 1e-9, what=tag + ": ")
            outs.append(o2)
            R.elem += keep.size // d
        R.outcome([np.round(o, 9) for o in outs])
        R.nontrivial = True
        return R
    r = s @ H
    r0 = r.copy()
    if case["shape"] == "single":
        got = [np.asarray(remove_pbc(r[i], H, m), float) for i in range(len(r))]
        if any(g.size != d for g in got):
            R.fail(f"{[g.size for g in got if g.size != d][0]} numbers returned for one {d}-vector", sig=dict(sig, clause="shape"))
            return R
        out = np.array([g.reshape(d) for g in got])
    else:
        out = remove_pbc(r, H, m)
    R.elem = len(r)
    if not np.array_equal(r, r0):
        R.fail("input array modified", sig=dict(sig, clause="input_modified"))
    if _cmp_rows(R, sig, out, r, s, H, m, 1e-9) and case["shape"] == "batch":
        o = np.asarray(out, float)
        o2 = np.asarray(remove_pbc(o, H, m), float)
        R.elem += len(r)
        if o2.shape != o.shape or not np.isfinite(o2).all() or np.abs(o2 - o).max() > 1e-9 * scale:
            R.fail("not idempotent on results that contain exact zeros", sig=dict(sig, clause="idempotent"))
    R.outcome(np.round(np.asarray(out, float), 9))
    R.nontrivial = True  # every case holds the zero vector, lattice vectors and rows with single zero components (fixed alphabet)
    return R


# ------------------------------------------------------------------------------------------ C02.dtypes (round 4, L5)
def gen_dtypes(tier, seed):
    for d in (2, 3):
        cells = X.CELLS_SCALE[d] + X.CELLS_GENERAL[d]
        if tier == "quick":
            cells = [X.CELLS_SCALE[d][0], X.CELLS_SCALE[d][1], X.CELLS_GENERAL[d][0], X.CELLS_GENERAL[d][3]]
        for ci, H in enumerate(cells):
            for m in A.masks(d):
                for rf in Y.RIJ_DTYPES:
                    yield {"d": d, "H": H, "ppp": m, "rij": rf, "salt": ci}


def _mk_ppp_dtype(form, m):
    if form in ("uint8", "int8", "float32", "int64"):
        return np.array(m, dtype=form)
    if form == "boollist":
        return [bool(v) for v in m]
    if form == "uint8list":
        return [np.uint8(v) for v in m]
    raise ValueError(form)


def run_dtypes(case):
    from PyMatterSim.utils.pbc import remove_pbc

    R = Result()
    d, rf = case["d"], case["rij"]
    H = np.array(case["H"], float)
    m = np.array(case["ppp"])
    condH = float(np.linalg.cond(H))
    integer = rf in ("int32", "int16")
    if integer:
        r = X.int_rows(NFORM, d, case["salt"]).astype(float)
        s = X.frac(r, H)
    else:
        s = X.frac_rows(NFORM, d, case["salt"])
        r = s @ H  # multiples of 1/32 below 64: exact in float32 too
    outs = []
    n_calls = 0
    for hf in Y.H_DTYPES:
        f32 = hf == "float32" or rf == "float32"
        tol = (2e-6 if f32 else 1e-9) * max(1.0, condH)
        keep = np.ones(NFORM, bool)
        if integer:
            # integer displacements are not on the dyadic fractional grid: rows close to a half-cell tie are not compared
            per = s[:, m == 1]
            keep = np.abs(np.abs(per - np.rint(per)) - 0.5).min(axis=1, initial=1.0) > (1e-3 if f32 else 1e-6)
        for pf in Y.PPP_DTYPES:
            sig = {"cell": kind(H), "d": d, "masked": bool((m == 0).any()), "slice": "dtypes", "rij": rf, "hmatrix": hf, "ppp": pf}
            a_r = {"float32": lambda: r.astype(np.float32), "int32": lambda: r.astype(np.int32), "int16": lambda: r.astype(np.int16),
                   "float64_fortran": lambda: np.asfortranarray(r)}[rf]()
            a_h = H.astype(np.float32) if hf == "float32" else H.copy()
            a_p = _mk_ppp_dtype(pf, m)
            k_r, k_h, k_p = a_r.copy(), a_h.copy(), list(a_p) if isinstance(a_p, list) else a_p.copy()
            out = remove_pbc(a_r, a_h, a_p)
            n_calls += 1
            if not (np.array_equal(a_r, k_r) and a_r.dtype == k_r.dtype and np.array_equal(a_h, k_h) and a_h.dtype == k_h.dtype):
                R.fail(f"RIJ ({rf}) or hmatrix ({hf}) was modified", sig=dict(sig, clause="input_modified"))
            if type(a_p) is not type(k_p) or not np.array_equal(np.array(a_p), np.array(k_p)) or (isinstance(a_p, np.ndarray) and a_p.dtype != k_p.dtype):
                R.fail(f"ppp ({pf}) was modified", sig=dict(sig, clause="input_modified", arg="ppp"))
            o = np.asarray(out)
            if o.shape != r.shape:
                R.fail(f"shape {o.shape} != {r.shape}", sig=dict(sig, clause="shape"))
                break
            compare_frac(R, sig, o[keep], r[keep], s[keep], H, m, np.full(int(keep.sum()), tol))
            outs.append(np.round(o.astype(float), 5))
            if R.viol:
                break
        if R.viol:
            break
    R.elem = n_calls * NFORM
    R.outcome(outs[0] if outs else None)
    R.nontrivial = bool(m.any())
    return R


# ------------------------------------------------------------------------------------------ C02.dilated (round 4, L9)
DILATIONS = [2.0**-33, 2.0**27]


def gen_dilated(tier, seed):
    for d in (2, 3):
        cells = X.CELLS_SCALE[d] + X.CELLS_GENERAL[d]
        cells = cells + (A.cells2d()[3:7] if d == 2 else A.cells3d(full=(tier == "thorough"))[3:])
        for ci, H in enumerate(cells):
            for m in A.masks(d):
                for c in DILATIONS:
                    yield {"d": d, "H": H, "ppp": m, "c": c, "salt": ci % 5}


def run_dilated(case):
    from PyMatterSim.utils.pbc import remove_pbc

    R = Result()
    d, c = case["d"], case["c"]
    H = np.array(case["H"], float)
    m = np.array(case["ppp"])
    s = np.vstack([X.frac_rows(NFORM, d, case["salt"]), Y.zero_rows(d, "quick")[:: 3 if d == 2 else 7]])
    r = s @ H
    Hc, rc = H * c, r * c  # exact: c is a power of two
    k_h, k_r = Hc.copy(), rc.copy()
    sig = {"cell": kind(H), "d": d, "masked": bool((m == 0).any()), "slice": "dilated", "factor": "2^-33" if c < 1 else "2^27"}
    out = remove_pbc(rc, Hc, m)
    base = np.asarray(remove_pbc(r, H, m), float)
    R.elem = len(r)
    if not (np.array_equal(Hc, k_h) and np.array_equal(rc, k_r)):
        R.fail("an input array was modified", sig=dict(sig, clause="input_modified"))
    if compare_frac(R, sig, out, rc, s, Hc, m, np.full(len(r), 1e-9), what=f"cell and displacements x {sig['factor']}: "):
        o = np.asarray(out, float)
        dev = np.abs(o - base * c).max() / (np.abs(H).max() * c)
        if dev > 1e-12:
            R.fail(f"remove_pbc(c r, c H) differs from c remove_pbc(r, H) by {dev:.3g} cell lengths (c = {sig['factor']})", sig=dict(sig, clause="covariance"))
    R.outcome(np.round(np.asarray(out, float) / c, 9))
    R.nontrivial = bool(m.any())
    return R


def subs(tier, seed):
    extra = [
        Sub("C02.scale", gen_scale, run_scale,
            rule="SIZES: one call with n rows for n around the usual block sizes (63/64/65, 127..129, 255..257, 4097; thorough also "
                 "1023..1025, 16385, 65537) x 3 cells per dimension (orthogonal, triangular, general) x all masks; one fixed dyadic value "
                 "pattern per size (two rows of three and the last two rows are moved on every axis); every row compared with the exact "
                 "minimum image; non-trivial = the last row is moved",
            bounds={"sizes": SIZES_Q if tier == "quick" else SIZES_T, "cells_per_d": 3}),
        Sub("C02.forms", gen_forms, run_forms,
            rule="ARGUMENT FORMS: full product RIJ form (" + ", ".join(RIJ_FORMS) + ") x hmatrix form (" + ", ".join(H_FORMS) + ") x ppp form ("
                 + ", ".join(PPP_FORMS) + "; default = argument omitted, 3D all-periodic only) x cells (triangular + rotated / non-triangular / "
                 "zero-diagonal / upper-triangular) x masks, 65 rows each; every row compared with the exact minimum image, every argument "
                 "(and the memory around strided views, and the default ppp) must be unchanged; one case = (cell, mask, RIJ form)",
            bounds={"rows": NFORM, "rij_forms": RIJ_FORMS, "h_forms": H_FORMS, "ppp_forms": PPP_FORMS}),
        Sub("C02.extreme", gen_extreme, run_extreme,
            rule="MAGNITUDES: (a) lattice shifts with |n| in {1, 3, 1e3, 32767, 32768, 4e4, 7e4, 1e6, 2^31, 2^31+5, 3e9} per axis (full product "
                 "in 2D, every second value in 3D) on 7 well-conditioned cells per dimension x masks, tolerance scaled with |n|; (b) cells "
                 "with aspect ratios up to 2^20, edge lengths 2^-20..2^21 and tilts up to 250 cell lengths x masks x shifts {-2..2}^d; "
                 "8 base points each; compared in fractional coordinates",
            bounds={"shift_magnitudes": X.BIG, "aspect_cells": {d: len(X.CELLS_ASPECT[d]) for d in (2, 3)}}),
        Sub("C02.sequence", gen_sequence, run_sequence,
            rule="explicit-state search over CALL SEQUENCES: all words of length <= " + ("2" if tier == "quick" else "3") + " over 8 calls (2D / 3D, "
                 "cells sharing shape, diagonal, determinant and trace but not tilt, a zero-diagonal cell, different masks, default ppp, "
                 "(n,d) and (d,) inputs), each word twice: fresh argument objects per call / ONE hmatrix, RIJ and ppp buffer per dimension "
                 "overwritten in place; every word runs in a forked child; every call must return the minimum image for ITS OWN arguments",
            bounds={"depth": 2 if tier == "quick" else 3, "letters": len(SEQ_LETTERS)}),
        Sub("C02.zeros", gen_zeros, run_zeros,
            rule="EXACT ZEROS / LATTICE POINTS (lesson L4): every row of {0, -0.0, +-1, -2, 3, 3/8, -11/8}^d in fractional coordinates (3D quick: 6 of the 8 "
                 "values) - the zero vector, lattice vectors, rows with some components exactly zero or on a lattice point and the others generic - x all "
                 "contract cells + 4 rotated / zero-diagonal / upper-triangular cells x all masks x call shape {one (n,d) batch (+ idempotence), row by row "
                 "as (d,) vectors, all-zero inputs (float / -0.0 / int64 / list / (1,d) / (d,))}; every row finite and equal to the exact minimum image",
            bounds={"values_per_axis": len(Y.ZVALS), "values_per_axis_3d_quick": len(Y.ZVALS_QUICK3)}),
        Sub("C02.dtypes", gen_dtypes, run_dtypes,
            rule="STORAGE TYPES (lesson L5): full product RIJ {" + ", ".join(Y.RIJ_DTYPES) + "} x hmatrix {" + ", ".join(Y.H_DTYPES) + "} x ppp {"
                 + ", ".join(Y.PPP_DTYPES) + "} (boollist = python bools, uint8list = numpy uint8 scalars in a list) x 4 (quick) / 7 cells per dimension x all "
                 "masks, 65 rows each; every row against the exact minimum image (float32 anywhere: 2e-6 cond(H)); arguments unchanged; one case = (cell, mask, RIJ type)",
            bounds={"rows": NFORM, "rij": Y.RIJ_DTYPES, "hmatrix": Y.H_DTYPES, "ppp": Y.PPP_DTYPES}),
        Sub("C02.dilated", gen_dilated, run_dilated,
            rule="ABSOLUTE SCALE (lesson L9): cell matrix and displacements both multiplied by 2**-33 and by 2**27 (exact) x 7 scale/general cells + 4 (2D) / 9 "
                 "(3D quick; thorough all) lower-triangular contract cells per dimension x all masks; 65 generic rows + rows with exact zeros / lattice points; every row "
                 "against the exact minimum image in fractional coordinates and against factor x (result of the undilated call)",
            bounds={"factors": ["2^-33", "2^27"], "rows": NFORM}),
    ]
    return [
        Sub(
            "C02.contract",
            gen,
            run,
            rule="one case = (cell matrix, periodicity mask, call shape); each case evaluates the whole fractional grid "
            "(16^d nodes) and, in batch mode, all 5^d-1 lattice shifts; non-trivial = at least one vector is moved",
            bounds={"grid_per_axis": len(GRID), "ties": TIES, "shifts": "{-2..2}^d", "cells2d": len(A.cells2d()),
                    "cells3d": len(A.cells3d(full=(tier == "thorough")))},
        )
    ] + extra
