"""C18 - purity: no analysis routine modifies snapshot / argument arrays, repeated calls agree whatever ran in
between, and a requested output file holds the returned values (E2: explicit-state search over CALL SEQUENCES).

A case is one call sequence (list of event names).  `run` executes it on FRESH fixtures in a forked child of a
worker that has never executed a library routine (so default-argument arrays and module globals are in their
initial state too) and checks after EVERY call
  (1) C18.inputs_unchanged    the observed-state hash (snapshots, argument arrays, input files, ndarray / mutable
                              default arguments of every PyMatterSim function and method, module-level ndarray
                              globals) equals the initial hash;
  (2) C18.repeatable          the result is bit-identical to the result of the same event called first on fresh
                              fixtures (differential oracle: "reached from elsewhere" vs "from the initial state");
  (3) C18.file_equals_return  every requested output file parses back to the returned values at the written
                              precision (npy: exact; to_csv without float_format: exact round trip; %.6f / %.8f:
                              half a unit of the last written digit).
If the property holds the reachable state graph is ONE node with one self-loop per event: R.states = 1 + number of
distinct events of the sequence, R.transitions = calls executed.
"""
import glob
import itertools
import json
import math
import os

from mc.harness import Result, Sub
from mc.ref import purity as P

ASSUMPTIONS = [
    "events = 125 public entry points (97 base events + 28 siblings that repeat a routine with one argument changed) with fixed small arguments on shared fixtures (2D: N=8, 3D: N=9, 3 frames, two species; "
    "3D box centred on the origin so that the freud path aliases snapshot.positions); voropp_neighbors (external voro++ "
    "binary) and the gsd readers (gsd module not installed) are not in the alphabet",
    "results must be BIT-identical between calls; this relies on the harness pinning BLAS/OpenMP/freud to one thread",
    "objects whose documented interface is stateful are used the documented way inside ONE event: NematicOrder.tensor() "
    "before spatial_corr()/time_corr(), S2.particle_s2() before spatial_corr()/time_corr() (self.QIJ / self.s2_results are "
    "the object's own inputs); boo_3d, boo_2d and Dynamics objects ARE shared between events",
    "arrays held privately by analysis objects (boo_3d.smallqlm, Dynamics.a2_cuts ...) are not part of the input-state hash; "
    "a routine corrupting them is caught through clause (2)",
    "a module-level ndarray global whose bytes change is counted as a new state (R.states grows) and reported as "
    "inputs_unchanged/kind=global: on the unchanged tree PyMatterSim has no such globals",
    "files written by routines that return None (neighbour lists, Voronoi files, Hessian files) are part of the event's result "
    "digest (clause 2); clause (3) applies only where a value is returned; the qvector side file of sq(saveqvectors=True) and "
    "the spectra csv of vector_fft_corr hold un-returned intermediate values and are only digested",
    "numpy print options changed by Nnearests (np.set_printoptions) are process state outside the property (no array, no result depends on it)",
]

_REFS = {}  # (seed, event) -> (digest, nontrivial); computed in pristine forked children, cached per worker and shared between the workers of a run


def _seq_cases(seed, seqs, kind):
    for s in seqs:
        yield {"seed": seed, "kind": kind, "seq": list(s)}


def gen_single(tier, seed):
    yield from _seq_cases(seed, ([e] for e in P.EVENT_NAMES), "single")


def gen_twice(tier, seed):
    yield from _seq_cases(seed, ([e, e] for e in P.EVENT_NAMES), "twice")


def gen_core_pairs(tier, seed):
    yield from _seq_cases(seed, (p for p in itertools.permutations(P.CORE, 2)), "core_pair")


def gen_chain(tier, seed):
    ev = P.EVENT_NAMES
    n = len(ev)
    # round robin through all events, twice; forwards, backwards and two rotations interleaving distant events
    s = next(k for k in (7, 11, 13, 17, 1) if math.gcd(k, n) == 1)
    yield from _seq_cases(seed, [ev + ev, ev[::-1] + ev[::-1], [ev[(s * i) % n] for i in range(n)] * 2,
                                 ev[n // 2:] + ev[: n // 2] + ev], "chain")


def gen_all_pairs(tier, seed):
    yield from _seq_cases(seed, (p for p in itertools.product(P.EVENT_NAMES, repeat=2)), "pair")


def gen_core3(tier, seed):
    yield from _seq_cases(seed, (p for p in itertools.product(P.CORE, repeat=3)), "core_depth3")


def _refs_file():
    return os.path.join(os.getcwd(), f"c18refs_{os.getppid()}.jsonl")


def _publish(seed, name, ref):
    """Append a from-initial reference to this worker's table (its scratch cwd, removed by the runner with the worker)."""
    with open(_refs_file(), "a", encoding="utf-8") as f:
        f.write(json.dumps([seed, name, ref[0], bool(ref[1])]) + "\n")


def _siblings():
    """References already computed by the sibling workers of the same run (same parent pid).  A reference is the result
    digest of the event in a pristine child on fresh fixtures, so it is the same whichever worker computes it; sharing
    only saves recomputation (a wrong entry could only ADD violations, never hide one from the replay, which recomputes)."""
    pat = os.path.join(os.path.dirname(os.getcwd()), "vf_c18_*", os.path.basename(_refs_file()))
    for fn in glob.glob(pat):
        try:
            with open(fn, "r", encoding="utf-8") as f:
                lines = f.read().splitlines()
        except OSError:
            continue
        for ln in lines:
            try:
                s, n, d, nt = json.loads(ln)
            except ValueError:  # a line being appended right now
                continue
            _REFS.setdefault((s, n), (d, bool(nt)))


def _ref(seed, name):
    if (seed, name) not in _REFS:
        _siblings()
    if (seed, name) not in _REFS:
        out = P.in_child(P.reference_child, seed, name)
        _REFS[(seed, name)] = out[1] if out[0] == "ok" else None
        if out[0] == "ok":
            _publish(seed, name, out[1])
    return _REFS[(seed, name)]


def run(case):
    R = Result()
    seed, seq = case["seed"], case["seq"]
    P.library_functions()  # import every PyMatterSim module in the (pristine) parent; nothing is executed
    out = P.in_child(P.sequence_child, seed, seq)
    if out[0] != "ok":
        R.fail(f"[{P.show(seq)}] exception {out[1]}: {out[2]} @ {out[3]}", sub="C18.repeatable",
               sig={"clause": "exception", "exception": out[1], "where": out[3]})
        R.nontrivial = False
        return R
    o = out[1]
    for v in o["viol"]:
        R.fail(v["msg"], sig=v["sig"], sub=v["sub"])
    # (2) every call's result against the same event from the initial state.  Call 1 of a sequence IS that event from
    # the initial state (pristine child, fresh fixtures), so it seeds the per-worker reference table.
    nodes = set()
    nontrivial = True
    for k, (name, d, nt) in enumerate(o["calls"]):
        if k == 0 and (seed, name) not in _REFS:
            _REFS[(seed, name)] = (d, nt)
            _publish(seed, name, (d, nt))
        ref = _ref(seed, name)
        nodes.add((name, d))
        nontrivial = nontrivial and nt
        if ref is None:
            continue  # the event raises from the initial state: reported by its own depth-1 sequence
        if d != ref[0]:
            R.fail(f"[{P.show(seq[: k + 1])}] result of call {k + 1} ({name}) differs bit-wise from the result of {name} called first on fresh fixtures",
                   sig={"clause": "repeatable", "event": name}, exp=ref[0], obs=d, sub="C18.repeatable")
    R.outcome([c[1] for c in o["calls"]])
    R.nontrivial = bool(nontrivial) and len(o["calls"]) == len(seq)
    R.elem = o["elem"] + len(o["calls"])
    R.states = o["state_hashes"] + len(nodes)
    R.transitions = len(o["calls"])
    return R


ONE_NODE = ("; every call is followed by the three invariants (state hash, bit-identical result vs the same event from the initial "
            "state, output files vs returned values); if the property holds the reachable graph is one state with one self-loop per "
            "event, i.e. inner_states = executions + number of distinct events summed over sequences; non-trivial = every event of the "
            "sequence returns >= 2 distinct finite values")


def subs(tier, seed):
    ne, nc = len(P.EVENT_NAMES), len(P.CORE)
    out = [
        Sub("C18.depth1", gen_single, run, rule=f"every event ({ne}) alone from the initial state" + ONE_NODE, bounds={"events": ne, "depth": 1}),
        Sub("C18.twice", gen_twice, run, rule=f"every event twice in a row ({ne} sequences)", bounds={"events": ne, "depth": 2}),
        Sub("C18.core_pairs", gen_core_pairs, run, rule=f"every ordered pair of distinct events of the {nc}-event core {P.CORE}",
            bounds={"core": nc, "depth": 2}),
        Sub("C18.chain", gen_chain, run, rule=f"4 round-robin chains through all {ne} events, each event twice per chain (forwards, "
            "backwards, stride-7 permutation, rotated)", bounds={"events": ne, "depth": 2 * ne}),
    ]
    if tier == "thorough":
        out += [
            Sub("C18.all_pairs", gen_all_pairs, run, rule=f"ALL ordered pairs of events ({ne}^2 sequences, depth 2 complete)", bounds={"events": ne, "depth": 2}),
            Sub("C18.core_depth3", gen_core3, run, rule=f"all {nc}^3 sequences of length 3 over the core (depth 3 complete on the core)", bounds={"core": nc, "depth": 3}),
        ]
    return out
