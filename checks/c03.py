"""C03 - g(r): every total and partial column equals the normalised pair histogram (E1)."""
import itertools
import os

import numpy as np

from mc import alphabets as A
from mc.harness import Result, Sub
from mc.ref import c03x as X
from mc.ref import c03y as Y
from mc.ref.base import mk_snaps
from mc.ref.grsq import ref_gr

ASSUMPTIONS = [
    "species ids are 1..K; all frames share particle number, types and box (the library asserts this)",
    "pairs closer than 1e-9 to a bin edge may be counted in either adjacent bin (interval oracle)",
    "triclinic cells: 'minimum image' is the C02 half-cell convention; bins are int(min(boxlength)/2/width) as documented",
    "float tolerance rtol 1e-9 / atol 1e-11",
    "scale slice: one fixed deterministic point set per (size, dimension, frame); sets with a periodic fractional pair "
    "separation within 1e-9 of 1/2 (rint tie of the minimum image) are re-drawn; the reference is a vectorised pair histogram",
    "ppp may be given as ndarray, list or tuple; positions may be C- or Fortran-ordered float arrays",
    "call sequences: results must not depend on earlier calls or on other live gr objects (outputs are functions of the "
    "inputs); 'fresh state' = library modules re-imported in a forked child",
    "frame classes: all frames share the edge lengths (asserted by the library) and the composition (N_a is read from frame 0); the tilt "
    "factors, the assignment of the species to the ids and the positions may change from frame to frame, including frames without tilt",
    "storage forms: positions are a real (n, d) ndarray - float64 or float32, any strides (the library's GSD reader returns a float32 "
    "column slice, a float32 box and uint32 species = typeid + 1); species are an integer-valued ndarray of a signed / unsigned integer "
    "or float dtype; ppp is an int / float ndarray, a list or a tuple of 0/1.  float32 positions: the stored float32 values are the "
    "positions, a pair within 2e-5 of a bin edge may sit in either bin, placements with a minimum-image tie margin < 1e-5 are screened; "
    "float32 box: every value compared with rtol 2e-6 (precision of the stored box)",
    "coincident particles are a pair at distance 0, which belongs to the first bin",
    "positions may lie any number of cell vectors outside the cell (unwrapped dump columns); the minimum image does not depend on it",
    "g(r) does not depend on the unit of length: coordinates, cell and bin width multiplied by a power of two give the same table with r scaled",
]

# ============================================================================================================================
# KNOWN_OPEN - slices that expose a GENUINE DEFECT of the unchanged tree that has not been repaired yet.  They are enumerated only
# when their name is NOT listed here (or when VERIF_IGNORE_KNOWN_OPEN=1), so the registered check stays silent.  Remove the entry
# once the repair is committed in /repo.
#   "C03.forms.unsigned_types": gr.ternary / quarternary / quinary select the cross columns by `countsub = np.abs(TIJ[:, 0] - TIJ[:, 1])`.
#       For an UNSIGNED species array the difference wraps around (1 - 3 = 4294967294 for uint32), so every pair whose neighbour has
#       the lower species id drops out of gr13 / gr24 / gr35 ... and the column loses about half of its pairs (and the pair falls into
#       no column at all).  Unsigned species are what the library's own GSD reader produces (`particle_type = typeid + 1`, typeid is
#       uint32), so gr() of every GSD trajectory with 3 - 5 species is affected.
#       Witness: box 8 x 9 x 10, particles (1,1,1) (2,1,1) (1,2.5,1) with species np.array([3, 2, 1], dtype=np.uint32), rdelta 0.4:
#       gr13 is 0 in the bin centred at 1.4 that holds the 1-3 pair at r = 1.5 (72.5875585 with dtype int64), and only 2 of the 3 pairs
#       appear in any partial column.
#       Proposed repair (one line per body): build the pair table signed, `TIJ = np.c_[...].astype(np.int64)`.
KNOWN_OPEN = []  # "C03.forms.unsigned_types" was repaired by /repo commit ec72eda (known_findings.json: fixed)
# ============================================================================================================================


def is_open(name):
    return name in KNOWN_OPEN and not os.environ.get("VERIF_IGNORE_KNOWN_OPEN")


# ---------------------------------------------------------------------------- geometry helpers
def cell_for(d, cell):
    L = [8.0, 9.0, 10.0][:d]
    if cell == "orth":
        return A.hmat_tri(L, [0, 0, 0][: (1 if d == 2 else 3)])
    if cell == "orthp":  # x is the LONGEST edge, y the shortest (L_min must not be read from axis 0)
        return A.hmat_tri([10.0, 8.0, 9.0][:d], [0, 0, 0][: (1 if d == 2 else 3)])
    if cell == "orthz":  # z (3D) shortest
        return A.hmat_tri([9.0, 10.0, 8.0][:d], [0, 0, 0][: (1 if d == 2 else 3)])
    if cell == "trip":
        return A.hmat_tri([10.0, 8.0, 9.0][:d], [1.5] if d == 2 else [1.5, 1.0, -2.0])
    if cell == "tri+":
        return A.hmat_tri(L, [1.5] if d == 2 else [1.5, 1.0, -2.0])
    if cell == "tri-":
        return A.hmat_tri(L, [-2.0] if d == 2 else [-1.5, -1.0, 1.0])
    raise ValueError(cell)


def routing_positions(seed, d, w, H):
    """Six generic points whose 15 minimum-image distances fall in 15 different bins (< L_min/2)."""
    from mc.ref.grsq import pair_bins

    Lmin = float(np.diag(H).min())
    nb = int(Lmin / 2.0 / w)
    for t in range(40000):
        scale = (2.6 if d == 3 else 3.4) * (1.0 if t < 2000 else 0.8)
        pts = np.array(A.generic_points(seed, 6, d, tag=f"route{d}{t}_")) * scale + 1.0
        pb = pair_bins(pts, H, [1] * d, w, nb)
        ks = [k for (_, _, _, k, amb) in pb]
        if all(amb is None for (*_, amb) in pb) and len(set(ks)) == 15 and max(ks) < nb:
            # keep a margin to the bin edges
            if min(abs(r / w - round(r / w)) for (_, _, r, _, _) in pb) > 0.02:
                return pts.tolist()
    raise RuntimeError("no routing placement found")


def frames_for(seed, base, F, H, d):
    fr = [np.array(base, float)]
    for f in range(1, F):
        jit = np.array([[A.jitter(seed, f"fr{f}_{i}", a, 0.4) for a in range(d)] for i in range(len(base))])
        fr.append(np.array(base, float) + jit)
    return [x.tolist() for x in fr]


# --------------------------------------------------------------------------------- slice A
def gen_routing(tier, seed):
    geoms = [(3, "orth", 0.1)]
    if tier == "thorough":
        geoms = [(3, "orth", 0.1), (2, "orth", 0.1), (3, "tri-", 0.1), (2, "tri+", 0.1), (3, "orth", 0.11), (2, "orth", 0.11), (3, "orthp", 0.1), (2, "trip", 0.1)]
    for (d, cell, w) in geoms:
        H = cell_for(d, cell)
        pos = routing_positions(seed, d, w, H)
        for K in range(1, 7):
            for types in A.surjections(6, K):
                yield {"slice": "routing", "d": d, "cell": cell, "H": H.tolist(), "w": w, "frames": [pos], "types": types, "ppp": [1] * d, "csv": False}


# --------------------------------------------------------------------------------- slice B
def placements(seed, d, tier):
    H0 = cell_for(d, "orth")
    box = np.diag(H0)
    out = []
    m = 2
    sub = [5.0] * d  # sites 2.5 apart: nearest and diagonal pairs fall inside L_min/2 = 4
    pts = (np.array(A.jl_points(seed, m, d, sub, tag=f"B{d}")) + 1.0).tolist()
    for n in (2, 3, 4):
        for sub in itertools.combinations(range(len(pts)), n):
            out.append(("jl%d" % m, [pts[i] for i in sub]))
    # exact lattice (dyadic: distances sit exactly on bin edges for w=0.25/0.5), cluster, ideal gas
    lat = [[(i + 0.5) * box[a] / 2 if False else float(i * 2 + 1) for a, i in enumerate(idx)] for idx in itertools.product(range(2), repeat=d)]
    out.append(("lattice", lat))
    cl = (np.array(A.generic_points(seed, 5, d, tag=f"cl{d}")) * 1.2 + 3.0).tolist()
    out.append(("cluster", cl))
    gas = (np.array(A.generic_points(seed, 6, d, tag=f"gas{d}")) * box).tolist()
    out.append(("gas", gas))
    if tier == "thorough":
        pts3 = (np.array(A.jl_points(seed, 3, d, [6.0] * d, tag=f"B3{d}")) + 0.5).tolist()
        for n in (2, 3):
            for sub in itertools.combinations(range(len(pts3)), n):
                out.append(("jl3", [pts3[i] for i in sub]))
    return out


OPTS = {
    "cell": ["orth", "orthp", "orthz", "tri+", "tri-", "trip"],
    "w": [0.25, 0.5, 0.3, 0.27],  # 0.27: L_min/2/w = 14.8 (int() vs round() differ)
    "F": [1, 2, 3],
    "K": [1, 2],
}


def option_sets(d, tier, maxdev):
    ms = A.masks(d)
    keys = ["cell", "w", "F", "K", "mask"]
    doms = [OPTS["cell"], OPTS["w"], OPTS["F"], OPTS["K"], ms]
    for combo in itertools.product(*doms):
        dev = sum(1 for k, v, dom in zip(keys, combo, doms) if v != dom[0]) + (1 if d == 2 else 0)
        if maxdev is not None and dev > maxdev:
            continue
        yield dict(zip(keys, combo))


def gen_geometry(tier, seed):
    for d in (3, 2):
        pl = placements(seed, d, tier)
        for o in option_sets(d, tier, None if tier == "thorough" else 2):
            H = cell_for(d, o["cell"])
            for name, pts in pl:
                if name == "jl3" and (o["cell"], o["w"], o["F"], o["K"]) != ("orth", 0.25, 1, 1):
                    continue
                n = len(pts)
                types = [1] * n if o["K"] == 1 else [1 + (i % 2) for i in range(n)]
                if o["K"] == 2 and n < 2:
                    continue
                base = {"slice": "geometry", "d": d, "cell": o["cell"], "H": H.tolist(), "w": o["w"], "placement": name,
                        "frames": frames_for(seed, pts, o["F"], H, d), "types": types, "ppp": o["mask"], "csv": False}
                yield base
                if o["F"] > 1 and name in ("gas", "cluster", "lattice"):
                    # per-frame attributes: the species attached to the ids (same composition) and the tilt factors (same edge
                    # lengths: a sheared cell) change from frame to frame
                    if o["K"] == 2:
                        yield dict(base, types_frames=[types[f:] + types[:f] for f in range(o["F"])])
                    if o["cell"].startswith("tri"):
                        fac = [1.0, -1.0, 0.5]
                        yield dict(base, H_frames=[(np.diag(np.diag(H)) + (H - np.diag(np.diag(H))) * fac[f]).tolist() for f in range(o["F"])])


def gen_csv(tier, seed):
    for d in (3, 2):
        H = cell_for(d, "orth")
        pos = routing_positions(seed, d, 0.1, H)
        for K in (1, 2, 3, 4, 5, 6):
            types = [1 + (i % K) for i in range(6)]
            yield {"slice": "csv", "d": d, "cell": "orth", "H": H.tolist(), "w": 0.1, "frames": frames_for(seed, pos, 2, H, d), "types": types, "ppp": [1] * d, "csv": True}
            if 1 < K < 6:
                yield {"slice": "csv", "d": d, "cell": "orth", "H": H.tolist(), "w": 0.1, "frames": frames_for(seed, pos, 2, H, d), "types": types,
                       "types_frames": [types, types[1:] + types[:1]], "ppp": [1] * d, "csv": True}


# ------------------------------------------------------------------------------------- oracle
def run(case):
    from PyMatterSim.static.gr import gr

    R = Result()
    d = case["d"]
    H = np.array(case["H"])
    types = np.array(case["types"])
    frames = [np.array(f) for f in case["frames"]]
    w = case["w"]
    ppp = np.array(case["ppp"])
    K = len(set(case["types"]))
    sig = {"slice": case["slice"], "K": K, "d": d, "cell": case["cell"], "F": len(frames), "masked": bool((ppp == 0).any())}
    tsrc = [np.array(t) for t in case["types_frames"]] if case.get("types_frames") else types
    Hsrc = np.array(case["H_frames"], float) if case.get("H_frames") else H
    if case.get("types_frames"):
        sig["types_vary"] = True
    if case.get("H_frames"):
        sig["tilt_varies"] = True
    if case["slice"] == "frameclass":
        sig.update(tiltpat=case["tiltpat"], tclass=case["tclass"], pclass=case["pclass"])
    if case["slice"] == "unwrapped":
        sig.update(shifts=case["pattern"])
    snaps = mk_snaps(frames, Hsrc, tsrc)
    out = "gr_out.csv" if case["csv"] else None
    before = [s.positions.copy() for s in snaps.snapshots]
    res = gr(snaps, ppp=ppp, rdelta=w, outputfile=out).getresults()
    # unwrapped placements: the table must be the one of the wrapped placement (the reference reduces with floor(s + 1/2) anyway)
    ref = ref_gr([np.array(f) for f in case["frames_ref"]] if case.get("frames_ref") else frames, Hsrc, tsrc, ppp, w)
    populated = compare(R, res, ref, sig, case["types"], out)
    for s, b in zip(snaps.snapshots, before):
        if not np.array_equal(s.positions, b):
            R.fail("snapshot positions modified", sig=dict(sig, clause="input_modified"))
    cols = ref[0]
    if populated < 0:
        return R
    R.outcome({c: res[c].values for c in cols}, nd=7)
    R.nontrivial = populated >= 2 * len(cols) or (populated >= 2 and (len(types) <= 4 or case["slice"] in ("frameclass", "unwrapped")))
    R.elem = len(cols) * len(ref[1])
    return R


def compare(R, res, ref, sig, types0, out=None, rtol=1e-9, rscale=1.0):
    """every bin of every column against the reference intervals; the consequences stated in the property (sum rule, pair
    partition) on the implementation's own output; the CSV round trip.  Returns the number of populated (column, bin) cells,
    -1 when the table has the wrong shape."""
    import pandas as pd

    cols, r, lo, hi, norm = ref[:5]
    types = np.asarray(types0)
    K = len(set(types.tolist()))
    exp_cols = ["r"] + cols
    if sorted(res.columns) != sorted(exp_cols) or res.columns[0] != "r":
        R.fail(f"columns {list(res.columns)} != {exp_cols}", sig=dict(sig, clause="columns"), exp=exp_cols, obs=list(res.columns))
        return -1
    if len(res) != len(r):
        R.fail(f"{len(res)} bins, expected int(Lmin/2/w)={len(r)}", sig=dict(sig, clause="bins"))
        return -1
    if not np.allclose(res["r"].values, r, rtol=1e-12, atol=1e-12 * rscale):
        R.fail("bin centres differ", sig=dict(sig, clause="bins"), exp=r[:5], obs=res["r"].values[:5])
    populated = 0
    for c in cols:
        v = res[c].values.astype(float)
        tol = rtol * np.maximum(1.0, np.abs(hi[c])) + 1e-11
        bad = (v < lo[c] - tol) | (v > hi[c] + tol) | ~np.isfinite(v)
        populated += int((hi[c] > 0).sum())
        if bad.any():
            k = int(np.argmax(bad))
            R.fail(f"column {c} bin {k} (r={r[k]:.4f}): got {v[k]!r}, reference in [{lo[c][k]!r}, {hi[c][k]!r}]"
                   f" ({int(bad.sum())} of {len(v)} bins differ; raw pair count of the bin {hi[c][k] / norm[c][k]:.0f})",
                   sig=dict(sig, clause="column", col=c), exp=[lo[c][k], hi[c][k]], obs=v[k])
    # consequences stated in the property, evaluated on the implementation's own output
    if 1 < K <= 5:
        tl = sorted(set(types.tolist()))
        N = len(types)
        ca = {t: (types == t).sum() / N for t in tl}
        tot = np.zeros(len(r))
        cnt = np.zeros(len(r))
        for c in cols[1:]:
            a, b = int(c[2]), int(c[3])
            tot += (1 if a == b else 2) * ca[a] * ca[b] * res[c].values
            cnt += res[c].values / norm[c]
        if not np.allclose(tot, res["gr"].values, rtol=rtol, atol=1e-11):
            R.fail("total != sum_ab c_a c_b g_ab", sig=dict(sig, clause="total_sum"))
        if not np.allclose(cnt, res["gr"].values / norm["gr"], rtol=rtol, atol=max(1e-9, 10 * rtol)):
            R.fail("partial pair counts do not add up to the total pair count (a pair in zero or two columns)", sig=dict(sig, clause="partition"))
    if out is not None:
        if not os.path.exists(out):
            R.fail(f"outputfile {out} was not written", sig=dict(sig, clause="csv"))
        else:
            back = pd.read_csv(out)
            if list(back.columns) != list(res.columns) or back.shape != res.shape or \
                    not np.allclose(back.values, res.values, rtol=0, atol=0.5000001e-6):
                R.fail("CSV file differs from the returned frame beyond %.6f", sig=dict(sig, clause="csv"))
            os.remove(out)
    return populated


# ---------------------------------------------------------- slice F: frames of different CLASS
# Anything decided once from frame 0 and reused is only visible when frame 0 is of another class than a later frame: an orthogonal
# first frame followed by sheared ones (a shear run started from the undeformed box) and the reverse; species stored in sorted
# blocks in frame 0 only / in the later frames only; a first frame whose particles all sit in one small cluster.
FC_TILTS = {"o-t": [0.0, 1.0], "t-o": [1.0, 0.0], "o-t-t": [0.0, 1.0, -1.0], "t-o-t": [1.0, 0.0, 0.5], "o-o-t": [0.0, 0.0, 1.0], "t-t-o": [1.0, -1.0, 0.0]}
FC_TCLASS = ["const", "sorted_first", "sorted_later"]
FC_N = 7


def gen_frameclass(tier, seed):
    quick = tier == "quick"
    for d in (3, 2):
        for cell in (("tri+", "trip") if quick else ("tri+", "trip", "tri-")):
            H0 = cell_for(d, cell)
            D = np.diag(np.diag(H0))
            for tiltpat, fac in FC_TILTS.items():
                F = len(fac)
                Hs = [D + (H0 - D) * x for x in fac]
                for K in (1, 2, 3, 4, 5):
                    for tclass in (FC_TCLASS if K > 1 else FC_TCLASS[:1]):
                        for mask in ([1] * d, [1, 0, 1][:d]) if quick else A.masks(d)[:-1]:
                            for w in ((0.3,) if quick else (0.3, 0.27)):
                                for pclass in ("generic", "cluster_first"):
                                    if pclass == "cluster_first" and (tclass != "const" or 0 in mask):
                                        continue
                                    frames = []
                                    for f in range(F):
                                        pts = Y.generic_cell_points(seed, FC_N, Hs[f], tag=f"c03fc{d}{f}_")
                                        if pclass == "cluster_first" and f == 0:  # every particle within a ball of radius ~1 around the cell centre
                                            c = 0.5 * Hs[f].sum(axis=0)
                                            pts = c + (pts - c) * 0.12
                                        frames.append(pts.tolist())
                                    yield {"slice": "frameclass", "d": d, "cell": cell, "H": H0.tolist(), "H_frames": [h.tolist() for h in Hs], "w": w,
                                           "frames": frames, "types": Y.class_types(FC_N, K, F, tclass)[0], "types_frames": Y.class_types(FC_N, K, F, tclass),
                                           "ppp": mask, "csv": False, "tiltpat": tiltpat, "tclass": tclass, "pclass": pclass}


# ------------------------------------------------- slice H: unwrapped coordinates, several cells away
# The dump reader passes `xu yu zu` columns through unfolded, so particles several box vectors away from the cell are ordinary
# input; a fold that subtracts at most ONE cell vector is exact for |s| <= 1.5 and wrong beyond.
UNWRAP_N = [0, 2, -3, 4]


def unwrap_shifts(n, d, mask, pattern):
    """integer cell-vector multiples per particle and axis from {0, +2, -3, +4}, zero on non-periodic axes"""
    return [[UNWRAP_N[(i + 2 * a + pattern + (i * a) % 3) % 4] if mask[a] else 0 for a in range(d)] for i in range(n)]


def gen_unwrapped(tier, seed):
    quick = tier == "quick"
    for d in (3, 2):
        for cell in (("orth", "tri+", "tri-") if quick else ("orth", "orthp", "orthz", "tri+", "tri-", "trip")):
            H = cell_for(d, cell)
            for mask in A.masks(d)[:-1]:
                for K in ((1, 2, 3, 5) if quick else (1, 2, 3, 4, 5, 6)):
                    for F in (1, 2):
                        for pattern in (0, 1):
                            for w in ((0.3,) if quick else (0.3, 0.27)):
                                n = 7
                                wrapped = [Y.generic_cell_points(seed, n, H, tag=f"c03uw{d}{cell}{f}_") for f in range(F)]
                                shifted = [wr + np.array(unwrap_shifts(n, d, mask, pattern + f), float) @ H for f, wr in enumerate(wrapped)]
                                types = Y.class_types(n, K, F, "const")[0] if K <= 5 else [1, 2, 3, 4, 5, 6, 1]
                                yield {"slice": "unwrapped", "d": d, "cell": cell, "H": H.tolist(), "w": w, "frames": [x.tolist() for x in shifted],
                                       "frames_ref": [x.tolist() for x in wrapped], "types": types, "ppp": mask, "csv": False, "pattern": pattern}


# ------------------------------------------------------------ slice I: absolute scale (dilated inputs)
# g(r) is dimensionless: with coordinates, cell and bin width all multiplied by a power of two the table must be the same with r
# scaled.  Guards with an ABSOLUTE tolerance (np.allclose(hmatrix, diag) = "orthogonal", np.isclose(distance, 0)) change their answer
# for a cell of absolute size 1e-9 (SI metres) or 1e9; the tilted cells matter most.
DIL_SCALES = {"2^-33": 2.0 ** -33, "2^+27": 2.0 ** 27}


def gen_dilated(tier, seed):
    quick = tier == "quick"
    for d in (3, 2):
        for cell in (("tri+", "tri-", "orthp") if quick else ("orth", "orthp", "tri+", "tri-", "trip")):
            H = cell_for(d, cell)
            D = np.diag(np.diag(H))
            for K in ((1, 2, 3, 5) if quick else (1, 2, 3, 4, 5, 6)):
                for F in (1, 2):
                    for mask in ([1] * d, [1, 0, 1][:d]) if quick else A.masks(d)[:-1]:
                        for sname in DIL_SCALES:
                            Hs = [D + (H - D) * x for x in ([1.0, -0.5][:F])]
                            frames = [Y.generic_cell_points(seed, 7, Hs[f], tag=f"c03dl{d}{cell}{f}_").tolist() for f in range(F)]
                            types = Y.class_types(7, K, F, "const")[0] if K <= 5 else [1, 2, 3, 4, 5, 6, 1]
                            yield {"slice": "dilated", "d": d, "cell": cell, "H_frames": [h.tolist() for h in Hs], "w": 0.3, "frames": frames,
                                   "types": types, "ppp": mask, "scale": sname, "K": K}


def run_dilated(case):
    from PyMatterSim.static.gr import gr

    R = Result()
    sc = DIL_SCALES[case["scale"]]
    d, w = case["d"], case["w"]
    Hs = [np.array(h, float) for h in case["H_frames"]]
    frames = [np.array(f, float) for f in case["frames"]]
    types = np.array(case["types"])
    ppp = np.array(case["ppp"])
    sig = {"slice": "dilated", "K": len(set(case["types"])), "d": d, "cell": case["cell"], "F": len(frames), "masked": 0 in case["ppp"], "scale": case["scale"]}
    # reference on the UNDILATED configuration, bin centres mapped through the scale
    cols, r, lo, hi, norm = ref_gr(frames, np.array(Hs), types, ppp, w)[:5]
    snaps = mk_snaps([f * sc for f in frames], np.array([h * sc for h in Hs]), types)
    res = gr(snaps, ppp=ppp, rdelta=w * sc).getresults()
    populated = compare(R, res, (cols, r * sc, lo, hi, norm), sig, case["types"], None, rscale=sc)
    if populated < 0:
        return R
    R.outcome({c: res[c].values for c in cols}, nd=7)
    R.nontrivial = populated >= 2
    R.elem = len(cols) * len(r)
    return R


# ---------------------------------------------------------------- slice G: storage forms, exact values
FORM_KEYS = ["pos", "tform", "pform", "box"]
FORM_DOM = {"pos": Y.POS_FORMS, "tform": Y.TYPE_FORMS, "pform": Y.PPP_FORMS, "box": Y.BOX_FORMS}
GSD_FORM = {"pos": "f32view", "tform": "uint32", "pform": "int64", "box": "f32"}  # what read_gsd hands to gr()


def form_vectors(maxdev):
    out = []
    for combo in itertools.product(*(FORM_DOM[k] for k in FORM_KEYS)):
        fv = dict(zip(FORM_KEYS, combo))
        if sum(1 for k in FORM_KEYS if fv[k] != FORM_DOM[k][0]) <= maxdev:
            out.append(fv)
    if GSD_FORM not in out:
        out.append(dict(GSD_FORM))
    return out


def gen_forms(tier, seed):
    quick = tier == "quick"
    fvs = form_vectors(1 if quick else 2)
    for d in (3, 2):
        for cell in (("orth", "tri-") if quick else ("orth", "orthp", "tri-", "tri+")):
            for pset, F in (("dyadic", 1), ("mixed", 2)):
                for K in ((1, 2, 3, 4, 5) if quick else (1, 2, 3, 4, 5, 6)):
                    for mask in ([1] * d, [0, 1, 1][:d]) if quick else A.masks(d):
                        for w in (0.27,):
                            for fv in fvs:
                                if fv["box"] == "f32" and cell.startswith("tri"):
                                    continue  # the reader that stores a float32 box (GSD) only knows orthogonal cells
                                if fv["tform"] == "uint32" and 3 <= K <= 5 and is_open("C03.forms.unsigned_types"):
                                    continue
                                yield dict({"slice": "forms", "d": d, "cell": cell, "pset": pset, "F": F, "K": K, "ppp": mask, "w": w, "seed": seed}, **fv)


def forms_input(case):
    d, F, K = case["d"], case["F"], case["K"]
    H = cell_for(d, case["cell"])
    frames = [np.array(Y.dyadic_points(d, np.diag(H)), float)]
    if F == 2:  # a generic second frame (its values are not exact in float32), the species rotate along the ids
        frames.append(Y.generic_cell_points(case["seed"], len(frames[0]), H, tag=f"c03fm{d}{case['cell']}_"))
    n = len(frames[0])
    t0 = [1 + (i % K) for i in range(n)]
    ts = [t0[f:] + t0[:f] for f in range(F)]
    return H, frames, ts


def run_forms(case):
    from PyMatterSim.static.gr import gr

    R = Result()
    d, F, K, w = case["d"], case["F"], case["K"], case["w"]
    H, frames, ts = forms_input(case)
    Hs = [H] * F
    stored = [Y.store_positions(p, case["pos"]) for p in frames]
    vals = [Y.stored_values(p) for p in stored]           # the positions the library is given (float32-rounded for the float32 forms)
    tst = [Y.store_types(t, case["tform"]) for t in ts]
    ppp = Y.store_ppp(case["ppp"], case["pform"])
    single = case["pos"] in ("f32", "f32view") or case["box"] == "f32"
    exact = case["pset"] == "dyadic" and case["box"] == "f64"  # every stored value and every difference is exact in float32
    edge_tol = 2e-5 if (single and not exact) else 1e-9
    rtol = 2e-6 if case["box"] == "f32" else 1e-9
    if Y.tie_margin(vals, Hs, case["ppp"]) < (1e-5 if single else 1e-9):
        return R.screen()
    sig = {"slice": "forms", "K": K, "d": d, "cell": case["cell"], "F": F, "masked": 0 in case["ppp"],
           "pos": case["pos"], "types": case["tform"], "pppform": case["pform"], "box": case["box"]}
    ref = Y.ref_gr_tol(vals, Hs, ts, np.array(case["ppp"]), w, edge_tol)
    snaps = Y.raw_snaps(stored, Hs, tst, case["box"])
    p0 = [np.array(p, copy=True) for p in stored]
    t0 = [np.array(t, copy=True) for t in tst]
    res = gr(snaps, ppp=ppp, rdelta=w).getresults()
    populated = compare(R, res, ref, sig, ts[0], None, rtol=rtol)
    for s, pb, tb in zip(snaps.snapshots, p0, t0):
        if not np.array_equal(s.positions, pb) or s.positions.dtype != pb.dtype or not np.array_equal(s.particle_type, tb):
            R.fail("snapshot positions / species modified", sig=dict(sig, clause="input_modified"))
    if not np.array_equal(np.asarray(ppp), np.asarray(case["ppp"])):
        R.fail("caller's ppp modified", sig=dict(sig, clause="input_modified"))
    if populated < 0:
        return R
    cols = ref[0]
    R.outcome({c: res[c].values for c in cols}, nd=5)
    R.nontrivial = populated >= 2
    R.elem = len(cols) * len(ref[1])
    R.notes = {"zero_pairs": ref[5]["zero_pairs"], "edge_pairs": ref[5]["edge_pairs"]}
    return R


# ------------------------------------------------------------------------------ slice D: scale
SCALE_N = {"quick": [64, 65, 257, 600], "thorough": [64, 65, 130, 257, 600]}
SCALE_CELLS = ["orthp", "trip", "tri-"]        # shortest edge is y; the same with tilts; x shortest with negative tilts
SCALE_W = [2.0, 0.27, 0.031, 0.0155]           # 2 / 14 / 129 / 258 bins for L_min = 8
SCALE_MASK = {2: [[1, 0], [0, 1]], 3: [[1, 0, 1], [0, 1, 1], [1, 1, 0]]}
TILT_FAC = [1.0, -1.0, 0.5]


def scale_variant(d, iN, n, K, F, v):
    """the fixed value pattern that goes with one (dimension, size, species count, frame count); v = 0 / 1 are two
    complementary patterns (thorough runs both).  Every feature rotates with its own combination of the indices so that the
    features are not tied to each other; the dense regime (width 2.0, all directions periodic) is forced for N = 600
    (2D: single frame - one bin > 65 535 pairs and > 255 partners per particle; 3D: three frames - bin total > 65 535)."""
    iF = F // 2
    dense = n == 600 and v == 0 and ((d == 2 and F == 1) or (d == 3 and F == 3))
    if dense:
        w = 2.0
    elif n == 600:
        w = [0.27, 0.031][(K + iF + v) % 2]
    else:
        w = SCALE_W[(2 * iN + K + 3 * iF + 2 * v + d) % 4]
    masked = (not dense) and (iN + K + v) % 2 == 1
    return {
        "cell": SCALE_CELLS[(iN + K + iF + d + v) % 3],
        "w": w,
        "ppp": SCALE_MASK[d][(K + iF) % len(SCALE_MASK[d])] if masked else [1] * d,
        "comp": "single" if (iN + d + v + K // 2 + iF) % 2 == 0 else "skew",
        "csv": (K + d + iF + v) % 2 == 0,
        "pppform": ["array", "list", "tuple"][(K + 2 * iN + iF + v) % 3],
        "order": "F" if (iN + 2 * K + iF + d + v) % 4 == 1 else "C",
    }


def gen_scale(tier, seed):
    for d in (2, 3):
        for iN, n in enumerate(SCALE_N[tier]):
            for K in (1, 2, 3, 4, 5):
                for F in (1, 3):
                    for v in ((0,) if tier == "quick" else (0, 1)):
                        if n == 600 and F == 3 and (v == 1 or (tier == "quick" and (K in (2, 4) or d == 2))):
                            continue  # cost: the largest size with three frames once per K (quick: 3D, K = 1, 3, 5; the precision cases below cover the rest)
                        o = scale_variant(d, iN, n, K, F, v)
                        yield dict({"slice": "scale", "d": d, "n": n, "K": K, "F": F, "seed": seed, "variant": v}, **o)
    # precision regime: the finest width with the most pairs (N = 600, three frames, 975 bins: > 10^5 pairs within L_min/2, so
    # a relative error of 1e-7 in a distance moves several pairs across a bin edge) - once per species count
    for K in (1, 2, 3, 4, 5):
        for d in (2, 3):
            if tier == "quick" and d != (2 if K % 2 else 3):
                continue
            yield {"slice": "scale", "d": d, "n": 600, "K": K, "F": 3, "seed": seed, "variant": 2, "cell": SCALE_CELLS[(K + d) % 3], "w": 0.0041,
                   "ppp": [1] * d, "comp": "skew" if K % 2 else "single", "csv": False, "pppform": "array", "order": "C"}


def scale_input(case):
    """frames (positions inside each frame's own cell), one cell and one species array per frame; None if some point set
    could not be drawn without a minimum-image tie"""
    d, n, K, F = case["d"], case["n"], case["K"], case["F"]
    H0 = cell_for(d, case["cell"])
    D = np.diag(np.diag(H0))
    Hs = [D + (H0 - D) * TILT_FAC[f] for f in range(F)]  # tilts change from frame to frame, edge lengths do not
    t0 = np.array(X.composition(n, K, case["comp"]))
    ts = [np.roll(t0, 17 * f) for f in range(F)]  # same composition, other assignment to the ids
    ppp = np.array(case["ppp"])
    frames = []
    redraw = 0
    for f in range(F):
        for t in range(30):
            pos = X.frac_points(case["seed"], n, d, tag=f"c03s{d}_{n}_{f}_{t}_") @ Hs[f]
            if X.pairs(pos, Hs[f], ppp)[3] >= X.TIE_TOL:
                break
            redraw += 1
        else:
            return None
        frames.append(pos)
    return frames, Hs, ts, redraw


def run_scale(case):
    from PyMatterSim.static.gr import gr

    R = Result()
    inp = scale_input(case)
    if inp is None:
        return R.screen()
    frames, Hs, ts, _ = inp
    d, n, K, F, w = case["d"], case["n"], case["K"], case["F"], case["w"]
    pl = case["ppp"]
    ppp = {"array": np.array(pl), "list": list(pl), "tuple": tuple(pl)}[case["pppform"]]
    sig = {"slice": "scale", "K": K, "d": d, "cell": case["cell"], "F": F, "masked": 0 in pl, "n": n, "w": w}
    ref = X.ref_gr_vec(frames, Hs, ts, np.array(pl), w)
    info = ref[5]
    given = [np.asfortranarray(f) if case["order"] == "F" else np.ascontiguousarray(f) for f in frames]
    snaps = mk_snaps(given, np.array(Hs), ts)
    before = [s.positions.copy() for s in snaps.snapshots]
    out = "gr_scale.csv" if case["csv"] else None
    if out and os.path.exists(out):
        os.remove(out)
    res = gr(snaps, ppp=ppp, rdelta=w, outputfile=out).getresults()
    populated = compare(R, res, ref, sig, ts[0], out)
    for s, b, t in zip(snaps.snapshots, before, ts):
        if not np.array_equal(s.positions, b) or not np.array_equal(s.particle_type, t):
            R.fail("snapshot positions / species modified", sig=dict(sig, clause="input_modified"))
    if populated < 0:
        return R
    cols = ref[0]
    R.outcome({c: res[c].values for c in cols}, nd=7)
    lonely = 0 if K == 1 else int(sum(1 for a in set(ts[0].tolist()) if (ts[0] == a).sum() == 1))
    npop = sum(1 for c in cols if (ref[3][c] > 0).sum() >= 1)
    R.nontrivial = bool((ref[3]["gr"] > 0).sum() >= 2 and npop >= len(cols) - lonely)
    R.elem = len(cols) * len(ref[1])
    R.notes = {"max_bin_total": info["max_bin_total"], "max_partner_count": info["max_partner_count"], "edge_pairs": info["edge_pairs"]}
    return R


# --------------------------------------------------------------------- slice E: call sequences
# letters: small inputs that share some derived quantities and differ in others (number of bins, width, volume, dimension,
# h-matrix, composition, mask), so that state keyed by an incomplete subset of them is served to the wrong call
SEQ_LETTERS = [
    {"id": "a", "d": 3, "L": [8.0, 9.0, 10.0], "tilt": None, "w": 0.5, "K": 2, "ppp": [1, 1, 1], "F": 1},    # 8 bins
    {"id": "b", "d": 3, "L": [4.0, 4.5, 5.5], "tilt": None, "w": 0.25, "K": 2, "ppp": [1, 1, 1], "F": 1},   # 8 bins, other width and volume
    {"id": "c", "d": 3, "L": [8.0, 9.0, 10.0], "tilt": None, "w": 0.25, "K": 2, "ppp": [1, 1, 1], "F": 1},  # same cell, 16 bins
    {"id": "d", "d": 2, "L": [8.0, 9.0], "tilt": None, "w": 0.5, "K": 2, "ppp": [1, 1], "F": 1},            # 8 bins of the same width in 2D
    {"id": "e", "d": 3, "L": [8.0, 9.0, 10.0], "tilt": [1.5, 1.0, -2.0], "w": 0.5, "K": 2, "ppp": [1, 1, 1], "F": 2},  # same edges, tilted, 2 frames
    {"id": "f", "d": 3, "L": [8.0, 9.0, 10.0], "tilt": None, "w": 0.5, "K": 3, "ppp": [1, 1, 1], "F": 1},   # as 'a' with three species
    {"id": "g", "d": 2, "L": [10.0, 8.0], "tilt": None, "w": 0.5, "K": 1, "ppp": [1, 0], "F": 1},           # mask, one species
    {"id": "h", "d": 3, "L": [9.0, 8.0, 10.0], "tilt": None, "w": 0.01, "K": 1, "ppp": [1, 1, 1], "F": 1, "defaults": True},  # gr(snapshots): default ppp and rdelta
]
SEQ_MODES = ["serial", "reuse", "ahead"]
SEQ_NP = 8
SEQ_MODS = ("PyMatterSim.utils.funcs", "PyMatterSim.utils.pbc", "PyMatterSim.static.gr")  # everything gr() runs through


def seq_input(seed, lt):
    d, F = lt["d"], lt["F"]
    H0 = A.hmat_tri(lt["L"], lt["tilt"] if lt["tilt"] else ([0] if d == 2 else [0, 0, 0]))
    D = np.diag(np.diag(H0))
    Hs = [D + (H0 - D) * TILT_FAC[f] for f in range(F)]
    t0 = np.array([1 + (i % lt["K"]) for i in range(SEQ_NP)])
    ts = [np.roll(t0, f) for f in range(F)]
    frames = [X.frac_points(seed, SEQ_NP, d, tag=f"c03q{lt['id']}{f}_") @ Hs[f] for f in range(F)]
    return frames, Hs, ts


def gen_sequence(tier, seed):
    depth = 2 if tier == "quick" else 3
    nl = len(SEQ_LETTERS)
    for L in range(1, depth + 1):
        for word in itertools.product(range(nl), repeat=L):
            for mode in SEQ_MODES:
                if L == 1 and mode != "serial":
                    continue
                if mode == "reuse" and len(set(word)) == L:
                    continue  # without a repeated letter 'reuse' is 'serial'
                yield {"slice": "sequence", "word": list(word), "mode": mode, "seed": seed}


def _seq_eval(case):
    """runs in the child: the calls of the word in order; objects stay alive until the end of the word"""
    from PyMatterSim.static.gr import gr

    def make(k):
        lt = SEQ_LETTERS[k]
        frames, Hs, ts = seq_input(case["seed"], lt)
        if lt.get("defaults"):  # the documented defaults ppp = [1, 1, 1], rdelta = 0.01 (default-argument objects are shared state)
            return gr(mk_snaps(frames, np.array(Hs), ts))
        return gr(mk_snaps(frames, np.array(Hs), ts), ppp=np.array(lt["ppp"]), rdelta=lt["w"])

    word, mode = case["word"], case["mode"]
    out, alive = [], []
    if mode == "serial":          # a new object per call, the earlier ones still alive
        for k in word:
            alive.append(make(k))
            out.append(X.frame_to_json(alive[-1].getresults()))
    elif mode == "reuse":         # one object per letter: a repeated letter is a second getresults() on the same object
        objs = {}
        for k in word:
            if k not in objs:
                objs[k] = make(k)
            out.append(X.frame_to_json(objs[k].getresults()))
    else:                         # all objects constructed first, then evaluated in order
        alive = [make(k) for k in word]
        out = [X.frame_to_json(o.getresults()) for o in alive]
    return out


_FRESH = {}


def run_sequence(case):
    import pandas as pd

    R = Result()
    seed = case["seed"]
    feat = {"slice": "sequence", "mode": case["mode"]}
    payload = X.fresh_child(_seq_eval, case, SEQ_MODS)
    if "err" in payload:
        R.fail(f"call sequence {[SEQ_LETTERS[k]['id'] for k in case['word']]} ({case['mode']}) raised {payload['err']}", sig=dict(feat, exception=True))
        return R
    states = set()
    for pos, (k, got) in enumerate(zip(case["word"], payload["ok"])):
        lt = SEQ_LETTERS[k]
        key = (seed, k)
        if key not in _FRESH:
            frames, Hs, ts = seq_input(seed, lt)
            one = X.fresh_child(_seq_eval, {"word": [k], "mode": "serial", "seed": seed}, SEQ_MODS)
            _FRESH[key] = (ref_gr(frames, np.array(Hs), ts, np.array(lt["ppp"]), lt["w"]), one.get("ok", [None])[0], ts[0])
        ref, fresh, t0 = _FRESH[key]
        where = "first" if pos == 0 else "later"
        prev = [SEQ_LETTERS[j]["id"] for j in case["word"][:pos]]
        sig = dict(feat, K=lt["K"], d=lt["d"], position=where)
        res = pd.DataFrame(got["values"], columns=got["columns"])
        n0 = len(R.viol)
        compare(R, res, ref, sig, t0)
        if fresh is not None and (got["columns"] != fresh["columns"] or not np.array_equal(np.array(got["values"]), np.array(fresh["values"]), equal_nan=True)):
            R.fail(f"gr letter '{lt['id']}' after {prev} ({case['mode']}) differs from the same call made first in a fresh state",
                   sig=dict(sig, clause="history"))
        if len(R.viol) > n0:
            break
        states.add((k, json_digest(got)))
    R.elem = sum(len(g["values"]) * len(g["columns"]) for g in payload["ok"])
    R.states = len(states)
    R.transitions = len(case["word"])
    R.outcome([g["values"] for g in payload["ok"]], nd=7)
    return R


def json_digest(obj):
    import hashlib
    import json

    return hashlib.sha1(json.dumps(obj, sort_keys=True).encode()).hexdigest()[:16]


def subs(tier, seed):
    return [
        Sub("C03.routing", gen_routing, run,
            rule="six particles at fixed generic positions whose 15 pair distances lie in 15 different bins; every surjective "
                 "map of the six particles onto K species, K=1..6 (4683 maps) per geometry; every bin of every column "
                 "compared with the double-loop reference; non-trivial = populated bins >= 2 per column",
            bounds={"type_maps": 4683, "geometries": 1 if tier == "quick" else 8}),
        Sub("C03.geometry", gen_geometry, run,
            rule="options {2D,3D} x {orth (x shortest), orthp (y shortest), orthz (z shortest), tri+, tri-, trip} x widths {0.25,0.5,0.3,0.27} x frames {1,2,3} x all masks x K {1,2}; "
                 + ("full product" if tier == "thorough" else "all option vectors with <= 2 deviations from (3D, orth, 0.25, F=1, K=1, ppp=1)")
                 + "; placements = all N-subsets (N=2..4) of a jittered 2^d lattice + exact lattice + cluster + ideal gas"
                 + (" + all 2-,3-subsets of a jittered 3^d lattice (default options)" if tier == "thorough" else ""),
            bounds={"max_deviations": None if tier == "thorough" else 2}),
        Sub("C03.csv", gen_csv, run, rule="K=1..6, 2D/3D, two frames, output file parsed back and compared at %.6f"),
        Sub("C03.scale", gen_scale, run_scale,
            rule="SIZE slice (enumerates sizes, one fixed value pattern per size): N in " + str(SCALE_N[tier]) + " generic particles x K = 1..5 species "
                 "(unequal counts; every second pattern has a species with ONE member) x {2D,3D} x frames {1,3}; per case a fixed pattern of "
                 "cell {y shortest, y shortest + tilts, negative tilts}, width {2.0, 0.27, 0.031, 0.0155} (2..258 bins), mask, ppp as "
                 "array/list/tuple, C/Fortran-ordered positions, output file" + (" (two complementary patterns per size)" if tier == "thorough" else "")
                 + "; with three frames the positions, the species attached to the ids and the tilt factors change per frame; "
                 "N = 600 cases with width 2.0: a bin total > 65 535 pairs and (2D) > 255 partners of one particle in one bin; N = 600, "
                 "three frames, width 0.0041 once per K: > 10^5 pairs within range on 975 bins (precision regime); "
                 "EVERY bin of EVERY column against a vectorised pair histogram (interval oracle at bin edges), sum rule, pair partition, CSV; "
                 "non-trivial = >= 2 populated bins and every column with >= 2-member species populated",
            bounds={"N": SCALE_N[tier], "K": [1, 5], "frames": [1, 3], "widths": SCALE_W}),
        Sub("C03.frameclass", gen_frameclass, run,
            rule="trajectories whose frames are of different CLASS: {2D,3D} x tilted cells {x shortest, y shortest" + ("" if tier == "quick" else ", negative tilts")
                 + "} whose tilt factors are scaled per frame by " + str(list(FC_TILTS.values())) + " (first frame orthogonal and later ones sheared, the reverse, an "
                 "orthogonal frame in the middle / at the end; edge lengths constant) x K = 1..5 x species per frame {same in all frames, sorted blocks in "
                 "frame 0 and interleaved later, interleaved in frame 0 and sorted later} (same composition) x masks x {generic positions per "
                 f"frame, first frame one tight cluster}}; {FC_N} generic particles per frame; every bin of every column against the double-loop reference "
                 "(per-frame cell and species), sum rule, pair partition; non-trivial = >= 2 populated cells",
            bounds={"tilt_patterns": len(FC_TILTS), "species_patterns": FC_TCLASS, "K": [1, 5], "N": FC_N}),
        Sub("C03.unwrapped", gen_unwrapped, run,
            rule="UNWRAPPED coordinates: seven generic particles per frame, particle i displaced by whole cell vectors n_i . H with n from {0, +2, -3, +4} "
                 "(different per particle, axis and frame; zero on non-periodic axes; two shift patterns) x {2D,3D} x cells x every mask with a periodic "
                 "axis x K x frames {1,2}; the table must be the one of the WRAPPED placement (double-loop reference, which reduces with floor(s + 1/2))",
            bounds={"shifts": UNWRAP_N, "N": 7}),
        Sub("C03.dilated", gen_dilated, run_dilated,
            rule="ABSOLUTE SCALE: coordinates, cell (tilts included) and bin width multiplied by 2^-33 and by 2^+27 (exact in binary floating point): "
                 "g(r) is dimensionless, so every column must equal the double-loop reference of the UNDILATED configuration with the bin centres "
                 "scaled; {2D,3D} x cells " + ("{tri+, tri-, orthogonal with y shortest}" if tier == "quick" else "{orth, orthp, tri+, tri-, trip}")
                 + " x K x frames {1, 2 (tilts x -0.5 in the second frame)} x masks; seven generic particles per frame",
            bounds={"scales": list(DIL_SCALES), "N": 7}),
        Sub("C03.forms", gen_forms, run_forms,
            rule="STORAGE FORMS and exact values: positions {float64, float32, strided float64 view, float32 column slice} x species dtype "
                 "{int64, int32, float64, uint32} x ppp {int64, int32, float64 array, list, tuple} x box {float64, float32 (orthogonal cells)}: "
                 + ("every form vector with <= 1 deviation" if tier == "quick" else "every form vector with <= 2 deviations")
                 + " from (float64, int64, int64, float64) plus the combination the GSD reader produces (float32 slice, uint32, float32 box); "
                 "x {2D,3D} x cells x K = 1.." + ("5" if tier == "quick" else "6") + " x masks x point sets {seven DYADIC points: one at the origin, "
                 "on the faces x = L_x, y = 0, z = L_z, two coincident (distance exactly 0); the same followed by a generic frame with rotated "
                 "species}; reference evaluated on exactly the stored values; every bin of every column (interval oracle, distance 0 in bin 0 "
                 "for sure), sum rule, pair partition, inputs unchanged; unsigned species with K = 3..5 are a KNOWN_OPEN defect",
            bounds={"form_deviations": 1 if tier == "quick" else 2, "K": [1, 5 if tier == "quick" else 6], "known_open": list(KNOWN_OPEN)}),
        Sub("C03.sequence", gen_sequence, run_sequence,
            rule="explicit-state search over CALL SEQUENCES: all words of length <= " + ("2" if tier == "quick" else "3") + " over "
                 f"{len(SEQ_LETTERS)} letters (dimension, cell, width, composition, mask) that share some derived quantities (number of bins, "
                 "edge lengths) and differ in others, in three modes (new object per call with the old ones alive / one object per letter "
                 "called again / all objects constructed before the first evaluation); every word runs in ONE forked child whose library "
                 "modules were re-imported; every result must equal the loop reference AND, bit for bit, the same call made first in a fresh state",
            bounds={"depth": 2 if tier == "quick" else 3, "letters": len(SEQ_LETTERS), "modes": SEQ_MODES}),
    ]
