"""C03 - g(r): every total and partial column equals the normalised pair histogram (E1)."""
import itertools
import os

import numpy as np

from mc import alphabets as A
from mc.harness import Result, Sub
from mc.ref import c03x as X
from mc.ref.base import mk_snaps
from mc.ref.grsq import ref_gr

ASSUMPTIONS = [
    "species ids are 1..K; all frames share particle number, types and box (the library asserts this)",
    "pairs closer than 1e-9 to a bin edge may be counted in either adjacent bin (interval oracle)",
    "triclinic cells: 'minimum image' is the C02 half-cell convention; bins are int(min(boxlength)/2/width) as documented",
    "float tolerance rtol 1e-9 / atol 1e-11",
    "scale slice: one fixed deterministic point set per (size, dimension, frame); sets with a periodic fractional pair "
    "separation within 1e-9 of 1/2 (rint tie of the minimum image) are re-drawn; the reference is a vectorised pair histogram",
    "ppp may be given as ndarray, list or tuple; positions may be C- or Fortran-ordered float arrays",
    "call sequences: results must not depend on earlier calls or on other live gr objects (outputs are functions of the "
    "inputs); 'fresh state' = library modules re-imported in a forked child",
]

# slices whose unchanged-tree behaviour violates the property and is not yet repaired (none at present)
KNOWN_OPEN = []


# ---------------------------------------------------------------------------- geometry helpers
def cell_for(d, cell):
    L = [8.0, 9.0, 10.0][:d]
    if cell == "orth":
        return A.hmat_tri(L, [0, 0, 0][: (1 if d == 2 else 3)])
    if cell == "orthp":  # x is the LONGEST edge, y the shortest (L_min must not be read from axis 0)
        return A.hmat_tri([10.0, 8.0, 9.0][:d], [0, 0, 0][: (1 if d == 2 else 3)])
    if cell == "orthz":  # z (3D) shortest
        return A.hmat_tri([9.0, 10.0, 8.0][:d], [0, 0, 0][: (1 if d == 2 else 3)])
    if cell == "trip":
        return A.hmat_tri([10.0, 8.0, 9.0][:d], [1.5] if d == 2 else [1.5, 1.0, -2.0])
    if cell == "tri+":
        return A.hmat_tri(L, [1.5] if d == 2 else [1.5, 1.0, -2.0])
    if cell == "tri-":
        return A.hmat_tri(L, [-2.0] if d == 2 else [-1.5, -1.0, 1.0])
    raise ValueError(cell)


def routing_positions(seed, d, w, H):
    """Six generic points whose 15 minimum-image distances fall in 15 different bins (< L_min/2)."""
    from mc.ref.grsq import pair_bins

    Lmin = float(np.diag(H).min())
    nb = int(Lmin / 2.0 / w)
    for t in range(40000):
        scale = (2.6 if d == 3 else 3.4) * (1.0 if t < 2000 else 0.8)
        pts = np.array(A.generic_points(seed, 6, d, tag=f"route{d}{t}_")) * scale + 1.0
        pb = pair_bins(pts, H, [1] * d, w, nb)
        ks = [k for (_, _, _, k, amb) in pb]
        if all(amb is None for (*_, amb) in pb) and len(set(ks)) == 15 and max(ks) < nb:
            # keep a margin to the bin edges
            if min(abs(r / w - round(r / w)) for (_, _, r, _, _) in pb) > 0.02:
                return pts.tolist()
    raise RuntimeError("no routing placement found")


def frames_for(seed, base, F, H, d):
    fr = [np.array(base, float)]
    for f in range(1, F):
        jit = np.array([[A.jitter(seed, f"fr{f}_{i}", a, 0.4) for a in range(d)] for i in range(len(base))])
        fr.append(np.array(base, float) + jit)
    return [x.tolist() for x in fr]


# --------------------------------------------------------------------------------- slice A
def gen_routing(tier, seed):
    geoms = [(3, "orth", 0.1)]
    if tier == "thorough":
        geoms = [(3, "orth", 0.1), (2, "orth", 0.1), (3, "tri-", 0.1), (2, "tri+", 0.1), (3, "orth", 0.11), (2, "orth", 0.11), (3, "orthp", 0.1), (2, "trip", 0.1)]
    for (d, cell, w) in geoms:
        H = cell_for(d, cell)
        pos = routing_positions(seed, d, w, H)
        for K in range(1, 7):
            for types in A.surjections(6, K):
                yield {"slice": "routing", "d": d, "cell": cell, "H": H.tolist(), "w": w, "frames": [pos], "types": types, "ppp": [1] * d, "csv": False}


# --------------------------------------------------------------------------------- slice B
def placements(seed, d, tier):
    H0 = cell_for(d, "orth")
    box = np.diag(H0)
    out = []
    m = 2
    sub = [5.0] * d  # sites 2.5 apart: nearest and diagonal pairs fall inside L_min/2 = 4
    pts = (np.array(A.jl_points(seed, m, d, sub, tag=f"B{d}")) + 1.0).tolist()
    for n in (2, 3, 4):
        for sub in itertools.combinations(range(len(pts)), n):
            out.append(("jl%d" % m, [pts[i] for i in sub]))
    # exact lattice (dyadic: distances sit exactly on bin edges for w=0.25/0.5), cluster, ideal gas
    lat = [[(i + 0.5) * box[a] / 2 if False else float(i * 2 + 1) for a, i in enumerate(idx)] for idx in itertools.product(range(2), repeat=d)]
    out.append(("lattice", lat))
    cl = (np.array(A.generic_points(seed, 5, d, tag=f"cl{d}")) * 1.2 + 3.0).tolist()
    out.append(("cluster", cl))
    gas = (np.array(A.generic_points(seed, 6, d, tag=f"gas{d}")) * box).tolist()
    out.append(("gas", gas))
    if tier == "thorough":
        pts3 = (np.array(A.jl_points(seed, 3, d, [6.0] * d, tag=f"B3{d}")) + 0.5).tolist()
        for n in (2, 3):
            for sub in itertools.combinations(range(len(pts3)), n):
                out.append(("jl3", [pts3[i] for i in sub]))
    return out


OPTS = {
    "cell": ["orth", "orthp", "orthz", "tri+", "tri-", "trip"],
    "w": [0.25, 0.5, 0.3, 0.27],  # 0.27: L_min/2/w = 14.8 (int() vs round() differ)
    "F": [1, 2, 3],
    "K": [1, 2],
}


def option_sets(d, tier, maxdev):
    ms = A.masks(d)
    keys = ["cell", "w", "F", "K", "mask"]
    doms = [OPTS["cell"], OPTS["w"], OPTS["F"], OPTS["K"], ms]
    for combo in itertools.product(*doms):
        dev = sum(1 for k, v, dom in zip(keys, combo, doms) if v != dom[0]) + (1 if d == 2 else 0)
        if maxdev is not None and dev > maxdev:
            continue
        yield dict(zip(keys, combo))


def gen_geometry(tier, seed):
    for d in (3, 2):
        pl = placements(seed, d, tier)
        for o in option_sets(d, tier, None if tier == "thorough" else 2):
            H = cell_for(d, o["cell"])
            for name, pts in pl:
                if name == "jl3" and (o["cell"], o["w"], o["F"], o["K"]) != ("orth", 0.25, 1, 1):
                    continue
                n = len(pts)
                types = [1] * n if o["K"] == 1 else [1 + (i % 2) for i in range(n)]
                if o["K"] == 2 and n < 2:
                    continue
                base = {"slice": "geometry", "d": d, "cell": o["cell"], "H": H.tolist(), "w": o["w"], "placement": name,
                        "frames": frames_for(seed, pts, o["F"], H, d), "types": types, "ppp": o["mask"], "csv": False}
                yield base
                if o["F"] > 1 and name in ("gas", "cluster", "lattice"):
                    # per-frame attributes: the species attached to the ids (same composition) and the tilt factors (same edge
                    # lengths: a sheared cell) change from frame to frame
                    if o["K"] == 2:
                        yield dict(base, types_frames=[types[f:] + types[:f] for f in range(o["F"])])
                    if o["cell"].startswith("tri"):
                        fac = [1.0, -1.0, 0.5]
                        yield dict(base, H_frames=[(np.diag(np.diag(H)) + (H - np.diag(np.diag(H))) * fac[f]).tolist() for f in range(o["F"])])


def gen_csv(tier, seed):
    for d in (3, 2):
        H = cell_for(d, "orth")
        pos = routing_positions(seed, d, 0.1, H)
        for K in (1, 2, 3, 4, 5, 6):
            types = [1 + (i % K) for i in range(6)]
            yield {"slice": "csv", "d": d, "cell": "orth", "H": H.tolist(), "w": 0.1, "frames": frames_for(seed, pos, 2, H, d), "types": types, "ppp": [1] * d, "csv": True}
            if 1 < K < 6:
                yield {"slice": "csv", "d": d, "cell": "orth", "H": H.tolist(), "w": 0.1, "frames": frames_for(seed, pos, 2, H, d), "types": types,
                       "types_frames": [types, types[1:] + types[:1]], "ppp": [1] * d, "csv": True}


# ------------------------------------------------------------------------------------- oracle
def run(case):
    from PyMatterSim.static.gr import gr

    R = Result()
    d = case["d"]
    H = np.array(case["H"])
    types = np.array(case["types"])
    frames = [np.array(f) for f in case["frames"]]
    w = case["w"]
    ppp = np.array(case["ppp"])
    K = len(set(case["types"]))
    sig = {"slice": case["slice"], "K": K, "d": d, "cell": case["cell"], "F": len(frames), "masked": bool((ppp == 0).any())}
    tsrc = [np.array(t) for t in case["types_frames"]] if case.get("types_frames") else types
    Hsrc = np.array(case["H_frames"], float) if case.get("H_frames") else H
    if case.get("types_frames"):
        sig["types_vary"] = True
    if case.get("H_frames"):
        sig["tilt_varies"] = True
    snaps = mk_snaps(frames, Hsrc, tsrc)
    out = "gr_out.csv" if case["csv"] else None
    before = [s.positions.copy() for s in snaps.snapshots]
    res = gr(snaps, ppp=ppp, rdelta=w, outputfile=out).getresults()
    ref = ref_gr(frames, Hsrc, tsrc, ppp, w)
    populated = compare(R, res, ref, sig, case["types"], out)
    for s, b in zip(snaps.snapshots, before):
        if not np.array_equal(s.positions, b):
            R.fail("snapshot positions modified", sig=dict(sig, clause="input_modified"))
    cols = ref[0]
    if not set(cols) <= set(res.columns):
        return R
    R.outcome({c: res[c].values for c in cols}, nd=7)
    R.nontrivial = populated >= 2 * len(cols) or (populated >= 2 and len(types) <= 4)
    R.elem = len(cols) * len(ref[1])
    return R


def compare(R, res, ref, sig, types0, out=None):
    """every bin of every column against the reference intervals; the consequences stated in the property (sum rule, pair
    partition) on the implementation's own output; the CSV round trip.  Returns the number of populated (column, bin) cells,
    -1 when the table has the wrong shape."""
    import pandas as pd

    cols, r, lo, hi, norm = ref[:5]
    types = np.asarray(types0)
    K = len(set(types.tolist()))
    exp_cols = ["r"] + cols
    if sorted(res.columns) != sorted(exp_cols) or res.columns[0] != "r":
        R.fail(f"columns {list(res.columns)} != {exp_cols}", sig=dict(sig, clause="columns"), exp=exp_cols, obs=list(res.columns))
        return -1
    if len(res) != len(r):
        R.fail(f"{len(res)} bins, expected int(Lmin/2/w)={len(r)}", sig=dict(sig, clause="bins"))
        return -1
    if not np.allclose(res["r"].values, r, rtol=1e-12, atol=1e-12):
        R.fail("bin centres differ", sig=dict(sig, clause="bins"), exp=r[:5], obs=res["r"].values[:5])
    populated = 0
    for c in cols:
        v = res[c].values.astype(float)
        tol = 1e-9 * np.maximum(1.0, np.abs(hi[c])) + 1e-11
        bad = (v < lo[c] - tol) | (v > hi[c] + tol) | ~np.isfinite(v)
        populated += int((hi[c] > 0).sum())
        if bad.any():
            k = int(np.argmax(bad))
            R.fail(f"column {c} bin {k} (r={r[k]:.4f}): got {v[k]!r}, reference in [{lo[c][k]!r}, {hi[c][k]!r}]"
                   f" ({int(bad.sum())} of {len(v)} bins differ; raw pair count of the bin {hi[c][k] / norm[c][k]:.0f})",
                   sig=dict(sig, clause="column", col=c), exp=[lo[c][k], hi[c][k]], obs=v[k])
    # consequences stated in the property, evaluated on the implementation's own output
    if 1 < K <= 5:
        tl = sorted(set(types.tolist()))
        N = len(types)
        ca = {t: (types == t).sum() / N for t in tl}
        tot = np.zeros(len(r))
        cnt = np.zeros(len(r))
        for c in cols[1:]:
            a, b = int(c[2]), int(c[3])
            tot += (1 if a == b else 2) * ca[a] * ca[b] * res[c].values
            cnt += res[c].values / norm[c]
        if not np.allclose(tot, res["gr"].values, rtol=1e-9, atol=1e-11):
            R.fail("total != sum_ab c_a c_b g_ab", sig=dict(sig, clause="total_sum"))
        if not np.allclose(cnt, res["gr"].values / norm["gr"], rtol=1e-9, atol=1e-9):
            R.fail("partial pair counts do not add up to the total pair count (a pair in zero or two columns)", sig=dict(sig, clause="partition"))
    if out is not None:
        if not os.path.exists(out):
            R.fail(f"outputfile {out} was not written", sig=dict(sig, clause="csv"))
        else:
            back = pd.read_csv(out)
            if list(back.columns) != list(res.columns) or back.shape != res.shape or \
                    not np.allclose(back.values, res.values, rtol=0, atol=0.5000001e-6):
                R.fail("CSV file differs from the returned frame beyond %.6f", sig=dict(sig, clause="csv"))
            os.remove(out)
    return populated


def subs(tier, seed):
    return [
        Sub("C03.routing", gen_routing, run,
            rule="six particles at fixed generic positions whose 15 pair distances lie in 15 different bins; every surjective "
                 "map of the six particles onto K species, K=1..6 (4683 maps) per geometry; every bin of every column "
                 "compared with the double-loop reference; non-trivial = populated bins >= 2 per column",
            bounds={"type_maps": 4683, "geometries": 1 if tier == "quick" else 8}),
        Sub("C03.geometry", gen_geometry, run,
            rule="options {2D,3D} x {orth (x shortest), orthp (y shortest), orthz (z shortest), tri+, tri-, trip} x widths {0.25,0.5,0.3,0.27} x frames {1,2,3} x all masks x K {1,2}; "
                 + ("full product" if tier == "thorough" else "all option vectors with <= 2 deviations from (3D, orth, 0.25, F=1, K=1, ppp=1)")
                 + "; placements = all N-subsets (N=2..4) of a jittered 2^d lattice + exact lattice + cluster + ideal gas"
                 + (" + all 2-,3-subsets of a jittered 3^d lattice (default options)" if tier == "thorough" else ""),
            bounds={"max_deviations": None if tier == "thorough" else 2}),
        Sub("C03.csv", gen_csv, run, rule="K=1..6, 2D/3D, two frames, output file parsed back and compared at %.6f"),
    ]
