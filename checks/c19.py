"""C19 - writer -> reader loop, auxiliary LAMMPS readers, HOOMD frame conversion, LAMMPS log sections (E1 / E2).

Sub-checks (one per clause of the statement):
  C19.header_loop  write_dump_header + atom lines -> read_lammps_wrapper / DumpReader (and the column readers for addson columns)
  C19.data_header  write_data_header -> independent LAMMPS-data tokenizer
  C19.centertype   read_lammps_centertype with every type map
  C19.vector       read_lammps_vector with every column list
  C19.additions    read_additions with every zero-based column
  C19.gsd          read_gsd over frame-append histories (explicit-state search, duck-typed frames)
  C19.gsd_dcd      read_gsd_dcd over (frame, DCD frame)-append histories + inconsistent companions
  C19.log          read_lammpslog over section-append histories
Round 4 (docs/STRENGTHEN_TASK2.md; helpers in mc/ref/c19y.py):
  C19.log_tail        end-of-file forms of a log (no final newline, blank last lines, wall-time line without newline, incomplete tails) - coverage gap L30
  C19.centertype.class  lesson L2: the first frame selects nothing / everything, the coordinate style changes per frame
  C19.forms.*         lessons L4 / L5: exact zeros in column values, positions on the origin, molecule type 0; numpy integers for ndim / ncol / keys,
                      column lists as tuple / ndarray, header arguments as numpy scalars / float32 / integer / tuple / non-contiguous bounds;
                      an empty column list raises ValueError (the source's documented refusal)
  C19.sequence        lesson L6: explicit-state search over call words in forked children with freshly imported modules
  (C19.gsd / C19.gsd_dcd: the DumpReader conversion is also requested with the options of the LAMMPS file types passed - lesson L1)
"""
import itertools
import os

import numpy as np

from mc.harness import Result, Sub, digest
from mc.lammps_text import bounds_of, frame_text
from mc.ref import c03x as X3
from mc.ref import c19x, io19
from mc.ref import c19y as Y

ASSUMPTIONS = [
    "dump data are dyadic (multiples of 2^-4 .. 2^-13) and printed with repr/%.16e, so read-back values are compared exactly (atol 1e-12)",
    "write_dump_header/write_data_header print bounds with %.6f: a bound is read back within half a unit of the 6th decimal (5e-7) and "
    "exactly when it has at most 6 decimals; in 2D the writers add a dummy z interval that must contain z = 0",
    "the ATOMS line of write_dump_header is only required to start with 'id type x y [z]' followed by the addson names when addson is given "
    "(with the default addson=None the writer prints the literal name 'None' - documented default is '' - not judged here)",
    "read_lammps_centertype / read_lammps_vector handle orthogonal cells only (as documented); wrapped 'x' coordinates are folded into the "
    "box by at most one box length; no coordinate lies exactly on a face",
    "a type map whose keys select no atom gives an empty snapshot (nparticle 0, positions of shape (0, d))",
    "column ids of read_lammps_vector are 1-based over the whole atom line (id = 1, type = 2, ...), ncol of read_additions is 0-based; "
    "read_additions requires the same particle number in every frame (frames of 9 + N lines)",
    "gsd and mdtraj are not installed: read_gsd / read_gsd_dcd are driven with duck-typed trajectory objects (len, integer index, iteration; "
    "frames with .configuration.{step,dimensions,box} and .particles.{N,typeid,position}); the *_wrapper functions are driven through stub "
    "modules registered in sys.modules of the harness process only; orthogonal HOOMD boxes only (as documented)",
    "read_gsd / read_gsd_dcd return None for a wrong ndim and for a DCD companion with another frame or particle count (logged warning in "
    "the source); boxbounds of HOOMD snapshots (min/max of the positions) is not part of the statement and not compared",
    "LAMMPS logs use the classic thermo layout: a header line starting with 'Step ' and a closing line starting with 'Loop time of '; no "
    "other line starts with these words; a complete log does not end with a line whose first token is a number; a trailing incomplete "
    "section (no 'Loop time of' line yet) may have its header and 0-4 rows - what is returned for it is not constrained, only that the first S "
    "returned frames are the S complete sections before it; noise between sections includes echoed multi-line / unbalanced quoted commands",
    "read_gsd_dcd_wrapper is driven with GSD paths that have a directory component ('./x.gsd', 'dir/x.gsd'); the path derivation of the "
    "wrapper for bare file names is outside the statement",
    "log values are compared with rtol 1e-9 (pandas' fast float parser is not correctly rounded)",
    "scale slices: atom ids are 1..N of the frame; type labels have one to three digits; a column list may repeat a column, be descending and "
    "name the id/type/coordinate columns (the reader indexes the split line, nothing else); the list may hold numpy integers; real LAMMPS "
    "files end the ATOMS line and the atom lines with a blank; HOOMD type ids go up to 299 (typeid is uint32) and steps beyond 2^31",
    "C19.log_tail: a log may end without a final newline (killed job, copied text), with one or more empty lines, or with the wall-time line without "
    "newline; these are the same logs.  Logs whose LAST line consists of blanks only, and the empty file, make the unchanged reader raise "
    "IndexError - reported as open (KNOWN_OPEN 'log_blank_tail') and not enumerated while listed",
    "C19.forms: ndim / ncol / timestep / particle numbers / type-map keys and values may be numpy integers, a column list may be a tuple or an integer "
    "ndarray, header bounds may be float32 / integer / Fortran-ordered / strided / read-only arrays or nested tuples holding the same numbers "
    "(the header text must then be the same text); a molecule type may be 0; column values may be exact zeros printed as 0, -0, 0.0, 0e0; "
    "an EMPTY column list is refused with ValueError (as the source documents) by the wrapper and through DumpReader; the molecule-centre reader is "
    "scale-covariant (a file dilated by 2**-33 / 2**27 encodes the dilated box and positions) and returns unwrapped coordinates verbatim however far away",
    "C19.sequence: what a call returns depends on its arguments and the file content only, not on earlier calls in the process",
    "DumpReader(filetype=GSD / GSD_DCD) ignores moltypes / columnsids (documented for the LAMMPS molecular / vector file types only)",
]

# Inputs on which the UNCHANGED tree violates the statement (reported, not yet repaired in /repo).  The guarded cases are not enumerated while
# the entry is listed; remove the entry once the repair is in.
#   log_modern_header: LAMMPS >= 4May2022 prints the thermo header aligned with its columns ('      Step          Temp ...'); the reader looks for
#       lines that START with 'Step ' and returns [] for such a log (every section lost, no error).  Witness: c19x.log_section(seed, 0, 2, 3, layout=2).
#       Proposed repair: simulation_log.py L27 `val.lstrip().startswith("Step ")`.
#   log_blank_tail: a log whose last line holds blanks only ('   \n', '\t\n', trailing blanks without newline) and the EMPTY log file: `data[-1].split()[0]`
#       (simulation_log.py L31) raises IndexError, every section is lost.  Witness: 'Step Temp\n0 1.5\nLoop time of 0.1 on 1 procs\n  \n' -> IndexError;
#       '' (empty file) -> IndexError.  Proposed repair: simulation_log.py L30 `if data and data[-1].strip():` (instead of `if data[-1] != "\n":`).
KNOWN_OPEN = []  # "log_blank_tail" was repaired by /repo commit a052573; "log_modern_header" was repaired by /repo commit 422c0d5 (known_findings.json: fixed)

F32 = np.float32


# =========================================================================================== shared
def _cmp(R, tag, f, snap, exp, sig, keys):
    """Compare the named fields of a SingleSnapshot with the expectation dict; returns number of compared entries."""
    n = 0
    for key in keys:
        got = getattr(snap, key)
        want = exp[key]
        n += 1
        if key in ("timestep", "nparticle"):
            if isinstance(got, (bool, np.bool_)) or not isinstance(got, (int, np.integer)) or int(got) != int(want):
                R.fail(f"{tag} frame {f}: {key} = {got!r}, expected {want!r}", sig=dict(sig, clause=key), exp=want, obs=got)
            continue
        if want is None:
            if got is not None:
                R.fail(f"{tag} frame {f}: {key} should be None", sig=dict(sig, clause=key))
            continue
        tol = exp.get("tol_" + key, 1e-12)
        w = np.asarray(want)
        if got is None or np.asarray(got).shape != w.shape:
            R.fail(f"{tag} frame {f}: {key} has shape {None if got is None else np.asarray(got).shape}, expected {w.shape}",
                   sig=dict(sig, clause=key), exp=want, obs=got)
            continue
        g = np.asarray(got)
        if key == "particle_type":
            ok = g.dtype.kind in "iu" and bool((g.astype(np.int64) == w.astype(np.int64)).all())
        else:
            ok = g.dtype.kind == "f" and bool((np.abs(g.astype(float) - w.astype(float)) <= tol).all())
        if not ok:
            R.fail(f"{tag} frame {f}: {key} differs", sig=dict(sig, clause=key), exp=want, obs=got)
        n += w.size
    return n


def _cmp_snapshots(R, tag, S, exps, sig, keys):
    if S is None or S.nsnapshots != len(exps) or len(S.snapshots) != len(exps):
        R.fail(f"{tag}: {None if S is None else (S.nsnapshots, len(S.snapshots))} snapshots for {len(exps)} frames", sig=dict(sig, clause="frames"))
        return 0
    return sum(_cmp(R, tag, f, s, e, sig, keys) for f, (s, e) in enumerate(zip(S.snapshots, exps)))


ALL_KEYS = ("timestep", "nparticle", "particle_type", "positions", "boxlength", "boxbounds", "realbounds", "hmatrix")
TS = [0, 7, 10**9]
LEDGE = [4.0, 8.0, 2.0]
ORIGINS = [[-2.0, 1.0, 3.0], [0.0, 0.0, 0.0], [1.5, -8.0, -1.25]]


def frac_of(i, f, d):
    return [(1 + 2 * (((a + 1) * (i + 1) + f) % 8)) / 16.0 for a in range(d)]


def perms(nmax, nmin=1):
    for n in range(nmin, nmax + 1):
        for p in itertools.permutations(range(n)):
            yield n, list(p)


def line_order(order, n, f):
    """Line order of frame f: the case's permutation (reversed in odd frames), or a fixed shuffle when n differs."""
    if len(order) != n:
        order = sorted(range(n), key=lambda i: ((i * 5 + 3) % 7, i))
    return list(order[::-1]) if f % 2 == 1 else list(order)


# ===================================================================================== C19.header_loop
BOUNDS = {
    "zero": [[0.0, 4.0], [0.0, 8.0], [0.0, 2.0]],
    "neg": [[-2.5, 1.5], [-1.000001, 6.999999], [-3.25, -1.25]],
    "pos": [[1.5, 5.123456], [2.000001, 10.0], [3.0, 5.5]],
    "frac": [[1.0 / 3.0, 13.0 / 3.0], [-2.0 / 7.0, 54.0 / 7.0], [0.1234567, 2.7654321]],
    "big": [[-1234.5, 98765.432101], [-0.000001, 0.000001], [100000.0, 100000.5]],
}
SIXDEC = {"zero", "neg", "pos", "big"}
ADDSON = ["default", "", "order", "vx vy"]


def gen_header(tier, seed):
    bk = list(BOUNDS)
    for d in (3, 2):
        for addson in ADDSON:
            for aslist in (False, True):
                for b in bk:
                    for ts in TS:
                        for n in (1, 2, 3):
                            yield {"d": d, "addson": addson, "aslist": aslist, "frames": [{"ts": ts, "N": n, "b": b}]}
                # two frames: everything changes from frame to frame
                for k, b in enumerate(bk):
                    b2 = bk[(k + 1) % len(bk)]
                    for (t1, t2) in ((0, 7), (7, 10**9), (10**9, 0)):
                        for (n1, n2) in ((1, 3), (3, 2), (2, 2)):
                            yield {"d": d, "addson": addson, "aslist": aslist, "frames": [{"ts": t1, "N": n1, "b": b}, {"ts": t2, "N": n2, "b": b2}]}


def _header_grammar(R, h, ts, n, bb, d, addson, sig):
    """Independent tokenizer of one header string."""
    lines = h.split("\n")
    ok = len(lines) == 10 and lines[-1] == ""
    if ok:
        ok = lines[0] == "ITEM: TIMESTEP" and lines[2] == "ITEM: NUMBER OF ATOMS" and lines[4].split()[:3] == ["ITEM:", "BOX", "BOUNDS"]
        ok = ok and lines[1].strip() == str(ts) and lines[3].strip() == str(n)
    if not ok:
        R.fail("write_dump_header: not the 9-line dump header (TIMESTEP / NUMBER OF ATOMS / BOX BOUNDS + 3 lines / ATOMS)", sig=dict(sig, clause="layout"), obs=h)
        return
    if "xy" in lines[4].split():
        R.fail("write_dump_header: orthogonal bounds announced as triclinic", sig=dict(sig, clause="layout"), obs=h)
    for a in range(3):
        tok = lines[5 + a].split()
        if len(tok) != 2:
            R.fail(f"write_dump_header: bounds line {a} has {len(tok)} fields", sig=dict(sig, clause="layout"), obs=h)
            return
        lo, hi = float(tok[0]), float(tok[1])
        if a < d:
            if abs(lo - bb[a][0]) > 5.0000001e-7 or abs(hi - bb[a][1]) > 5.0000001e-7:
                R.fail(f"write_dump_header: printed bounds of axis {a} differ from the input by more than 5e-7", sig=dict(sig, clause="bounds_text"),
                       exp=bb[a], obs=[lo, hi])
        elif not lo < 0.0 < hi:
            R.fail("write_dump_header: dummy z bounds of a 2D frame do not contain z = 0", sig=dict(sig, clause="dummy_z"), obs=[lo, hi])
    tok = lines[8].split()
    want = ["ITEM:", "ATOMS", "id", "type"] + ["x", "y", "z"][:d]
    if tok[: len(want)] != want:
        R.fail("write_dump_header: ATOMS line does not start with 'id type x y [z]'", sig=dict(sig, clause="atoms_line"), exp=want, obs=tok)
    elif addson != "default" and tok[len(want):] != addson.split():
        R.fail("write_dump_header: additional column names differ from addson", sig=dict(sig, clause="atoms_line"), exp=addson.split(), obs=tok[len(want):])


def run_header(case):
    from PyMatterSim.reader.dump_reader import DumpReader
    from PyMatterSim.reader.lammps_reader_helper import read_additions, read_lammps_vector_wrapper, read_lammps_wrapper
    from PyMatterSim.reader.reader_utils import DumpFileType
    from PyMatterSim.writer.lammps_writer import write_dump_header

    R = Result()
    d = case["d"]
    addson = case["addson"]
    sig = {"d": d, "addson": {"default": "default", "": "empty"}.get(addson, "names")}
    nextra = 0 if addson == "default" else len(addson.split())
    text = ""
    exps, extras, heads = [], [], []
    for f, fr in enumerate(case["frames"]):
        bb = [list(x) for x in BOUNDS[fr["b"]][:d]]
        n = fr["N"]
        arg = bb if case["aslist"] else np.array(bb)
        keep = np.array(bb)
        ts = fr["ts"] if case["aslist"] else np.int64(fr["ts"])
        if addson == "default":
            h = write_dump_header(ts, n, arg)
        else:
            h = write_dump_header(ts, n, arg, addson)
        if not isinstance(h, str):
            R.fail("write_dump_header did not return a string", sig=dict(sig, clause="layout"))
            return R
        if not np.array_equal(np.array(arg), keep):
            R.fail("write_dump_header changed its boxbounds argument", sig=dict(sig, clause="input"))
        heads.append(h)
        _header_grammar(R, h, fr["ts"], n, bb, d, addson, sig)
        # the box as a reader will see it (6 decimals); atoms strictly inside
        pb = np.array([[float("%.6f" % v) for v in row] for row in bb])
        lo, L = pb[:, 0], pb[:, 1] - pb[:, 0]
        types = [1 + (2 * i + f) % 3 for i in range(n)]
        coords = [(lo + np.array(frac_of(i, f, d)) * L).tolist() for i in range(n)]
        vals = [[io19.extra_value(0, f, i, c) for c in range(nextra)] for i in range(n)]
        frd = {"ts": fr["ts"], "types": types, "lo": lo.tolist(), "L": L.tolist(), "tilts": None, "coords": coords}
        order = line_order([], n, f + 1)
        text += h + io19.atom_lines(frd, d, "x", order, vals if nextra else None)
        tol = 0.0 if fr["b"] in SIXDEC else 5.0000001e-7
        exps.append({"timestep": fr["ts"], "nparticle": n, "particle_type": np.array(types), "positions": np.array(coords).reshape(n, d),
                     "boxbounds": pb if fr["b"] in SIXDEC else np.array(bb), "tol_boxbounds": tol + 1e-12,
                     "boxlength": L if fr["b"] in SIXDEC else np.array(bb)[:, 1] - np.array(bb)[:, 0], "tol_boxlength": 2 * tol + 1e-9,
                     "hmatrix": np.diag(L) if fr["b"] in SIXDEC else np.diag(np.array(bb)[:, 1] - np.array(bb)[:, 0]), "tol_hmatrix": 2 * tol + 1e-9,
                     "realbounds": None})
        extras.append(np.array(vals, float).reshape(n, nextra))
    io19.put("c19h.dump", text)
    rd = DumpReader("c19h.dump", ndim=d, filetype=DumpFileType.LAMMPS)
    rd.read_onefile()
    s2 = read_lammps_wrapper("c19h.dump", d)
    R.elem = 0
    for tag, S in (("DumpReader", rd.snapshots), ("read_lammps_wrapper", s2)):
        R.elem += _cmp_snapshots(R, tag, S, exps, sig, ALL_KEYS)
    if nextra:
        cols = [d + 3 + c for c in range(nextra)]
        V = read_lammps_vector_wrapper("c19h.dump", d, cols)
        vexp = [dict(e, positions=x) for e, x in zip(exps, extras)]
        R.elem += _cmp_snapshots(R, "read_lammps_vector_wrapper", V, vexp, dict(sig, reader="vector"), ALL_KEYS)
        if len({fr["N"] for fr in case["frames"]}) == 1:
            for c in range(nextra):
                A = read_additions("c19h.dump", d + 2 + c)
                want = np.array([x[:, c] for x in extras])
                if not isinstance(A, np.ndarray) or A.shape != want.shape or not (np.abs(A - want) <= 1e-12).all():
                    R.fail(f"read_additions(ncol={d + 2 + c}) of the written frames differs", sig=dict(sig, reader="additions"), exp=want, obs=A)
    R.outcome([heads, [[s.timestep, s.nparticle, s.boxbounds] for s in s2.snapshots]])
    R.nontrivial = True
    return R


# ===================================================================================== C19.data_header
def gen_data(tier, seed):
    for d in (3, 2):
        for aslist in (False, True):
            for b in BOUNDS:
                for n in (0, 1, 5, 1000000):
                    for k in (1, 2, 5):
                        yield {"d": d, "aslist": aslist, "b": b, "N": n, "K": k}


def run_data(case):
    from PyMatterSim.writer.lammps_writer import write_data_header

    R = Result()
    d = case["d"]
    sig = {"d": d}
    bb = [list(x) for x in BOUNDS[case["b"]][:d]]
    arg = bb if case["aslist"] else np.array(bb)
    n, k = case["N"], case["K"]
    h = write_data_header(n if case["aslist"] else np.int64(n), k, arg)
    if not isinstance(h, str):
        R.fail("write_data_header did not return a string", sig=dict(sig, clause="layout"))
        return R
    # append an Atoms body (atomic style: id type x y z) and tokenize the whole file
    body = "".join(f"{i + 1} {1 + i % k} 0.5 0.25 0.0\n" for i in range(min(n, 5)))
    P = io19.parse_data_header(h + body)
    if P["counts"].get("atoms") != n:
        R.fail("data header: 'atoms' count differs", sig=dict(sig, clause="atoms"), exp=n, obs=P["counts"])
    if P["counts"].get("atom types") != k:
        R.fail("data header: 'atom types' count differs", sig=dict(sig, clause="atom_types"), exp=k, obs=P["counts"])
    if P["unknown"] or set(P["counts"]) - {"atoms", "atom types"}:
        R.fail("data header: lines that are neither header keywords nor a section", sig=dict(sig, clause="layout"), obs=[P["unknown"], P["counts"]])
    tol = 1e-12 if case["b"] in SIXDEC else 5.0000001e-7
    for a, ax in enumerate("xyz"):
        if ax not in P["bounds"]:
            R.fail(f"data header: no '{ax}lo {ax}hi' line", sig=dict(sig, clause="bounds"), obs=h)
            continue
        lo, hi = P["bounds"][ax][:2]
        if a < d:
            if abs(lo - bb[a][0]) > tol or abs(hi - bb[a][1]) > tol:
                R.fail(f"data header: {ax} bounds differ from the input", sig=dict(sig, clause="bounds"), exp=bb[a], obs=[lo, hi])
        elif not lo < 0.0 < hi:
            R.fail("data header: dummy z bounds of a 2D box do not contain z = 0", sig=dict(sig, clause="dummy_z"), obs=[lo, hi])
    if P["section"] != "Atoms" or not P["blank_after_section"]:
        R.fail("data header: does not end with the 'Atoms' section keyword followed by one blank line", sig=dict(sig, clause="section"),
               obs=[P["section"], P["blank_after_section"]])
    elif [ln for ln in P["rest"]] != body.split("\n")[:-1]:
        R.fail("data header: the atom lines appended after the header are not the body of the Atoms section", sig=dict(sig, clause="section"), obs=P["rest"])
    R.elem = 3 + 2 * 3
    R.outcome(h)
    return R


# ===================================================================================== C19.centertype
def type_maps(keys=(1, 2, 3), vals=(1, 2)):
    """Every map from a non-empty subset of `keys` into `vals` (as sorted [key, value] pair lists)."""
    out = []
    for r in range(1, len(keys) + 1):
        for ks in itertools.combinations(keys, r):
            for vs in itertools.product(vals, repeat=r):
                out.append([[a, b] for a, b in zip(ks, vs)])
    return out


EXTRA_MAPS = [[[4, 1]], [[2, 7], [4, 1]], [[1, 3], [2, 1], [3, 2]], [[3, 1], [1, 2]]]  # absent key, values beyond {1,2}, unsorted insertion


def gen_center(tier, seed):
    nmax = 3 if tier == "quick" else 4
    maps = type_maps() + EXTRA_MAPS
    origins = ORIGINS[:1] if tier == "quick" else ORIGINS[:2]
    for d in (3, 2):
        for style in ("x", "xs", "xu"):
            for lo in origins:
                for n, order in perms(nmax if lo is origins[0] else 3):
                    for types in itertools.product((1, 2, 3), repeat=n):
                        for m in maps:
                            yield {"d": d, "style": style, "lo": lo[:d], "types": list(types), "order": order, "map": m, "F": 1}
    # N = 5 mixed, several frames, every map
    q = tier == "quick"
    for d in (3, 2):
        for style in ("x", "xs", "xu"):
            for lo in (ORIGINS[::2] if q else ORIGINS):
                for types in ([1, 2, 3, 1, 2], [3, 3, 1, 2, 1], [2, 1, 1, 3, 3])[: 2 if q else 3]:
                    for order in ([4, 2, 0, 3, 1], [0, 1, 2, 3, 4], [1, 0, 4, 2, 3])[: 2 if q else 3]:
                        for F in ((2, 3) if q else (1, 2, 3)):
                            for m in maps:
                                yield {"d": d, "style": style, "lo": lo[:d], "types": types, "order": order, "map": m, "F": F}


def center_frames(case):
    """(file text, expected snapshots) of a centertype case."""
    d, style = case["d"], case["style"]
    m = {int(a): int(b) for a, b in case["map"]}
    n = len(case["types"])
    text, exps = "", []
    c = {"2^-33": 2.0**-33, "2^27": 2.0**27}.get(case.get("dilate"), 1.0)  # lesson L9: the whole file dilated by a power of two (exact)
    for f in range(case["F"]):
        lo = (np.array(case["lo"], float) - f) * c
        L = np.array(LEDGE[:d]) * (2.0**f) * c
        types = [case["types"][(i + f) % n] for i in range(n)]
        if case.get("types_by_frame"):
            types = list(case["types_by_frame"][f])
        if case.get("styles"):
            style = case["styles"][f]
        coords, truth = [], []
        for i in range(n):
            s = np.array(frac_of(i, f, d))
            if case.get("zero_pos") and i == (f % n) and style != "x":
                s = np.zeros(d)  # exactly on the cell origin (scaled / unwrapped styles: returned as it is)
            r = lo + s * L
            img = np.array([(i % 3) - 1, (i + f) % 2, -((i + 1) % 2)][:d]) * L
            if case.get("far") and style == "xu":
                img = np.array([[0, 2, -3, 4][(i + a + f) % 4] for a in range(d)]) * L  # several boxes away (lesson L7): returned verbatim
            if style == "xs":
                coords.append(s.tolist())
                truth.append(r)
            elif style == "xu":
                coords.append((r + img).tolist())
                truth.append(r + img)
            else:
                coords.append((r + img).tolist())
                truth.append(r)  # folded back by one box length
        fr = {"ts": TS[f] + 3 * n, "types": types, "lo": lo.tolist(), "L": L.tolist(), "tilts": None, "coords": coords}
        extras = "image" if (f + n) % 2 else "none"
        text += frame_text(fr, d, style, "decimal", "pp pp pp", extras, line_order(case["order"], n, f))
        sel = [i for i in range(n) if types[i] in m]
        bb, _ = bounds_of(fr, d)
        exps.append({"timestep": fr["ts"], "nparticle": len(sel), "particle_type": np.array([m[types[i]] for i in sel], dtype=int),
                     "positions": np.array([truth[i] for i in sel], float).reshape(len(sel), d), "boxlength": L, "boxbounds": np.array(bb),
                     "realbounds": None, "hmatrix": np.diag(L)})
        if c != 1.0:
            exps[-1].update({"tol_" + k: 1e-12 * c for k in ("positions", "boxlength", "boxbounds", "hmatrix")})
    return text, exps, m


def run_center(case):
    from PyMatterSim.reader.dump_reader import DumpReader
    from PyMatterSim.reader.lammps_reader_helper import read_lammps_centertype_wrapper
    from PyMatterSim.reader.reader_utils import DumpFileType

    R = Result()
    d = case["d"]
    text, exps, m = center_frames(case)
    sig = {"d": d, "style": case["style"]}
    form = case.get("form")
    if form or case.get("klass"):
        sig = dict(sig, slice=case.get("klass") or "forms", form=form)
    io19.put("c19c.dump", text)
    mk = (lambda: {np.int64(a): np.int64(b) for a, b in m.items()}) if form == "npkeys" else (lambda: dict(m))
    nd = {"npndim": np.int64(d), "npkeys": np.int32(d)}.get(form, d)
    m1, m2 = mk(), mk()
    rd = DumpReader("c19c.dump", ndim=nd, filetype=DumpFileType.LAMMPSCENTER, moltypes=m1)
    rd.read_onefile()
    s2 = read_lammps_centertype_wrapper("c19c.dump", nd, m2)
    R.elem = 0
    for tag, S in (("DumpReader", rd.snapshots), ("read_lammps_centertype_wrapper", s2)):
        R.elem += _cmp_snapshots(R, tag, S, exps, sig, ALL_KEYS)
    if m1 != m or m2 != m:
        R.fail("the type map was modified by the reader", sig=dict(sig, clause="input"))
    R.outcome([[s.nparticle, s.particle_type, s.positions] for s in s2.snapshots])
    R.nontrivial = any(0 < e["nparticle"] < len(case["types"]) for e in exps) or len(case["types"]) == 1
    return R


# ===================================================================================== C19.vector / additions
NAMES = ["vx", "vy", "c_q6"]


def col_lists(d, E, tier):
    """Column-id lists (1-based over the whole line).  quick: every non-empty ordered list of distinct additional columns, plus
    lists mixing in coordinate/id/type columns and a repeated column; thorough: every ordered list (length <= 3) of distinct columns
    drawn from ALL columns of the line."""
    extra = [d + 3 + c for c in range(E)]
    out = []
    for r in range(1, E + 1):
        for p in itertools.permutations(extra, r):
            out.append(list(p))
    out += [[3], [extra[-1], 3], [extra[0], extra[0]], [1, 2, extra[0]], [d + 2, extra[-1]]]
    if tier == "thorough":
        allc = list(range(1, d + 3 + E))
        for r in (1, 2, 3):
            for p in itertools.permutations(allc, r):
                if list(p) not in out:
                    out.append(list(p))
    return out


def column_frames(case, seed_tab=0):
    """(text, per-frame expectation dicts with the full numeric row table 'rows' [N, ncols])."""
    d, E = case["d"], case["E"]
    text, exps = "", []
    names = NAMES[:E]
    for f in range(case["F"]):
        n = case["N"] if case.get("vary") != "count" else [case["N"], 1, case["N"] + 1][f % 3]
        lo = np.array(ORIGINS[0][:d]) - (f if case.get("vary") == "cell" else 0)
        L = np.array(LEDGE[:d]) * (2.0**f if case.get("vary") == "cell" else 1.0)
        types = [1 + (2 * i + f) % 3 for i in range(n)]
        coords = [(lo + np.array(frac_of(i, f, d)) * L).tolist() for i in range(n)]
        vals = [[io19.extra_value(case.get("seed", 0), f, i, c) for c in range(E)] for i in range(n)]
        pvals = vals
        if case.get("zeros"):
            vals, pvals = Y.zero_values(vals, f)  # exact zeros printed as 0 / -0 / 0.0 / 0e0 / -0.0
        tilts = [1.0, -0.5, 2.0] if case.get("cell") == "tri" else None
        fr = {"ts": TS[f % 3] + 11 * f, "types": types, "lo": lo.tolist(), "L": L.tolist(), "tilts": tilts, "coords": coords}
        order = line_order(case["order"], n, f)
        syntax = case.get("syntax", "decimal")
        if case.get("writer") == "hdr":
            from PyMatterSim.writer.lammps_writer import write_dump_header

            bb = np.column_stack((lo, lo + L))
            text += write_dump_header(fr["ts"], n, bb, " ".join(names)) + io19.atom_lines(fr, d, "x", order, pvals, syntax)
        else:
            text += io19.with_columns(frame_text(fr, d, "x", syntax, "pp pp pp", "none", order), names, pvals, syntax)
        rows = np.array([[i + 1, types[i]] + coords[i] + vals[i] for i in range(n)], float)
        bb, _ = bounds_of(fr, d)
        exps.append({"timestep": fr["ts"], "nparticle": n, "particle_type": np.array(types), "rows": rows, "boxlength": L,
                     "boxbounds": np.array(bb), "realbounds": None, "hmatrix": np.diag(L)})
    return text, exps


def gen_vector(tier, seed):
    nmax = 3 if tier == "quick" else 4
    for d in (3, 2):
        for E in (1, 2, 3):
            for cols in col_lists(d, E, tier):
                for F in (1, 2, 3):
                    for writer in ("enc", "hdr"):
                        for n, order in perms(nmax):
                            yield {"d": d, "E": E, "cols": cols, "F": F, "N": n, "order": order, "writer": writer, "vary": "cell", "seed": seed}
                    yield {"d": d, "E": E, "cols": cols, "F": F, "N": 3, "order": [2, 0, 1], "writer": "enc", "vary": "count", "seed": seed}
                    yield {"d": d, "E": E, "cols": cols, "F": F, "N": 2, "order": [1, 0], "writer": "enc", "vary": None, "syntax": "sci", "seed": seed}


def run_vector(case):
    from PyMatterSim.reader.dump_reader import DumpReader
    from PyMatterSim.reader.lammps_reader_helper import read_lammps_vector_wrapper
    from PyMatterSim.reader.reader_utils import DumpFileType

    R = Result()
    d = case["d"]
    cols = list(case["cols"])
    text, exps = column_frames(case)
    for e in exps:
        e["positions"] = e["rows"][:, [c - 1 for c in cols]].reshape(e["nparticle"], len(cols))
    sig = {"d": d, "ncols": len(cols), "F": "1" if case["F"] == 1 else ">1"}
    form = case.get("form")
    if form:
        sig = dict(sig, slice="forms", form=form, zeros=bool(case.get("zeros")))
    io19.put("c19v.dump", text)
    if form == "empty":
        # the source refuses an empty column list with ValueError: no other outcome (a silent empty table, another exception) is accepted
        for tag, call in (("read_lammps_vector_wrapper", lambda: read_lammps_vector_wrapper("c19v.dump", d, [])),
                          ("DumpReader", lambda: DumpReader("c19v.dump", ndim=d, filetype=DumpFileType.LAMMPSVECTOR, columnsids=[]).read_onefile()),
                          ("read_lammps_vector_wrapper(empty tuple)", lambda: read_lammps_vector_wrapper("c19v.dump", d, ()))):
            try:
                call()
                R.fail(f"{tag}: an empty column list was accepted (documented: ValueError)", sig=dict(sig, clause="empty_list"))
            except ValueError:
                pass
        R.elem = 3
        R.outcome("ValueError")
        R.nontrivial = True
        return R
    mkc = {"tuple": lambda: tuple(cols), "ndarray": lambda: np.array(cols, dtype=np.int64), "np32list": lambda: [np.int32(c) for c in cols]}.get(form, lambda: list(cols))
    nd = np.int64(d) if form in ("npndim", "ndarray") else d
    c1, c2 = mkc(), mkc()
    rd = DumpReader("c19v.dump", ndim=nd, filetype=DumpFileType.LAMMPSVECTOR, columnsids=c1)
    rd.read_onefile()
    s2 = read_lammps_vector_wrapper("c19v.dump", nd, c2)
    R.elem = 0
    for tag, S in (("DumpReader", rd.snapshots), ("read_lammps_vector_wrapper", s2)):
        R.elem += _cmp_snapshots(R, tag, S, exps, sig, ALL_KEYS)
    if [int(c) for c in c1] != cols or [int(c) for c in c2] != cols or type(c1) is not type(mkc()):
        R.fail("the column list was modified by the reader", sig=dict(sig, clause="input"))
    R.outcome([[s.timestep, s.particle_type, s.positions] for s in s2.snapshots])
    R.nontrivial = max(e["nparticle"] for e in exps) >= 2 or len(cols) >= 2
    return R


def gen_additions(tier, seed):
    nmax = 3 if tier == "quick" else 4
    for d in (3, 2):
        for E in (1, 2, 3):
            for ncol in range(0, d + 2 + E):
                for F in (1, 2, 3):
                    for cell in ("orth", "tri"):
                        for syntax in ("decimal", "sci"):
                            for n, order in perms(nmax):
                                yield {"d": d, "E": E, "ncol": ncol, "F": F, "N": n, "order": order, "cell": cell, "syntax": syntax, "vary": "cell",
                                       "writer": "enc", "seed": seed}
                    for n, order in perms(nmax):
                        yield {"d": d, "E": E, "ncol": ncol, "F": F, "N": n, "order": order, "cell": "orth", "syntax": "decimal", "vary": None,
                               "writer": "hdr", "seed": seed}


def run_additions(case):
    from PyMatterSim.reader.lammps_reader_helper import read_additions

    R = Result()
    d = case["d"]
    text, exps = column_frames(case)
    want = np.array([e["rows"][:, case["ncol"]] for e in exps], float)
    sig = {"d": d, "F": "1" if case["F"] == 1 else ">1"}
    if case.get("form"):
        sig = dict(sig, slice="forms", form=case["form"], zeros=bool(case.get("zeros")))
    io19.put("c19a.dump", text)
    A = read_additions("c19a.dump", np.int64(case["ncol"]) if case.get("form") == "npncol" else case["ncol"])
    if not isinstance(A, np.ndarray) or A.shape != want.shape or A.dtype.kind != "f":
        R.fail(f"read_additions: result of shape {getattr(A, 'shape', None)}, expected float array {want.shape} [frames, particles]",
               sig=dict(sig, clause="shape"))
    elif not (np.abs(A - want) <= 1e-12).all():
        R.fail(f"read_additions(ncol={case['ncol']}): values by (frame, atom id) differ", sig=dict(sig, clause="values"), exp=want, obs=A)
    R.elem = want.size
    R.outcome(A)
    R.nontrivial = want.size >= 2
    return R


# ===================================================================================== C19.gsd / gsd_dcd
TYPEPAT = {1: [[0], [2]], 3: [[0, 1, 0], [2, 0, 1]]}
GBOX = [[4.0, 4.0, 4.0], [4.0, 8.0, 2.0]]


def gsd_letters(ns):
    out = []
    for n in ns:
        for tp in TYPEPAT[n]:
            for b in range(len(GBOX)):
                out.append([n, tp, b])
    return out


def gsd_frame(d, letter, k, lidx):
    """Content of the frame appended at position k of a history by `letter`: (DuckFrame kwargs, DCD positions [N,3])."""
    n, tp, b = letter
    box = GBOX[b]
    step = 500 * k + 10 * lidx + (10**9 if k == 2 else 0)
    pos, dcd = [], []
    for i in range(n):
        s = np.array(frac_of(i, k + lidx, 3)) - 0.5
        p = s * np.array(box)
        if d == 2 and lidx % 2 == 0:
            p[2] = 0.0  # HOOMD keeps z = 0 in 2D; odd letters carry a non-zero third column that must be cut off all the same
        img = np.array([(i % 3) - 1, (i + k) % 2, -((i + lidx) % 2)]) * np.array(box)
        pos.append(p.tolist())
        dcd.append((p + img + np.array([0.125, -0.25, 0.5]) * (k + 1)).tolist())
    return {"step": step, "dimensions": d, "box": box + [0.0, 0.0, 0.0], "typeid": tp, "position": pos}, dcd


def gsd_expect(d, frames, dcds=None):
    exps = []
    for k, fr in enumerate(frames):
        P = np.array(fr["position"], dtype=F32) if dcds is None else np.array(dcds[k], dtype=F32)
        n = len(fr["typeid"])
        L = np.array(fr["box"][:d], dtype=F32).astype(float)
        exps.append({"timestep": fr["step"], "nparticle": n, "particle_type": np.array(fr["typeid"]) + 1,
                     "positions": P.astype(float).reshape(n, 3)[:, :d], "boxlength": L, "hmatrix": np.diag(L)})
    return exps


GSD_KEYS = ("timestep", "nparticle", "particle_type", "positions", "boxlength", "hmatrix")


def gen_gsd(tier, seed):
    depth = 3 if tier == "quick" else 4
    letters = gsd_letters([1, 3])
    for d in (3, 2):
        for a in range(len(letters)):
            yield {"d": d, "root": [a], "depth": depth, "mode": "gsd", "ns": [1, 3]}


def gen_gsd_dcd(tier, seed):
    depth = 3 if tier == "quick" else 4
    for d in (3, 2):
        for ns in ([1], [3]):
            for a in range(len(gsd_letters(ns))):
                yield {"d": d, "root": [a], "depth": depth, "mode": "dcd", "ns": ns}


def _frames_unchanged(traj, frames):
    for fo, fr in zip(traj, frames):
        if not (np.array_equal(fo.particles.typeid, np.array(fr["typeid"], dtype=np.uint32)) and
                np.array_equal(fo.particles.position, np.array(fr["position"], dtype=F32)) and
                np.array_equal(fo.configuration.box, np.array(fr["box"], dtype=F32)) and fo.configuration.step == fr["step"]
                and fo.particles.N == len(fr["typeid"])):
            return False
    return True


def _gsd_execute(R, reg, d, dcdmode, frames, dcds, exps, hs):
    """All conversions of ONE trajectory (frames as DuckFrame kwargs, dcds as position tables) on fresh duck objects, compared with exps.
    Returns (runs, number of executed conversions)."""
    from PyMatterSim.reader.dump_reader import DumpReader
    from PyMatterSim.reader.gsd_reader_helper import read_gsd, read_gsd_dcd, read_gsd_dcd_wrapper, read_gsd_wrapper
    from PyMatterSim.reader.reader_utils import DumpFileType

    ntr = 0

    def fresh(name=None):
        return io19.DuckTrajectory([io19.DuckFrame(**fr) for fr in frames], name)

    def fresh_dcd(xyz=None, name=None):
        return io19.DuckDCD(np.array(dcds if xyz is None else xyz, dtype=F32).reshape(-1, len(frames[0]["typeid"]) if xyz is None else np.array(xyz).shape[1], 3),
                            [fr["box"][:3] for fr in frames] if xyz is None else None, name)

    runs = []
    if not dcdmode:
        t = fresh()
        runs.append(("read_gsd", read_gsd(t, d), t, None))
        for path in ("./c19.gsd", "trajs/run_1.gsd"):
            reg.gsd.clear()
            t = reg.gsd[path] = fresh(path)
            runs.append(("read_gsd_wrapper", read_gsd_wrapper(path, d), t, None))
        reg.gsd.clear()
        t = reg.gsd["./c19.gsd"] = fresh()
        rd = DumpReader("./c19.gsd", ndim=d, filetype=DumpFileType.GSD)
        rd.read_onefile()
        runs.append(("DumpReader", rd.snapshots, t, None))
        reg.gsd.clear()
        t = reg.gsd["./c19.gsd"] = fresh()
        rd = DumpReader("./c19.gsd", ndim=d, filetype=DumpFileType.GSD, moltypes={1: 2, 3: 1}, columnsids=[3, 4])  # options of the LAMMPS file types: ignored
        rd.read_onefile()
        runs.append(("DumpReader(GSD + moltypes + columnsids)", rd.snapshots, t, None))
    else:
        t, c = fresh(), fresh_dcd()
        runs.append(("read_gsd_dcd", read_gsd_dcd(t, c, d), t, None))
        for path in ("./c19.gsd", "trajs/run_1.gsd"):
            reg.gsd.clear()
            reg.dcd.clear()
            t = reg.gsd[path] = fresh(path)
            c = reg.dcd[path[:-3] + "dcd"] = fresh_dcd()
            runs.append(("read_gsd_dcd_wrapper", read_gsd_dcd_wrapper(path, d), t, c))
        reg.gsd.clear()
        reg.dcd.clear()
        t = reg.gsd["./c19.gsd"] = fresh()
        c = reg.dcd["./c19.dcd"] = fresh_dcd()
        rd = DumpReader("./c19.gsd", ndim=d, filetype=DumpFileType.GSD_DCD)
        rd.read_onefile()
        runs.append(("DumpReader", rd.snapshots, t, c))
        reg.gsd.clear()
        reg.dcd.clear()
        t = reg.gsd["./c19.gsd"] = fresh()
        c = reg.dcd["./c19.dcd"] = fresh_dcd()
        rd = DumpReader("./c19.gsd", d, DumpFileType.GSD_DCD, {1: 2, 3: 1}, [3, 4])  # options of the LAMMPS file types: ignored
        rd.read_onefile()
        runs.append(("DumpReader(GSD_DCD + moltypes + columnsids)", rd.snapshots, t, c))
    for tag, S, t, c in runs:
        ntr += 1
        R.elem += _cmp_snapshots(R, tag, S, exps, hs, GSD_KEYS)
        if not _frames_unchanged(t, frames):
            R.fail(f"{tag}: the frame objects were modified by the conversion", sig=dict(hs, clause="input"))
        if c is not None and not c.closed:
            R.fail(f"{tag}: the DCD file was not closed", sig=dict(hs, clause="close"))
    # wrong dimension -> None
    other = 5 - d
    t = fresh()
    S = read_gsd_dcd(t, fresh_dcd(), other) if dcdmode else read_gsd(t, other)
    ntr += 1
    if S is not None:
        R.fail(f"ndim={other} given for a {d}-dimensional trajectory: expected None", sig=dict(hs, clause="wrong_ndim"))
    if dcdmode:
        n = len(frames[0]["typeid"])
        F = len(frames)
        full = np.array(dcds, dtype=F32).reshape(F, n, 3)
        bad = {"one frame more": np.concatenate([full, full[-1:]], axis=0), "one frame less": full[:-1],
               "one atom more": np.concatenate([full, full[:, -1:, :]], axis=1)}
        if n > 1:
            bad["one atom less"] = full[:, :-1, :]
        for what, xyz in bad.items():
            S = read_gsd_dcd(fresh(), fresh_dcd(xyz), d)
            ntr += 1
            if S is not None:
                R.fail(f"DCD companion with {what}: expected None", sig=dict(hs, clause="inconsistent"))
    return runs, ntr


def run_gsd(case):
    """Explicit-state search over frame-append histories (state = history, rebuilt on fresh objects for every execution)."""
    reg = io19.install_stubs()
    R = Result()
    d = case["d"]
    dcdmode = case["mode"] == "dcd"
    letters = gsd_letters(case["ns"])
    sig = {"d": d, "mode": case["mode"]}
    seen, outs = set(), []
    frontier = [list(case["root"])]
    transitions = 0
    R.elem = 0
    while frontier:
        h = frontier.pop(0)
        built = [gsd_frame(d, letters[a], k, a) for k, a in enumerate(h)]
        frames = [b[0] for b in built]
        dcds = [b[1] for b in built]
        key = digest([frames, dcds if dcdmode else None])
        if key in seen:
            continue
        seen.add(key)
        hs = dict(sig, F="1" if len(h) == 1 else ">1")
        exps = gsd_expect(d, frames, dcds if dcdmode else None)

        runs, ntr = _gsd_execute(R, reg, d, dcdmode, frames, dcds, exps, hs)
        transitions += ntr
        outs.append([[e["timestep"], e["particle_type"], e["positions"]] for e in exps] if runs[0][1] is None else
                    [[s.timestep, s.particle_type, s.positions, s.hmatrix] for s in runs[0][1].snapshots])
        if len(h) < case["depth"]:
            for a in range(len(letters)):
                frontier.append(h + [a])
    reg.gsd.clear()
    reg.dcd.clear()
    R.states = len(seen)
    R.transitions = transitions
    R.outcome(outs)
    R.nontrivial = len(seen) > 1
    return R


# ========================================================================================== C19.log
RC_QUICK = [[1, 2], [2, 3], [3, 4], [2, 4]]
RC_ALL = [[r, c] for r in (1, 2, 3) for c in (2, 3, 4)]
NOISE_ALL = ["none", "blank", "blank2", "text", "warn", "stepword", "numeric", "quoted", "post"]
NOISE_CORE = ["none", "blank", "post"]
PREAMBLE = {
    "short": "LAMMPS (29 Aug 2024)\n",
    "long": "LAMMPS (29 Aug 2024)\n  using 1 OpenMP thread(s) per MPI task\n\nunits lj\natom_style atomic\n\nlattice fcc 0.8442\n"
            "Lattice spacing in x,y,z = 1.6795962 1.6795962 1.6795962\nCreated 4000 atoms\n  using lattice units in orthogonal box\n\n"
            "thermo 100\nrun 300\n",
}
TAILS = {"quick": ["end", "noise", "inc2", "inc3cut"], "thorough": ["end", "wall", "noise", "inc2", "inc3cut", "inc4"]}
NOISE_MID = ["none", "blank", "text", "warn", "stepword", "post", "mlquote"]
QUOTE_NOISE = ("mlquote", "unbalq")  # found by this check, fixed in bb39293 (pandas quote handling swallowed newlines)
SHORT_TAILS = ("inc1", "inc0")  # found by this check, fixed in dafedc2 (negative nrows / unmatched header)
io19.NOISE["mlquote"] = 'print """\nhello\nworld\n"""\nhello\nworld\n'
io19.NOISE["unbalq"] = 'variable s string "a b\n'
NOISE_ALL = NOISE_ALL + list(QUOTE_NOISE)
TAILS = {k: v + list(SHORT_TAILS) for k, v in TAILS.items()}


def log_alphabets(tier):
    """Per-depth event alphabets [level1, level2, level3]; an event = [noise before the section, rows, columns]."""
    if tier == "quick":
        return [[[nz, r, c] for nz in NOISE_ALL for (r, c) in RC_QUICK],
                [[nz, r, c] for nz in NOISE_CORE for (r, c) in RC_QUICK[:3]],
                [["none", 1, 2], ["post", 3, 4]]]
    return [[[nz, r, c] for nz in NOISE_ALL for (r, c) in RC_ALL],
            [[nz, r, c] for nz in NOISE_MID for (r, c) in RC_QUICK[:3]],
            [["none", 1, 2], ["post", 3, 4], ["blank", 2, 3], ["warn", 3, 2]]]


def gen_log(tier, seed):
    al = log_alphabets(tier)
    combos = [(0, "long"), (1, "short")] if tier == "quick" else [(0, "long"), (1, "short"), (0, "short")]
    for layout, pre in combos:
        yield {"root": [], "depth": 0, "layout": layout, "pre": pre, "tier": tier, "seed": seed}  # no section at all
        for ev in al[0]:
            yield {"root": [ev], "depth": 3, "layout": layout, "pre": pre, "tier": tier, "seed": seed}


def log_text(seed, pre, layout, h, tail):
    text = PREAMBLE[pre]
    secs = []
    for k, (nz, r, c) in enumerate(h):
        t, names, rows = io19.section_text(seed, k, r, c, layout)
        text += io19.NOISE[nz] + t
        secs.append((names, rows))
    S = len(h)
    if tail == "wall":
        text += "Total wall time: 0:00:01\n"
    elif tail == "noise":
        text += io19.POST_LOOP + "\nPlease see the log.cite file for references relevant to this simulation\n\nTotal wall time: 0:00:01\n"
    elif tail == "inc2":
        text += "run 100\n" + io19.incomplete_text(seed, S, 2, False)
    elif tail == "inc3cut":
        text += io19.incomplete_text(seed, S, 3, True)
    elif tail == "inc4":
        text += io19.POST_LOOP + io19.incomplete_text(seed, S, 4, False)
    elif tail == "inc1":
        text += io19.incomplete_text(seed, S, 1, False)
    elif tail == "inc0":
        text += io19.incomplete_text(seed, S, 0, False)
    return text, secs


def _cmp_sections(R, frames, secs, S, tail, sg):
    """names, shape and every value of the first len(secs) returned tables; returns the number of compared values"""
    n = 0
    for k, (names, rows) in enumerate(secs):
        df = frames[k]
        want = np.array(rows, float)
        if [str(c) for c in df.columns] != names:
            R.fail(f"section {k} of {S} (tail: {tail}): column names differ", sig=sg("columns"), exp=names, obs=[str(c) for c in df.columns])
            continue
        if df.shape != want.shape:
            R.fail(f"section {k} of {S} (tail: {tail}): {df.shape[0]} rows x {df.shape[1]} columns, expected {want.shape}",
                   sig=sg("rows"), exp=want, obs=df.values.tolist())
            continue
        got = np.array([[_num(x) for x in row] for row in df.values.tolist()], float)
        if not np.isclose(got, want, rtol=1e-9, atol=1e-15, equal_nan=True).all():
            R.fail(f"section {k} of {S} (tail: {tail}): values differ", sig=sg("values"), exp=want, obs=df.values.tolist())
        n += want.size
    return n


def run_log(case):
    """Explicit-state search over section-append histories; every state is closed with every tail."""
    from PyMatterSim.reader.simulation_log import read_lammpslog

    R = Result()
    al = log_alphabets(case["tier"])
    seed, layout = case["seed"], case["layout"]
    seen, outs = set(), []
    frontier = [[list(e) for e in case["root"]]]
    transitions = 0
    R.elem = 0
    while frontier:
        h = frontier.pop(0)
        base, _ = log_text(seed, case["pre"], layout, h, "end")
        key = digest(base)
        if key in seen:
            continue
        seen.add(key)
        S = len(h)
        sig = {"S": str(S) if S < 2 else ">=2"}
        for tail in TAILS[case["tier"]]:
            text, secs = log_text(seed, case["pre"], layout, h, tail)
            io19.put("c19.log", text)
            complete = tail in ("end", "wall", "noise")
            ts = dict(sig, tail="complete" if complete else "incomplete")
            special = "+".join((["multiline_quote"] if any(ev[0] in QUOTE_NOISE for ev in h) else []) + (["short_incomplete"] if tail in SHORT_TAILS else [])) or None

            def sg(generic, **kw):
                return dict(ts, clause=special, detail=generic, **kw) if special else dict(ts, clause=generic, **kw)

            transitions += 1
            try:
                frames = read_lammpslog("c19.log")
            except Exception as e:  # reported (never hidden): a valid log must not make the reader raise; the search goes on
                R.fail(f"read_lammpslog raised {type(e).__name__}: {e} on a log with {S} complete sections (tail: {tail})",
                       sig=sg("exception", exception=type(e).__name__))
                continue
            if not isinstance(frames, list) or (len(frames) != S if complete else len(frames) < S):
                R.fail(f"{len(frames) if isinstance(frames, list) else type(frames).__name__} frames returned for a log with {S} complete sections "
                       f"(tail: {tail})", sig=sg("count"))
                continue
            R.elem += _cmp_sections(R, frames, secs, S, tail, sg)
            if tail == "end":
                outs.append([[list(map(str, df.columns)), df.values.tolist()] for df in frames])
        if S < case["depth"]:
            for ev in al[S]:
                frontier.append(h + [list(ev)])
    R.states = len(seen)
    R.transitions = transitions
    R.outcome(outs)
    R.nontrivial = True
    return R


def _num(x):
    try:
        return float(x)
    except (TypeError, ValueError):
        return float("nan")



# ===================================================================================== C19.scale.*  (SIZES, one value pattern per size)
N_SCALE = [10, 12, 100, 130, 257]
F_SCALE = [1, 10, 12]
NF_SCALE_QUICK = [[10, 12], [12, 10], [100, 12], [130, 1], [257, 10], [12, 65]]
NF_SCALE_ALL = [[n, F] for n in N_SCALE for F in F_SCALE] + [[12, 65], [10, 130]]
NF_HDR_QUICK = [[10, 12], [100, 10], [257, 1], [1000, 12]]
NF_HDR_ALL = [[n, F] for n in (10, 100, 257, 1000) for F in F_SCALE]
CENTER_MAPS = [[[3, 1], [12, 2]], [[300, 5]], [[77, 1]], [[77, 2], [1, 1]], [[1, 2], [2, 1], [3, 3], [12, 12], [300, 4], [77, 9]]]


def _orders(tier):
    return ("affine", "desc") if tier == "quick" else ("affine", "desc", "asc")


def gen_scale_center(tier, seed):
    q = tier == "quick"
    for n, F in (NF_SCALE_QUICK if q else NF_SCALE_ALL):
        for d in (3, 2):
            for si, style in enumerate(("x", "xs", "xu")):
                for mi, m in enumerate(CENTER_MAPS):
                    for oi, order in enumerate(_orders(tier)):
                        if q and (oi + mi + si) % 2:
                            continue
                        yield {"d": d, "style": style, "N": n, "F": F, "order": order, "E": [0, 3, 12][(mi + oi) % 3], "vary": "all" if F > 1 else None,
                               "blanks": bool((mi + si) % 2), "single": True, "map": m, "seed": seed}


def run_scale_center(case):
    from PyMatterSim.reader.dump_reader import DumpReader
    from PyMatterSim.reader.lammps_reader_helper import read_lammps_centertype_wrapper
    from PyMatterSim.reader.reader_utils import DumpFileType

    R = Result()
    d = case["d"]
    m = {int(a): int(b) for a, b in case["map"]}
    text, frames = c19x.dump_frames(case)
    exps = []
    for e in frames:
        sel = [i for i, t in enumerate(e["types"]) if t in m]
        exps.append(dict(e, nparticle=len(sel), particle_type=np.array([m[e["types"][i]] for i in sel], dtype=int), positions=e["truth"][sel].reshape(len(sel), d)))
    sig = {"d": d, "style": case["style"], "slice": "scale"}
    io19.put("c19c.dump", "".join(text))
    m1, m2 = dict(m), dict(m)
    rd = DumpReader("c19c.dump", ndim=d, filetype=DumpFileType.LAMMPSCENTER, moltypes=m1)
    rd.read_onefile()
    s2 = read_lammps_centertype_wrapper("c19c.dump", d, m2)
    R.elem = 0
    for tag, S in (("DumpReader", rd.snapshots), ("read_lammps_centertype_wrapper", s2)):
        R.elem += _cmp_snapshots(R, tag, S, exps, sig, ALL_KEYS)
    if m1 != m or m2 != m:
        R.fail("the type map was modified by the reader", sig=dict(sig, clause="input"))
    R.outcome([[int(s.timestep), int(s.nparticle), digest(np.ascontiguousarray(s.positions)), digest(np.ascontiguousarray(s.particle_type))] for s in s2.snapshots])
    R.nontrivial = any(x["nparticle"] > 0 for x in exps)
    return R


def scale_col_lists(d, E):
    """column-id lists (1-based over the whole line) of length 1..6 for a line with E >= 6 trailing columns: single, descending pair with a
    two-digit id, 6 descending, repeats + id + type, coordinate columns mixed in, 5 ascending, 4 unordered"""
    first, last = d + 3, d + 2 + E
    return [[first], [last, first], list(range(last, last - 6, -1)), [first, first, last - 2, last - 2, 1, 2], [3, d + 2, first + 5],
            list(range(first, first + 5)), [last - 2, last - 1, last, last - 3]]


def _hdr_writer(ts, n, bb, names):
    from PyMatterSim.writer.lammps_writer import write_dump_header

    return write_dump_header(ts, n, bb, " ".join(names))


def gen_scale_vector(tier, seed):
    q = tier == "quick"
    for n, F in (NF_SCALE_QUICK if q else NF_SCALE_ALL):
        for d in (3, 2):
            for E in ((12,) if q else (6, 12)):
                for ci, cols in enumerate(scale_col_lists(d, E)):
                    for oi, order in enumerate(_orders(tier)):
                        if q and (oi + ci) % 2:
                            continue
                        yield {"d": d, "N": n, "F": F, "order": order, "E": E, "cols": cols, "npints": bool((ci + oi) % 2), "vary": "all" if F > 1 else None,
                               "writer": "hdr" if (ci + oi + d) % 3 == 0 else "enc", "blanks": bool(ci % 2), "syntax": "sci" if ci == 4 else "decimal", "seed": seed}


def run_scale_vector(case):
    from PyMatterSim.reader.dump_reader import DumpReader
    from PyMatterSim.reader.lammps_reader_helper import read_lammps_vector_wrapper
    from PyMatterSim.reader.reader_utils import DumpFileType

    R = Result()
    d = case["d"]
    cols = list(case["cols"])
    text, frames = c19x.dump_frames(case, _hdr_writer if case["writer"] == "hdr" else None)
    exps = [dict(e, positions=e["rows"][:, [c - 1 for c in cols]].reshape(e["nparticle"], len(cols))) for e in frames]
    sig = {"d": d, "ncols": len(cols), "slice": "scale"}
    io19.put("c19v.dump", "".join(text))
    mk = (lambda: [np.int64(c) for c in cols]) if case["npints"] else (lambda: list(cols))
    c1, c2 = mk(), mk()
    rd = DumpReader("c19v.dump", ndim=d, filetype=DumpFileType.LAMMPSVECTOR, columnsids=c1)
    rd.read_onefile()
    s2 = read_lammps_vector_wrapper("c19v.dump", d, c2)
    R.elem = 0
    for tag, S in (("DumpReader", rd.snapshots), ("read_lammps_vector_wrapper", s2)):
        R.elem += _cmp_snapshots(R, tag, S, exps, sig, ALL_KEYS)
    if [int(c) for c in c1] != cols or [int(c) for c in c2] != cols:
        R.fail("the column list was modified by the reader", sig=dict(sig, clause="input"))
    R.outcome([[int(s.timestep), int(s.nparticle), digest(np.ascontiguousarray(s.positions))] for s in s2.snapshots])
    return R


def gen_scale_additions(tier, seed):
    q = tier == "quick"
    for n, F in (NF_SCALE_QUICK if q else NF_SCALE_ALL):
        for d in (3, 2):
            for E in ((12,) if q else (1, 6, 12)):
                for ncol in range(0, d + 2 + E):
                    for oi, order in enumerate(_orders(tier)):
                        if q and (oi + ncol) % 2:
                            continue
                        k = ncol + oi
                        yield {"d": d, "N": n, "F": F, "order": order, "E": E, "ncol": ncol, "vary": "cell" if F > 1 else None, "cell": "tri" if k % 3 == 1 else "orth",
                               "writer": "hdr" if k % 3 == 2 else "enc", "blanks": bool(k % 2), "syntax": "sci" if k % 5 == 0 else "decimal", "seed": seed}


def run_scale_additions(case):
    from PyMatterSim.reader.lammps_reader_helper import read_additions

    R = Result()
    d = case["d"]
    text, frames = c19x.dump_frames(case, _hdr_writer if case["writer"] == "hdr" else None)
    want = np.array([e["rows"][:, case["ncol"]] for e in frames], float)
    sig = {"d": d, "slice": "scale"}
    io19.put("c19a.dump", "".join(text))
    A = read_additions("c19a.dump", case["ncol"])
    if not isinstance(A, np.ndarray) or A.shape != want.shape or A.dtype.kind != "f":
        R.fail(f"read_additions: result of shape {getattr(A, 'shape', None)}, expected float array {want.shape} [frames, particles]", sig=dict(sig, clause="shape"))
    elif not (np.abs(A - want) <= 1e-12).all():
        R.fail(f"read_additions(ncol={case['ncol']}): values by (frame, atom id) differ", sig=dict(sig, clause="values"), exp=want, obs=A)
    R.elem = want.size
    R.outcome(digest(np.ascontiguousarray(A)) if isinstance(A, np.ndarray) else None)
    return R


def gen_scale_header(tier, seed):
    q = tier == "quick"
    for n, F in (NF_HDR_QUICK if q else NF_HDR_ALL):
        for d in (3, 2):
            for E in (0, 2, 12):
                for oi, order in enumerate(_orders(tier)):
                    for vary in (("all",) if q or F == 1 else ("all", "cell")):
                        yield {"d": d, "N": n, "F": F, "order": order, "E": E, "vary": vary if F > 1 else None, "blanks": bool(oi % 2), "aslist": bool((oi + E) % 2),
                               "seed": seed}


def run_scale_header(case):
    """write_dump_header (N up to 1000, timesteps beyond 2^31 / 13 digits) + atom lines -> every dump reader"""
    from PyMatterSim.reader.dump_reader import DumpReader
    from PyMatterSim.reader.lammps_reader_helper import read_additions, read_lammps_vector_wrapper, read_lammps_wrapper
    from PyMatterSim.reader.reader_utils import DumpFileType
    from PyMatterSim.writer.lammps_writer import write_dump_header

    R = Result()
    d, E = case["d"], case["E"]
    sig = {"d": d, "addson": "names" if E else "empty", "slice": "scale"}
    heads = []

    def hdr(ts, n, bb, names):
        arg = bb.tolist() if case["aslist"] else np.array(bb)
        h = write_dump_header(ts if case["aslist"] else np.int64(ts), n, arg, " ".join(names))
        heads.append(h)
        if isinstance(h, str):
            _header_grammar(R, h, ts, n, bb.tolist(), d, " ".join(names), sig)
        return h if isinstance(h, str) else ""

    text, frames = c19x.dump_frames(case, hdr)
    exps = [dict(e, positions=e["truth"]) for e in frames]
    io19.put("c19h.dump", "".join(text))
    rd = DumpReader("c19h.dump", ndim=d, filetype=DumpFileType.LAMMPS)
    rd.read_onefile()
    s2 = read_lammps_wrapper("c19h.dump", d)
    R.elem = 0
    for tag, S in (("DumpReader", rd.snapshots), ("read_lammps_wrapper", s2)):
        R.elem += _cmp_snapshots(R, tag, S, exps, sig, ALL_KEYS)
    if E:
        cols = [d + 3 + c for c in range(E)]
        V = read_lammps_vector_wrapper("c19h.dump", d, cols)
        R.elem += _cmp_snapshots(R, "read_lammps_vector_wrapper", V, [dict(e, positions=e["rows"][:, d + 2:]) for e in frames], dict(sig, reader="vector"), ALL_KEYS)
        if case["vary"] != "all":
            for c in (0, E // 2, E - 1):
                A = read_additions("c19h.dump", d + 2 + c)
                want = np.array([e["rows"][:, d + 2 + c] for e in frames])
                if not isinstance(A, np.ndarray) or A.shape != want.shape or not (np.abs(A - want) <= 1e-12).all():
                    R.fail(f"read_additions(ncol={d + 2 + c}) of the written frames differs", sig=dict(sig, reader="additions"), exp=want, obs=A)
    R.outcome([heads[0], [[int(s.timestep), int(s.nparticle), digest(np.ascontiguousarray(s.positions))] for s in s2.snapshots]])
    return R


# -------------------------------------------------------------------------------------------- scale: HOOMD frames
def gen_scale_gsd(tier, seed):
    q = tier == "quick"
    pairs = [[64, 10], [130, 12], [257, 10], [3, 65]] if q else [[n, F] for n in (64, 130, 257) for F in (10, 12)] + [[3, 65], [10, 130], [2, 257]]
    for n, F in pairs:
        for d in (3, 2):
            yield {"d": d, "N": n, "F": F, "mode": "gsd", "vary_n": True}
            yield {"d": d, "N": n, "F": F, "mode": "gsd", "vary_n": False}
            yield {"d": d, "N": n, "F": F, "mode": "dcd", "vary_n": False}


def run_scale_gsd(case):
    reg = io19.install_stubs()
    R = Result()
    d = case["d"]
    dcdmode = case["mode"] == "dcd"
    frames, dcds = c19x.gsd_frames(d, case["N"], case["F"], case["vary_n"])
    exps = gsd_expect(d, frames, dcds if dcdmode else None)
    R.elem = 0
    runs, ntr = _gsd_execute(R, reg, d, dcdmode, frames, dcds, exps, {"d": d, "mode": case["mode"], "slice": "scale"})
    reg.gsd.clear()
    reg.dcd.clear()
    S = runs[0][1]
    R.outcome(None if S is None else [[int(s.timestep), int(s.nparticle), digest(np.ascontiguousarray(s.positions)), digest(np.ascontiguousarray(s.particle_type))]
                                      for s in S.snapshots])
    return R


# --------------------------------------------------------------------------------------------------- scale: logs
S_SCALE = [9, 10, 11, 12]
R_SCALE = [63, 64, 65, 130, 257]
LOG_BIG = [12, 3800, 4]  # one log of more than 32 767 lines (9 long tables of ~3800 rows)
SCALE_NOISE = ["none", "post", "blank", "text", "warn", "stepword", "numeric", "quoted", "blank2", "mlquote", "post", "unbalq"]


def gen_scale_log(tier, seed):
    q = tier == "quick"
    k = 0
    for S in S_SCALE:
        for Rr in R_SCALE:
            for C in ((4, 12) if q else (2, 4, 9, 12)):
                for layout in (0, 1):
                    k += 1
                    if q and (k + S + C // 4) % 2:
                        continue
                    yield {"S": S, "R": Rr, "C": C, "layout": layout, "pre": "long" if k % 2 else "short", "seed": seed}
    yield {"S": LOG_BIG[0], "R": LOG_BIG[1], "C": LOG_BIG[2], "layout": 1, "pre": "short", "seed": seed}
    if "log_modern_header" not in KNOWN_OPEN:
        for S in (1, 2, 10):
            for Rr in (2, 65):
                for C in (3, 12):
                    yield {"S": S, "R": Rr, "C": C, "layout": 2, "pre": "long", "seed": seed}


def run_scale_log(case):
    from PyMatterSim.reader.simulation_log import read_lammpslog

    R = Result()
    S, layout, seed = case["S"], case["layout"], case["seed"]
    text = PREAMBLE[case["pre"]]
    secs = []
    for k, (r, c) in enumerate(c19x.log_shapes(S, case["R"], case["C"])):
        t, names, rows = c19x.log_section(seed, k, r, c, layout)
        text += io19.NOISE[SCALE_NOISE[(k + S) % len(SCALE_NOISE)]] + t
        secs.append((names, rows))
    tails = {"end": "", "noise": io19.POST_LOOP + "\nTotal wall time: 0:10:01\n", "inc3cut": io19.incomplete_text(seed, S, 3, True),
             "inc4": "run 100\n" + io19.incomplete_text(seed, S, 4, False)}
    R.elem = 0
    out = None
    for tail, extra in tails.items():
        if (case["R"] > 1000 and tail not in ("end", "inc3cut")) or (layout == 2 and tail not in ("end", "noise")):
            continue
        io19.put("c19.log", text + extra)
        complete = tail in ("end", "noise")
        ts = {"S": ">=9" if S >= 9 else "<9", "tail": "complete" if complete else "incomplete", "slice": "scale"}
        if layout == 2:
            ts["layout"] = "aligned_header"

        def sg(generic, **kw):
            return dict(ts, clause=generic, **kw)

        frames = read_lammpslog("c19.log")
        if not isinstance(frames, list) or (len(frames) != S if complete else len(frames) < S):
            R.fail(f"{len(frames) if isinstance(frames, list) else type(frames).__name__} frames returned for a log with {S} complete sections (tail: {tail})",
                   sig=sg("count"))
            continue
        R.elem += _cmp_sections(R, frames, secs, S, tail, sg)
        if tail == "end":
            out = [[list(map(str, df.columns)), digest(np.ascontiguousarray(df.values.astype(float)))] for df in frames]
    R.outcome(out)
    return R



# ===================================================================================== round 4: C19.log_tail (end-of-file forms)
def gen_log_tail(tier, seed):
    depth = 2 if tier == "quick" else 3
    for layout in (0, 1, 2):
        for pre in ("long", "short"):
            for Lw in range(0, depth + 1):
                for word in itertools.product(range(len(Y.LOG_EVENTS)), repeat=Lw):
                    yield {"layout": layout, "pre": pre, "word": list(word), "seed": seed}
                    if Lw >= 1 and pre == "short":
                        # undefined thermo values: LAMMPS prints "nan" / "-nan" (0/0 computes, pressure of an empty group); such a row is still a row
                        yield {"layout": layout, "pre": pre, "word": list(word), "seed": seed, "nan": True}


def _with_nan(t, rows):
    """first data row: last column -> nan; last data row: second column -> -nan (text and expected values)"""
    lines = t.split("\n")
    rows = [list(r) for r in rows]
    if not rows:
        return t, rows
    for (r, c, tok) in ((0, len(rows[0]) - 1, "nan"), (len(rows) - 1, 1, "-nan")):
        toks = lines[1 + r].split()
        toks[c] = tok
        lines[1 + r] = " ".join(toks)
        rows[r][c] = float("nan")
    return "\n".join(lines), rows


def run_log_tail(case):
    from PyMatterSim.reader.simulation_log import read_lammpslog

    R = Result()
    seed, layout = case["seed"], case["layout"]
    base = PREAMBLE[case["pre"]]
    secs = []
    for k, a in enumerate(case["word"]):
        nz, r, c = Y.LOG_EVENTS[a]
        t, names, rows = c19x.log_section(seed, k, r, c, layout)
        if case.get("nan"):
            t, rows = _with_nan(t, rows)
        base += io19.NOISE[nz] + t
        secs.append((names, rows))
    S = len(secs)
    forms = list(Y.LOG_ENDS_COMPLETE) + list(Y.LOG_ENDS_INCOMPLETE)
    if "log_blank_tail" not in KNOWN_OPEN:
        forms += [f for f in Y.LOG_ENDS_BLANK if f != "empty" or (S == 0 and case["pre"] == "short" and layout == 0)]
    R.elem = 0
    outs = []
    for form in forms:
        text = Y.log_end(base, form, seed, S)
        io19.put("c19t.log", text)
        complete = form not in Y.LOG_ENDS_INCOMPLETE
        ts = {"S": str(S) if S < 2 else ">=2", "tail": "complete" if complete else "incomplete", "slice": "log_tail",
              "end": "blanks_only" if form in Y.LOG_ENDS_BLANK else "no_newline" if form.endswith("nonl") else "blank_lines" if "blank" in form else "newline"}

        def sg(generic, **kw):
            return dict(ts, clause=generic, **kw)

        try:
            frames = read_lammpslog("c19t.log")
        except Exception as e:  # reported (never hidden): a valid log must not make the reader raise; the other end forms are still examined
            R.fail(f"read_lammpslog raised {type(e).__name__}: {e} on a log with {S} complete sections (end of file: {form})", sig=sg("exception", exception=type(e).__name__))
            continue
        if not isinstance(frames, list) or (len(frames) != S if complete else len(frames) < S):
            R.fail(f"{len(frames) if isinstance(frames, list) else type(frames).__name__} frames returned for a log with {S} complete sections (end of file: {form})",
                   sig=sg("count"))
            continue
        R.elem += _cmp_sections(R, frames, secs, S, form, sg)
        outs.append(len(frames))
    R.states = len(forms)
    R.outcome([S, [list(map(len, (rows for _, rows in secs)))], outs])
    R.nontrivial = True
    return R


# ===================================================================================== round 4: C19.centertype.class (L2)
CLASS_TYPES = [
    [[1, 1, 1], [1, 2, 3], [3, 3, 3]],  # with the map {3: .}: nothing / one / every atom selected
    [[3, 3, 3], [1, 1, 1], [3, 1, 3]],  # every atom first, then nothing, then ragged
    [[1, 2, 2], [2, 1, 2], [2, 2, 1]],  # the selected id moves
    [[2, 2, 2], [2, 2, 2], [1, 2, 3]],  # nothing selected until the last frame
]
CLASS_MAPS = [[[3, 1]], [[1, 2]], [[1, 2], [3, 1]], [[3, 0]], [[1, 0], [2, 1]]]


def gen_center_class(tier, seed):
    for d in (3, 2):
        for ss in Y_STYLE_SEQS:
            for lo in ORIGINS[:2]:
                for tb in CLASS_TYPES:
                    for m in CLASS_MAPS:
                        for order in ([2, 0, 1], [0, 1, 2]):
                            yield {"d": d, "style": ss[0], "styles": ss, "lo": lo[:d], "types": tb[0], "types_by_frame": tb, "order": order, "map": m, "F": 3,
                                   "klass": "class", "zero_pos": lo is ORIGINS[1]}


Y_STYLE_SEQS = [["x"] * 3, ["xs"] * 3, ["xu"] * 3, ["x", "xs", "xu"], ["xs", "xu", "x"], ["xu", "x", "xs"]]


# ===================================================================================== round 4: C19.forms.* (L4 / L5)
def gen_forms_center(tier, seed):
    maps = [[[3, 1]], [[1, 2], [2, 1]], [[3, 0]], [[1, 0], [2, 1]], [[1, 3], [2, 0], [3, 0]]]
    for d in (3, 2):
        for style in ("x", "xs", "xu"):
            for form in ("npkeys", "npndim", "plain"):
                for types in ([1, 2, 3], [3, 3, 1], [2, 1, 2]):
                    for m in maps:
                        for F in (1, 3):
                            yield {"d": d, "style": style, "lo": ORIGINS[1][:d], "types": types, "order": [1, 2, 0], "map": m, "F": F, "form": form, "zero_pos": True}
            for dil in ("2^-33", "2^27", None):
                for types in ([1, 2, 3], [3, 3, 1]):
                    for m in maps[:2]:
                        yield {"d": d, "style": style, "lo": ORIGINS[0][:d], "types": types, "order": [1, 2, 0], "map": m, "F": 3, "form": "dilated" if dil else "far",
                               "dilate": dil, "far": True}


def gen_forms_vector(tier, seed):
    for d in (3, 2):
        for E in (1, 3):
            cl = col_lists(d, E, "quick")
            for ci, cols in enumerate(cl):
                for form in ("tuple", "ndarray", "np32list", "npndim"):
                    for zeros in (True, False):
                        if not zeros and (ci % 2 or tier == "quick"):
                            continue
                        for F in (1, 3):
                            yield {"d": d, "E": E, "cols": cols, "F": F, "N": 3, "order": [2, 0, 1], "writer": "enc" if ci % 2 else "hdr", "vary": "cell",
                                   "seed": seed, "form": form, "zeros": zeros}
        for E in (1, 2):
            for F in (1, 2):
                yield {"d": d, "E": E, "cols": [], "F": F, "N": 2, "order": [1, 0], "writer": "enc", "vary": None, "seed": seed, "form": "empty"}


def gen_forms_additions(tier, seed):
    for d in (3, 2):
        for E in (1, 2, 3):
            for ncol in range(0, d + 2 + E):
                for F in (1, 3):
                    for form in ("npncol", "plain"):
                        for syntax in ("decimal", "sci"):
                            yield {"d": d, "E": E, "ncol": ncol, "F": F, "N": 3, "order": [1, 2, 0], "cell": "orth", "syntax": syntax, "vary": "cell",
                                   "writer": "enc" if (ncol + F) % 2 else "hdr", "seed": seed, "form": form, "zeros": True}


def gen_forms_header(tier, seed):
    for d in (3, 2):
        for b in Y.FBOUNDS:
            for form in Y.HEADER_FORMS:
                if form == "intbounds" and b == "dyadic":
                    continue
                for ts in (0, 7, 10**9):
                    for n in (0, 1, 3, 1000):
                        for addson in ("", "vx vy"):
                            yield {"d": d, "b": b, "form": form, "ts": ts, "N": n, "addson": addson}


def run_forms_header(case):
    """same numbers in another storage form -> the same header text (and the text obeys the header grammar)"""
    from PyMatterSim.writer.lammps_writer import write_data_header, write_dump_header

    R = Result()
    d, form = case["d"], case["form"]
    bb = [list(x) for x in Y.FBOUNDS[case["b"]][:d]]
    ts, n, addson = case["ts"], case["N"], case["addson"]
    sig = {"d": d, "slice": "forms", "form": form, "addson": "names" if addson else "empty"}
    plain = write_dump_header(ts, n, np.array(bb, float), addson)
    a_ts, a_n, a_bb = Y.header_args(form, ts, n, bb)
    keep = np.array(a_bb, float).copy()
    h = write_dump_header(a_ts, a_n, a_bb, addson)
    if not isinstance(h, str) or not isinstance(plain, str):
        R.fail("write_dump_header did not return a string", sig=dict(sig, clause="layout"))
        return R
    _header_grammar(R, h, ts, n, bb, d, addson, sig)
    if h != plain:
        R.fail(f"write_dump_header: arguments stored as {form} give another text than the same numbers as int / float64 ndarray", sig=dict(sig, clause="storage"),
               exp=plain, obs=h)
    if not np.array_equal(np.array(a_bb, float), keep):
        R.fail("write_dump_header changed its boxbounds argument", sig=dict(sig, clause="input"))
    k = 1 + (ts % 3)
    plain2 = write_data_header(n, k, np.array(bb, float))
    b_n, b_k, b_bb = Y.header_args(form, n, k, bb)
    h2 = write_data_header(b_n, b_k, b_bb)
    if h2 != plain2:
        R.fail(f"write_data_header: arguments stored as {form} give another text than the same numbers as int / float64 ndarray", sig=dict(sig, clause="storage_data"),
               exp=plain2, obs=h2)
    P = io19.parse_data_header(h2)
    if P["counts"].get("atoms") != n or P["counts"].get("atom types") != k:
        R.fail("data header: counts differ", sig=dict(sig, clause="atoms"), exp=[n, k], obs=P["counts"])
    for a, ax in enumerate("xyz"[:d]):
        if ax not in P["bounds"] or abs(P["bounds"][ax][0] - bb[a][0]) > 1e-12 or abs(P["bounds"][ax][1] - bb[a][1]) > 1e-12:
            R.fail(f"data header: {ax} bounds differ from the input", sig=dict(sig, clause="bounds"), exp=bb[a], obs=P["bounds"].get(ax))
    R.elem = 2
    R.outcome([h, h2])
    R.nontrivial = True
    return R


# ===================================================================================== round 4: C19.sequence (L6)
def gen_sequence(tier, seed):
    depth = 2 if tier == "quick" else 3
    nl = len(Y.SEQ_LETTERS)
    for Lw in range(1, depth + 1):
        for word in itertools.product(range(nl), repeat=Lw):
            if Lw == 3 and (len(set(word)) == 1 or len({Y.SEQ_LETTERS[k]["fn"] for k in word}) == 3):
                continue  # length 3: only words in which two calls share a routine (the colliding ones)
            yield {"word": list(word), "seed": seed}


_SEQ_FRESH = {}


def run_sequence(case):
    io19.install_stubs()
    R = Result()
    seed = case["seed"]
    names = [Y.SEQ_LETTERS[k]["id"] for k in case["word"]]
    feat = {"slice": "sequence"}
    payload = X3.fresh_child(Y.seq_child, case, Y.SEQ_MODS)
    if "err" in payload:
        R.fail(f"call sequence {names} raised {payload['err']}", sig=dict(feat, clause="exception"))
        return R
    for k in set(case["word"]):
        if (seed, k) not in _SEQ_FRESH:
            one = X3.fresh_child(Y.seq_child, {"word": [k], "seed": seed}, Y.SEQ_MODS)
            if "err" in one:
                R.fail(f"single call {Y.SEQ_LETTERS[k]['id']} raised {one['err']}", sig=dict(feat, clause="exception"))
                return R
            _SEQ_FRESH[(seed, k)] = one["ok"][0]
    states = set()
    for pos, (k, got) in enumerate(zip(case["word"], payload["ok"])):
        lt = Y.SEQ_LETTERS[k]
        ref = _SEQ_FRESH[(seed, k)]
        if got != ref:
            R.fail(f"call #{pos + 1} ({lt['id']}: {lt['fn']}) of the sequence {names} differs from the same call made first in a fresh process",
                   sig=dict(feat, clause="stale", fn=lt["fn"], position="later" if pos else "first"), exp=str(ref)[:300], obs=str(got)[:300])
        states.add(digest(got))
    R.states = len(case["word"]) + 1
    R.transitions = len(case["word"])
    R.elem = len(case["word"])
    R.outcome(sorted(states))
    R.nontrivial = True
    return R


# ============================================================================================= subs
def subs(tier, seed):
    q = tier == "quick"
    s = [
        Sub("C19.header_loop", gen_header, run_header,
            rule="{2D,3D} x addson {default,'','order','vx vy'} x bounds given as ndarray/list x 5 bounds sets (zero/negative/positive origins with 6 decimals, "
                 "non-6-decimal thirds/sevenths, large+tiny) x timesteps {0,7,1e9} x N {1,2,3}; plus two-frame files where timestep, N and bounds all change; "
                 "header tokenized independently, file read back by read_lammps_wrapper and DumpReader (all fields), addson columns by read_lammps_vector and read_additions"),
        Sub("C19.data_header", gen_data, run_data,
            rule="{2D,3D} x ndarray/list x 5 bounds sets x N {0,1,5,1e6} x K {1,2,5}; header + atom lines tokenized by the read_data rules"),
        Sub("C19.centertype", gen_center, run_center,
            rule="3 atom types; ALL 26 maps from a non-empty key subset of {1,2,3} into {1,2} + 4 extra maps (absent key, other values, unsorted); all type "
                 "assignments {1,2,3}^N x all N! line orders, N<=3 (quick) / 4 (thorough, first origin) x styles {x (one-box excursions), xs, xu} x {2D,3D} x origins; "
                 "N=5 mixed with F<=3 frames (types rotate, box changes); non-trivial = a proper non-empty subset is selected",
            bounds={"Nmax": 3 if q else 4, "maps": 30}),
        Sub("C19.vector", gen_vector, run_vector,
            rule="1-3 additional columns; every non-empty ordered list of distinct additional columns + lists with coordinate/id/type columns and a repeat "
                 "(thorough: every ordered list of <=3 distinct columns of the whole line) x F {1,2,3} x all line orders N<=3/4 x header from the independent "
                 "encoder / from write_dump_header; frames with changing cell, changing N, %.16e syntax",
            bounds={"Nmax": 3 if q else 4}),
        Sub("C19.additions", gen_additions, run_additions,
            rule="every zero-based column 0..d+1+E of files with E=1..3 additional columns x F {1,2,3} x all line orders N<=3/4 x orthogonal/triclinic headers x "
                 "decimal/%.16e; headers from the encoder and from write_dump_header",
            bounds={"Nmax": 3 if q else 4}),
        Sub("C19.gsd", gen_gsd, run_gsd,
            rule="explicit-state search over frame-append histories, F<=3 (quick) / 4 (thorough), alphabet of 8 frames (N {1,3} x 2 typeid patterns x 2 boxes; step, positions depend on "
                 "the position in the history; N may change between frames); every state: read_gsd, read_gsd_wrapper (2 paths), DumpReader, DumpReader with "
                 "moltypes + columnsids passed as well (options of the LAMMPS file types: ignored, lesson L1) on fresh duck objects, wrong ndim -> None, frame objects unchanged", bounds={"depth": 3 if q else 4, "alphabet": 8}),
        Sub("C19.gsd_dcd", gen_gsd_dcd, run_gsd,
            rule="explicit-state search over (frame, DCD frame)-append histories, F<=3 (quick) / 4 (thorough), N fixed per search (1 or 3), alphabet of 4; every state: read_gsd_dcd, "
                 "wrapper (2 paths, sibling .dcd name), DumpReader, DumpReader with moltypes + columnsids passed positionally (ignored); companions with one frame/atom more or less "
                 "-> None; wrong ndim -> None; DCD closed",
            bounds={"depth": 3 if q else 4, "alphabet": 4}),
        Sub("C19.log", gen_log, run_log,
            rule="explicit-state search over section-append histories: event = (noise before the section from 11 kinds incl. echoed multi-line/unbalanced quotes, rows 1-3, columns 2-4), depth 3 "
                 "(events per level quick 44/9/2, thorough 99/21/4), preamble x layout combinations 2 (quick) / 3; every state is closed with 6 (quick) / 8 tails "
                 "(end of file, wall-time line, timing noise, incomplete trailing sections of 0-4 rows) and read back: count, names, every value",
            bounds={"depth": 3}),
        Sub("C19.scale.center", gen_scale_center, run_scale_center,
            rule="SCALE slice (sizes, one value pattern per size): N in {10,12,100,130,257} x F in {1,10,12} (+ (12,65),(10,130) thorough; quick: 6 (N,F) pairs) x {2D,3D} x "
                 "{x,xs,xu} x 5 type maps (two-/three-digit keys, a key carried by exactly ONE atom, all atoms) x shuffled lines i->(a i+b) mod N (another a,b per "
                 "frame) / descending / ascending, 0/3/12 trailing columns; types by id, count, cell and origin differ in every frame",
            bounds={"Nmax": 257, "Fmax": 130}),
        Sub("C19.scale.vector", gen_scale_vector, run_scale_vector,
            rule="SCALE slice: same (N,F) sizes x {2D,3D} x 12 (thorough also 6) trailing columns x 7 column lists of length 1..6 (two-digit ids, descending, repeated, "
                 "id/type/coordinate columns mixed in; python or numpy integers) x line orders; headers from the encoder or from write_dump_header; count and cell change per frame",
            bounds={"Nmax": 257, "Fmax": 130, "columns": 17}),
        Sub("C19.scale.additions", gen_scale_additions, run_scale_additions,
            rule="SCALE slice: same sizes x every zero-based column of lines with 12 (thorough also 1, 6) trailing columns x line orders x orthogonal/triclinic/write_dump_header headers",
            bounds={"Nmax": 257, "Fmax": 130, "columns": 17}),
        Sub("C19.scale.header", gen_scale_header, run_scale_header,
            rule="SCALE slice: write_dump_header for N in {10,100,257,1000} x F in {1,10,12} (quick 4 pairs), timesteps up to 13 digits across 2^31, addson with 0/2/12 names, "
                 "bounds and N changing per frame; headers tokenized; the file read back by DumpReader, read_lammps_wrapper (all fields), read_lammps_vector, read_additions",
            bounds={"Nmax": 1000, "Fmax": 12}),
        Sub("C19.scale.gsd", gen_scale_gsd, run_scale_gsd,
            rule="SCALE slice: duck-typed HOOMD trajectories N in {64,130,257} x F in {10,12} + many short frames (3,65),(10,130),(2,257) x {2D,3D} x {gsd with N changing per "
                 "frame, gsd, gsd+dcd}; type ids up to 299, steps beyond 2^31, box/types/positions differ per frame; all conversions as in C19.gsd / C19.gsd_dcd",
            bounds={"Nmax": 257, "Fmax": 257}),
        Sub("C19.scale.log", gen_scale_log, run_scale_log,
            rule="SCALE slice: logs with S in {9,10,11,12} sections whose long table has R in {63,64,65,130,257} rows and C in {2,4,9,12} columns (quick {4,12}; half of the "
                 "products), alternating with tables of R+1, R-1 rows and 1-3 row tables, 12 kinds of noise between the sections, 2 layouts, 4 tails; one log with 9 tables of ~3800 rows "
                 "(> 32767 lines); count, names and every value compared",
            bounds={"Smax": 12, "Rmax": 3801, "Cmax": 12}),
        Sub("C19.log_tail", gen_log_tail, run_log_tail,
            rule="END-OF-FILE forms of a log (coverage gap simulation_log.py L30): all section words of length <= " + ("2" if q else "3") + " over 4 events (noise none / blank / "
                 "timing block / numeric-first text x rows 1-3 x columns 2-4) x 3 layouts (classic, single blanks, column-aligned header) x 2 preambles; every state "
                 "closed with 7 complete ends (newline, NO final newline, 1 / 3 blank last lines, wall-time line without newline / + blank lines, timing block without "
                 "newline) and 3 incomplete ends (numeric last row without newline, rows + blank line, header only without newline); count, names, every value",
            bounds={"depth": 2 if q else 3, "events": len(Y.LOG_EVENTS), "ends": len(Y.LOG_ENDS_COMPLETE) + len(Y.LOG_ENDS_INCOMPLETE)}),
        Sub("C19.centertype.class", gen_center_class, run_center,
            rule="frames of another CLASS (lesson L2): 3 frames, N=3, types by frame such that the first frame selects nothing / everything / one atom and later frames "
                 "differ (4 patterns) x 5 maps (incl. molecule type 0) x 6 style words (x / xs / xu constant or rotating per frame) x 2 origins (origin 0: an atom "
                 "exactly on the origin in xs / xu frames) x 2 line orders x {2D,3D}; all fields of all frames, DumpReader and wrapper",
            bounds={"F": 3, "N": 3}),
        Sub("C19.forms.center", gen_forms_center, run_center,
            rule="STORAGE FORMS / ZEROS (L4, L5): type map with numpy integer keys and values, ndim as numpy.int64 / int32, maps with molecule type 0, an atom exactly on the "
                 "cell origin; {2D,3D} x styles x 3 type assignments x 5 maps x F {1,3}; plus (L7 / L9) files with unwrapped coordinates 0, +2, -3, +4 boxes away and the whole "
                 "file dilated by 2**-33 / 2**27 (tolerance scaled alike)", bounds={"N": 3}),
        Sub("C19.forms.vector", gen_forms_vector, run_vector,
            rule="STORAGE FORMS / ZEROS: column list as tuple / int64 ndarray / list of numpy.int32 / with ndim numpy.int64; every second column value an exact zero printed "
                 "as 0, -0, 0.0, 0e0, -0.0; all column lists of the quick alphabet x E {1,3} x F {1,3}; an EMPTY list must raise ValueError (wrapper, DumpReader, empty tuple)",
            bounds={"N": 3}),
        Sub("C19.forms.additions", gen_forms_additions, run_additions,
            rule="STORAGE FORMS / ZEROS: ncol as numpy.int64; every second column value an exact zero (five spellings); every zero-based column x E {1,2,3} x F {1,3} x "
                 "decimal / %.16e x encoder / write_dump_header headers", bounds={"N": 3}),
        Sub("C19.forms.header", gen_forms_header, run_forms_header,
            rule="STORAGE FORMS of the writers' arguments: timestep / N as numpy.int32 / int64, bounds as float32, int64, nested tuples, Fortran-ordered, strided view, "
                 "read-only x 3 bounds sets (exact in every storage) x timesteps {0,7,1e9} x N {0,1,3,1000} x addson {'', 'vx vy'} x {2D,3D}; oracle: the same text "
                 "as for int / float64 ndarray arguments + the header grammar (dump header) / data tokenizer (data header); arguments unchanged",
            bounds={"forms": Y.HEADER_FORMS}),
        Sub("C19.sequence", gen_sequence, run_sequence,
            rule="explicit-state search over CALL SEQUENCES (lesson L6): words of length <= " + ("2" if q else "3 (length 3: two calls share a routine)") + " over 18 complete "
                 "calls - write_dump_header 2D / 3D / without names / other bounds, write_data_header 2D / 3D, centre reader with two maps on one file, column reader with two "
                 "lists on one file and on a file of the same name, size and first frame, read_additions likewise, read_lammpslog on two logs of the same name, size and "
                 "first section, read_gsd on two trajectories with the same first frame - each word in a forked child with freshly imported modules; oracle: bit for bit "
                 "the result of the same call made first in a fresh child",
            bounds={"depth": 2 if q else 3, "letters": len(Y.SEQ_LETTERS)}),
    ]
    return s
